"""Engine B: compile-fail witness corpus with compiling twins.  The oracle is rustc's borrow checker / trait solver:
one `cargo +nightly check` of a scratch package whose binaries are the witness programs, path-depending on /repo.
Nothing is executed."""
import json, os, re, shutil, subprocess, tempfile, time
from facts import VERIF, WORK, REPO

CASES = os.path.join(VERIF, 'witness', 'cases')


def parse_case(path):
    src = open(path).read()
    meta = {}
    for m in re.finditer(r'^//@ (\w+): (.*)$', src, re.M):
        meta[m.group(1)] = m.group(2).strip()
    return meta, src


def variants(src):
    """(failing variant, twin) by dropping the lines marked for the other variant"""
    f, t = [], []
    for line in src.split('\n'):
        s = line.rstrip()
        if s.endswith('//~ FAIL'):
            f.append(line)
        elif s.endswith('//~ TWIN'):
            t.append(line)
        else:
            f.append(line)
            t.append(line)
    return '\n'.join(f), '\n'.join(t)


def run_corpus(programs, repo=REPO, keep=False):
    """programs: {target name: source}.  Returns {target: {'errors': [codes], 'messages': [...]}} after one cargo check."""
    os.makedirs(WORK, exist_ok=True)
    d = tempfile.mkdtemp(prefix='witness.', dir=WORK)
    try:
        os.makedirs(os.path.join(d, 'src', 'bin'))
        bins = []
        for name, src in sorted(programs.items()):
            open(os.path.join(d, 'src', 'bin', name + '.rs'), 'w').write(src)
            bins.append('[[bin]]\nname = "%s"\npath = "src/bin/%s.rs"\n' % (name, name))
        open(os.path.join(d, 'Cargo.toml'), 'w').write(
            '[package]\nname = "jammwitness"\nversion = "0.0.0"\nedition = "2021"\n\n[dependencies]\njammdb = { path = "%s" }\n\n[workspace]\n\n%s' % (repo, '\n'.join(bins)))
        lock = os.path.join(repo, 'Cargo.lock')
        if os.path.exists(lock):
            shutil.copy(lock, os.path.join(d, 'Cargo.lock'))
        env = dict(os.environ, CARGO_NET_OFFLINE='true', CARGO_TARGET_DIR=os.path.join(d, 'target'), RUSTFLAGS='-Awarnings')
        r = subprocess.run(['cargo', '+nightly', 'check', '--offline', '--bins', '--keep-going', '--message-format=json', '-q'],
                           cwd=d, env=env, capture_output=True, text=True)
        out = {name: dict(errors=[], messages=[]) for name in programs}
        seen_compile = False
        for line in r.stdout.split('\n'):
            if not line.startswith('{'):
                continue
            try:
                m = json.loads(line)
            except ValueError:
                continue
            if m.get('reason') == 'compiler-artifact' and m.get('target', {}).get('name') == 'jammdb':
                seen_compile = True
            if m.get('reason') != 'compiler-message':
                continue
            tname = m.get('target', {}).get('name')
            msg = m.get('message', {})
            if msg.get('level') != 'error':
                continue
            if tname in out:
                code = (msg.get('code') or {}).get('code')
                if code is None and 'aborting due to' in msg.get('message', ''):
                    continue
                out[tname]['errors'].append(code or 'E????')
                out[tname]['messages'].append(msg.get('message', '')[:200])
            elif tname == 'jammdb':
                raise RuntimeError('jammdb itself does not compile: ' + msg.get('message', ''))
        if not seen_compile and r.returncode != 0 and not any(v['errors'] for v in out.values()):
            raise RuntimeError('witness build failed: ' + r.stderr[-2000:])
        return out
    finally:
        if not keep:
            shutil.rmtree(d, ignore_errors=True)


def load_cases():
    cases = {}
    for f in sorted(os.listdir(CASES)):
        if f.endswith('.rs'):
            meta, src = parse_case(os.path.join(CASES, f))
            cases[f[:-3]] = (meta, src)
    return cases


def evaluate(repo=REPO, extra=None):
    """returns list of dict(name, kind, what, expect, status, detail)"""
    cases = load_cases()
    if extra:
        cases.update(extra)
    programs = {}
    for name, (meta, src) in cases.items():
        if meta.get('kind') == 'fail':
            f, t = variants(src)
            programs[name + '__fail'] = f
            programs[name + '__twin'] = t
        else:
            programs[name + '__pass'] = src
    res = run_corpus(programs, repo)
    rows = []
    for name, (meta, src) in sorted(cases.items()):
        kind = meta.get('kind')
        if kind == 'fail':
            expect = set(x.strip() for x in meta.get('expect', '').split(',') if x.strip())
            fe = res[name + '__fail']['errors']
            te = res[name + '__twin']['errors']
            if te:
                status, detail = 'twin-broken', 'the compiling twin fails: %s %s' % (te, res[name + '__twin']['messages'][:2])
            elif not fe:
                status, detail = 'compiles', 'the witness type-checks: %s is accepted by the compiler' % meta.get('what')
            elif not (set(fe) & expect):
                status, detail = 'wrong-error', 'rejected with %s, expected one of %s: %s' % (sorted(set(fe)), sorted(expect), res[name + '__fail']['messages'][:2])
            else:
                status, detail = 'rejected', 'rejected with %s' % sorted(set(fe))
            rows.append(dict(name=name, kind=kind, what=meta.get('what'), expect=sorted(expect), status=status, detail=detail))
        else:
            pe = res[name + '__pass']['errors']
            status = 'compiles' if not pe else 'broken'
            rows.append(dict(name=name, kind=kind, what=meta.get('what'), expect=[], status=status,
                             detail='compiles' if not pe else 'positive control no longer compiles: %s %s' % (pe, res[name + '__pass']['messages'][:2])))
    return rows
