"""Virtual inlining of crate-local helper functions into a scope function (on the exported MIR).

Rules that reason inside one body (dominance, lock scopes, data dependence) must not depend on whether a maintainer has
extracted part of that body into a helper.  `expand(facts, fn, keep)` returns a synthetic Fn in which every call of a crate-local
function that is NOT in `keep` (role-identified functions, public API, recursive functions) is replaced by a renamed copy of the
callee's non-cleanup blocks: arguments become assignments, `return` becomes a jump to a continuation block that moves the
callee's return slot into the call's destination.  Spans are preserved, so reports still point at the real source lines."""
import copy
from facts import Fn, callee_of


def _remap_place(p, loff):
    q = {'l': p['l'] + loff, 'pr': []}
    for e in p['pr']:
        if e['k'] == 'index':
            e = dict(e)
            e['l'] = e['l'] + loff
        q['pr'].append(e)
    return q


def _remap_operand(o, loff):
    if o['k'] in ('copy', 'move'):
        return {'k': o['k'], 'p': _remap_place(o['p'], loff)}
    return o


def _remap_rvalue(rv, loff):
    r = dict(rv)
    for k in ('op', 'a', 'b'):
        if k in r and isinstance(r[k], dict) and 'k' in r[k] and k != 'op' or (k == 'op' and isinstance(r.get('op'), dict)):
            if isinstance(r[k], dict) and r[k].get('k') in ('copy', 'move', 'const', 'other'):
                r[k] = _remap_operand(r[k], loff)
    if 'p' in r and isinstance(r['p'], dict) and 'l' in r['p']:
        r['p'] = _remap_place(r['p'], loff)
    if 'ops' in r:
        r['ops'] = [_remap_operand(o, loff) for o in r['ops']]
    return r


def _remap_stmt(s, loff):
    t = dict(s)
    if 'p' in t:
        t['p'] = _remap_place(t['p'], loff)
    if 'rv' in t:
        t['rv'] = _remap_rvalue(t['rv'], loff)
    return t


def _remap_term(t, loff, boff, cont):
    k = t['k']
    r = dict(t)
    if k == 'return':
        return {'k': 'goto', 'target': cont, 'span': t['span']}
    if k in ('goto', 'drop', 'assert'):
        r['target'] = t['target'] + boff
    if k == 'drop':
        r['p'] = _remap_place(t['p'], loff)
        r['unwind'] = None
    if k == 'assert':
        r['cond'] = _remap_operand(t['cond'], loff)
        r['unwind'] = None
    if k == 'switch':
        r['discr'] = _remap_operand(t['discr'], loff)
        r['targets'] = [[v, b + boff] for v, b in t['targets']]
        r['otherwise'] = t['otherwise'] + boff
    if k in ('call', 'tailcall'):
        r['func'] = _remap_operand(t['func'], loff)
        r['args'] = [_remap_operand(a, loff) for a in t['args']]
        if k == 'call':
            r['dest'] = _remap_place(t['dest'], loff)
            r['target'] = (t['target'] + boff) if t['target'] is not None else None
            r['unwind'] = None
    return r


CONTINUE_KINDS = ('Ok', 'Some')
BREAK_KINDS = ('Err', 'None')


def _ret_def_kind_stmt(s):
    """kind of a statement that defines the return slot: ('v', variant) / ('c', value) / None (unknown); False when it is no such def"""
    if s['k'] != 'assign' or s['p']['l'] != 0:
        return False
    if s['p']['pr']:
        return None
    if 'ret_kind' in s:
        return s['ret_kind']
    rv = s['rv']
    if rv['k'] == 'agg' and rv.get('ak') == 'adt' and rv.get('variant'):
        return ('v', rv['variant'])
    if rv['k'] == 'use' and rv['op']['k'] == 'const' and rv['op']['c'].get('val') is not None and rv['op']['c'].get('ty') == 'bool':
        return ('c', rv['op']['c']['val'])
    return None


def _ret_defs(g):
    """[(bb, kind)] for every block of g (non-cleanup) that defines the return slot; kind None = unknown"""
    out = []
    ret_ty = g.locals[0]['ty']
    for bi, b in enumerate(g.blocks):
        if b['cleanup']:
            continue
        kinds = []
        for s in b['stmts']:
            k = _ret_def_kind_stmt(s)
            if k is not False:
                kinds.append(k)
        t = b['term']
        if t['k'] == 'call' and t['dest']['l'] == 0:
            k = None
            if not t['dest']['pr']:
                c = callee_of(t)
                if c and c['path'] == 'std::ops::FromResidual::from_residual':
                    if ret_ty.startswith('std::result::Result<'):
                        k = ('v', 'Err')
                    elif ret_ty.startswith('std::option::Option<'):
                        k = ('v', 'None')
            kinds.append(k)
        if kinds:
            out.append((bi, kinds[-1] if len(kinds) == 1 else None))
    return out


def _succs(t):
    k = t['k']
    if k in ('goto', 'drop', 'assert'):
        return [t['target']]
    if k == 'switch':
        return [b for _, b in t['targets']] + [t['otherwise']]
    if k == 'call':
        return [t['target']] if t['target'] is not None else []
    return []


def _retarget(t, m):
    """copy of terminator t with successor block ids mapped through dict m (ids not in m unchanged)"""
    r = dict(t)
    k = t['k']
    if k in ('goto', 'drop', 'assert', 'call'):
        if t.get('target') is not None:
            r['target'] = m.get(t['target'], t['target'])
    if k == 'switch':
        r['targets'] = [[v, m.get(b, b)] for v, b in t['targets']]
        r['otherwise'] = m.get(t['otherwise'], t['otherwise'])
    return r


class _Expander:
    def __init__(self, facts, keep, max_blocks=3000, max_callee=1500):
        self.facts = facts
        self.keep = keep
        self.memo = {}
        self.max_blocks = max_blocks
        self.max_callee = max_callee

    def target_of(self, t):
        c = callee_of(t)
        if not c:
            return None, None
        g = None
        r = c.get('resolved')
        if r and r['local']:
            g = self.facts.by_path.get(r['path'])
        if g is None and c['local']:
            g = self.facts.by_path.get(c['path'])
        return g, c

    def expand(self, fn, stack=()):
        if fn.path in self.memo:
            return self.memo[fn.path]
        stack = stack + (fn,)
        locals_ = [dict(l) for l in fn.locals]
        blocks = [dict(cleanup=b['cleanup'], stmts=list(b['stmts']), term=b['term']) for b in fn.blocks]
        origin = [(fn.path, i) for i in range(len(blocks))]
        inlined = []
        for bi in range(len(fn.blocks)):
            b = blocks[bi]
            t = b['term']
            if b['cleanup'] or t['k'] != 'call' or t['target'] is None:
                continue
            g, c = self.target_of(t)
            if g is None or g in self.keep or g in stack or g.kind == 'Closure' or len(t['args']) != g.argc:
                continue
            gx = self.expand(g, stack)
            if len(gx.blocks) > self.max_callee or len(blocks) + 2 * len(gx.blocks) > self.max_blocks:
                continue
            self._splice(locals_, blocks, origin, bi, t, c, gx)
            inlined.append(g.qual)
            inlined.extend(getattr(gx, 'inlined', []))
        if not inlined:
            self.memo[fn.path] = fn
            return fn
        j = dict(fn.j)
        j['locals'] = locals_
        j['blocks'] = blocks
        x = Fn(j, fn.idx)
        x.qual = fn.qual
        x.owner = getattr(fn, 'owner', None)
        x.inlined = inlined
        x.origin = origin
        x.raw = fn
        self.memo[fn.path] = x
        return x

    def _splice(self, locals_, blocks, origin, bi, t, c, gx):
        loff = len(locals_)
        boff = len(blocks)
        sp = t['span']
        for l in gx.locals:
            locals_.append(dict(l))
        gorigin = getattr(gx, 'origin', None) or [(gx.path, i) for i in range(len(gx.blocks))]
        RET = -1            # placeholder target of `return`, patched below
        for gi, gb in enumerate(gx.blocks):
            if gb['cleanup']:
                blocks.append(dict(cleanup=True, stmts=[], term={'k': 'unreachable', 'span': gb['term']['span']}))
            else:
                blocks.append(dict(cleanup=False, stmts=[_remap_stmt(s, loff) for s in gb['stmts']], term=_remap_term(gb['term'], loff, boff, RET)))
            origin.append(gorigin[gi])
        dest = t['dest']
        host_target = t['target']

        def new_block(stmts, term, org):
            blocks.append(dict(cleanup=False, stmts=stmts, term=term))
            origin.append(org)
            return len(blocks) - 1

        def cont_for(kind):
            """block that moves the callee's return slot into the call's destination and continues in the host; when the kind of the
            returned value is known and the host immediately branches on it, the branch is resolved (jump threading)"""
            mv = {'k': 'assign', 'p': dest, 'rv': {'k': 'use', 'op': {'k': 'move', 'p': {'l': loff, 'pr': []}}}, 'span': sp}
            if kind is not None and not dest['pr']:
                mv['ret_kind'] = kind
            nxt = self._thread(blocks, origin, new_block, dest, host_target, kind) if kind is not None and not dest['pr'] else host_target
            return new_block([mv], {'k': 'goto', 'target': nxt, 'span': sp}, (origin[bi][0], origin[bi][1]))

        generic = None
        # tail duplication: one copy of the path from each kind-known definition of the return slot to `return`
        defs = _ret_defs(gx)
        defblocks = {b for b, k in defs}
        threaded = 0
        budget = 400
        for db, kind in defs:
            if kind is None:
                continue
            # region: blocks reachable from db's successors
            start = [x for x in _succs(gx.blocks[db]['term'])]
            region = []
            seen = set()
            todo = list(start)
            okr = True
            while todo:
                x = todo.pop()
                if x in seen:
                    continue
                if x in defblocks or gx.blocks[x]['cleanup']:
                    okr = False
                    break
                seen.add(x)
                region.append(x)
                todo.extend(_succs(gx.blocks[x]['term']))
            if not okr or len(region) > budget:
                continue
            budget -= len(region)
            ck = cont_for(kind)
            m = {}
            for x in sorted(region):
                m[x + boff] = len(blocks) + len(m)
            for x in sorted(region):
                gb = gx.blocks[x]
                term = _remap_term(gb['term'], loff, boff, ck)
                term = _retarget(term, m)
                new_block([_remap_stmt(s, loff) for s in gb['stmts']], term, gorigin[x])
            # the defining block now continues into the copies
            hb = blocks[db + boff]
            if gx.blocks[db]['term']['k'] == 'return':
                hb['term'] = {'k': 'goto', 'target': ck, 'span': hb['term']['span']}
            else:
                hb['term'] = _retarget(hb['term'], m)
            threaded += 1
        # remaining returns: the generic continuation
        for gi in range(len(gx.blocks)):
            hb = blocks[boff + gi]
            if hb['term']['k'] == 'goto' and hb['term'].get('target') == RET:
                if generic is None:
                    generic = cont_for(None)
                hb['term'] = dict(hb['term'], target=generic)
        # call site: bind arguments, jump to the callee's entry
        b = blocks[bi]
        for i, a in enumerate(t['args']):
            b['stmts'] = b['stmts'] + [{'k': 'assign', 'p': {'l': loff + 1 + i, 'pr': []}, 'rv': {'k': 'use', 'op': a}, 'span': sp}]
        b['term'] = {'k': 'goto', 'target': boff, 'span': sp, 'inlined_call': c['path']}

    def _thread(self, blocks, origin, new_block, dest, t_idx, kind):
        """resolve the host's branch on the value just returned, when the shape is recognised; returns the block to continue in"""
        T = blocks[t_idx]
        dl = dest['l']
        if any(s['k'] == 'assign' and s['p']['l'] == dl for s in T['stmts']):
            return t_idx
        tt = T['term']
        # (A) `?`: Try::branch(move dest) then switch on the discriminant of its result
        if tt['k'] == 'call' and tt['target'] is not None and kind[0] == 'v' and tt['args']:
            c = callee_of(tt)
            a0 = tt['args'][0]
            if c and c['path'] == 'std::ops::Try::branch' and a0['k'] in ('move', 'copy') and a0['p']['l'] == dl and not a0['p']['pr'] and not tt['dest']['pr']:
                S = blocks[tt['target']]
                x = tt['dest']['l']
                st = S['term']
                dloc = None
                for s in S['stmts']:
                    if s['k'] == 'assign' and s['rv']['k'] == 'discr' and s['rv']['p']['l'] == x and not s['rv']['p']['pr'] and not s['p']['pr']:
                        dloc = s['p']['l']
                if dloc is not None and st['k'] == 'switch' and st['discr']['k'] in ('move', 'copy') and st['discr']['p']['l'] == dloc:
                    want = 0 if kind[1] in CONTINUE_KINDS else 1 if kind[1] in BREAK_KINDS else None
                    arm = dict((v, bb) for v, bb in st['targets']).get(want) if want is not None else None
                    if arm is not None:
                        s2 = new_block(list(S['stmts']), {'k': 'goto', 'target': arm, 'span': st.get('span', tt.get('span'))}, origin[tt['target']])
                        t2 = new_block(list(T['stmts']), dict(tt, target=s2), origin[t_idx])
                        return t2
            return t_idx
        # (B) match / if let: switch on the discriminant of dest ; (C) if on a bool
        if tt['k'] == 'switch' and tt['discr']['k'] in ('move', 'copy') and not tt['discr']['p']['pr']:
            dloc = tt['discr']['p']['l']
            tg = dict((v, bb) for v, bb in tt['targets'])
            if kind[0] == 'c' and dloc == dl:
                arm = tg.get(kind[1], tt['otherwise'])
                return new_block(list(T['stmts']), {'k': 'goto', 'target': arm, 'span': tt.get('span')}, origin[t_idx])
            if kind[0] == 'v':
                for s in T['stmts']:
                    if s['k'] == 'assign' and s['p']['l'] == dloc and not s['p']['pr'] and s['rv']['k'] == 'discr' and s['rv']['p']['l'] == dl and not s['rv']['p']['pr']:
                        vi = self._variant_index(s['rv'].get('adt'), kind[1])
                        if vi is None:
                            return t_idx
                        arm = tg.get(vi, tt['otherwise'])
                        return new_block(list(T['stmts']), {'k': 'goto', 'target': arm, 'span': tt.get('span')}, origin[t_idx])
        return t_idx

    def _variant_index(self, adt, variant):
        std = {('std::result::Result', 'Ok'): 0, ('std::result::Result', 'Err'): 1, ('std::option::Option', 'None'): 0, ('std::option::Option', 'Some'): 1}
        if (adt, variant) in std:
            return std[(adt, variant)]
        a = self.facts.adts.get(adt)
        if a:
            for v in a['variants']:
                if v['name'] == variant:
                    return v['vi']
        return None


def expand(facts, fn, keep, **kw):
    """synthetic Fn: `fn` with crate-local helper calls (not in keep) inlined"""
    return _Expander(facts, keep - {fn}).expand(fn)


def normalise(facts, keep):
    """a Facts object for the same crate in which every private helper (a function not in `keep`) is folded into its callers.
    Helpers that are still referenced afterwards (recursion, depth or size limit, used as a function value) survive as functions."""
    from facts import Facts
    expanded = {}
    ex = _Expander(facts, keep)
    for f in facts.fns:
        expanded[f.path] = ex.expand(f)
    # survivors: kept functions and whatever they still reference
    alive = set()
    todo = [f for f in facts.fns if f in keep]
    while todo:
        f = todo.pop()
        if f.path in alive:
            continue
        alive.add(f.path)
        x = expanded[f.path]
        for bb, t, target, c in facts.call_sites(x):
            if target is not None and target.path not in alive:
                todo.append(target)
        for g in facts.fn_refs(x):
            if g.path not in alive:
                todo.append(g)
        # closures defined in an absorbed helper stay attached to it
        if f.kind == 'Closure' and f.closure_of and f.closure_of not in alive:
            pass
    doc = dict(facts.doc)
    fns = []
    absorbed = {}
    for f in facts.fns:
        x = expanded[f.path]
        if f.path in alive:
            j = dict(x.j)
            if getattr(x, 'inlined', None):
                j['inlined'] = sorted(set(x.inlined))
            fns.append(j)
        else:
            absorbed[f.path] = f
    # closures of absorbed helpers: re-home to the (unique) surviving host that constructs them
    doc['fns'] = fns
    nf = Facts(doc, facts.src_hash)
    nf.absorbed = sorted(strip(p) for p in absorbed)
    nf.raw = facts
    for f in nf.fns:
        if f.kind == 'Closure' and f.owner is None and f.closure_of in absorbed:
            hosts = [h for h in nf.fns if f in nf.fn_refs(h)]
            if len(hosts) == 1:
                f.owner = hosts[0]
                import re
                m = re.findall(r'\{closure#\d+\}', f.path)
                f.qual = '%s::%s' % (hosts[0].qual, '::'.join(m))
    return nf


def strip(p):
    from facts import strip_generics
    return strip_generics(p)
