"""Virtual inlining of crate-local helper functions into a scope function (on the exported MIR).

Rules that reason inside one body (dominance, lock scopes, data dependence) must not depend on whether a maintainer has
extracted part of that body into a helper.  `expand(facts, fn, keep)` returns a synthetic Fn in which every call of a crate-local
function that is NOT in `keep` (role-identified functions, public API, recursive functions) is replaced by a renamed copy of the
callee's non-cleanup blocks: arguments become assignments, `return` becomes a jump to a continuation block that moves the
callee's return slot into the call's destination.  Spans are preserved, so reports still point at the real source lines."""
import copy
from facts import Fn, callee_of


def _remap_place(p, loff):
    q = {'l': p['l'] + loff, 'pr': []}
    for e in p['pr']:
        if e['k'] == 'index':
            e = dict(e)
            e['l'] = e['l'] + loff
        q['pr'].append(e)
    return q


def _remap_operand(o, loff):
    if o['k'] in ('copy', 'move'):
        return {'k': o['k'], 'p': _remap_place(o['p'], loff)}
    return o


def _remap_rvalue(rv, loff):
    r = dict(rv)
    for k in ('op', 'a', 'b'):
        if k in r and isinstance(r[k], dict) and 'k' in r[k] and k != 'op' or (k == 'op' and isinstance(r.get('op'), dict)):
            if isinstance(r[k], dict) and r[k].get('k') in ('copy', 'move', 'const', 'other'):
                r[k] = _remap_operand(r[k], loff)
    if 'p' in r and isinstance(r['p'], dict) and 'l' in r['p']:
        r['p'] = _remap_place(r['p'], loff)
    if 'ops' in r:
        r['ops'] = [_remap_operand(o, loff) for o in r['ops']]
    return r


def _remap_stmt(s, loff):
    t = dict(s)
    if 'p' in t:
        t['p'] = _remap_place(t['p'], loff)
    if 'rv' in t:
        t['rv'] = _remap_rvalue(t['rv'], loff)
    return t


def _remap_term(t, loff, boff, cont):
    k = t['k']
    r = dict(t)
    if k == 'return':
        return {'k': 'goto', 'target': cont, 'span': t['span']}
    if k in ('goto', 'drop', 'assert'):
        r['target'] = t['target'] + boff
    if k == 'drop':
        r['p'] = _remap_place(t['p'], loff)
        r['unwind'] = None
    if k == 'assert':
        r['cond'] = _remap_operand(t['cond'], loff)
        r['unwind'] = None
    if k == 'switch':
        r['discr'] = _remap_operand(t['discr'], loff)
        r['targets'] = [[v, b + boff] for v, b in t['targets']]
        r['otherwise'] = t['otherwise'] + boff
    if k in ('call', 'tailcall'):
        r['func'] = _remap_operand(t['func'], loff)
        r['args'] = [_remap_operand(a, loff) for a in t['args']]
        if k == 'call':
            r['dest'] = _remap_place(t['dest'], loff)
            r['target'] = (t['target'] + boff) if t['target'] is not None else None
            r['unwind'] = None
    return r


def expand(facts, fn, keep, max_depth=4, max_blocks=4000):
    """synthetic Fn: `fn` with crate-local helper calls (not in keep) inlined"""
    locals_ = [dict(l) for l in fn.locals]
    blocks = [dict(cleanup=b['cleanup'], stmts=list(b['stmts']), term=b['term']) for b in fn.blocks]
    origin = [(fn, i) for i in range(len(blocks))]
    inlined = []
    work = [(i, (fn,), 0) for i in range(len(blocks)) if not blocks[i]['cleanup']]
    while work:
        bi, stack, depth = work.pop()
        b = blocks[bi]
        t = b['term']
        if t['k'] != 'call' or t['target'] is None:
            continue
        c = callee_of(t)
        if not c:
            continue
        g = None
        r = c.get('resolved')
        if r and r['local']:
            g = facts.by_path.get(r['path'])
        if g is None and c['local']:
            g = facts.by_path.get(c['path'])
        if g is None or g in keep or g in stack or g.kind == 'Closure' or depth >= max_depth:
            continue
        if len(blocks) + len(g.blocks) > max_blocks or len(t['args']) != g.argc:
            continue
        loff = len(locals_)
        boff = len(blocks)
        for l in g.locals:
            locals_.append(dict(l))
        cont = boff + len(g.blocks)
        for gi, gb in enumerate(g.blocks):
            if gb['cleanup']:
                blocks.append(dict(cleanup=True, stmts=[], term={'k': 'unreachable', 'span': gb['term']['span']}))
            else:
                blocks.append(dict(cleanup=False, stmts=[_remap_stmt(s, loff) for s in gb['stmts']], term=_remap_term(gb['term'], loff, boff, cont)))
            origin.append((g, gi))
        # continuation: dest = move ret ; goto original target
        sp = t['span']
        blocks.append(dict(cleanup=False, stmts=[{'k': 'assign', 'p': t['dest'], 'rv': {'k': 'use', 'op': {'k': 'move', 'p': {'l': loff, 'pr': []}}}, 'span': sp}],
                           term={'k': 'goto', 'target': t['target'], 'span': sp}))
        origin.append((fn, bi))
        # call site: bind arguments, jump to the callee's entry
        for i, a in enumerate(t['args']):
            b['stmts'] = b['stmts'] + [{'k': 'assign', 'p': {'l': loff + 1 + i, 'pr': []}, 'rv': {'k': 'use', 'op': a}, 'span': sp}]
        b['term'] = {'k': 'goto', 'target': boff, 'span': sp, 'inlined_call': c['path']}
        inlined.append(g.qual)
        for gi in range(len(g.blocks)):
            if not g.blocks[gi]['cleanup']:
                work.append((boff + gi, stack + (g,), depth + 1))
    if not inlined:
        return fn
    j = dict(fn.j)
    j['locals'] = locals_
    j['blocks'] = blocks
    x = Fn(j, fn.idx)
    x.qual = fn.qual
    x.owner = getattr(fn, 'owner', None)
    x.inlined = inlined
    x.origin = origin
    x.raw = fn
    return x


def normalise(facts, keep):
    """a Facts object for the same crate in which every private helper (a function not in `keep`) is folded into its callers.
    Helpers that are still referenced afterwards (recursion, depth or size limit, used as a function value) survive as functions."""
    from facts import Facts
    expanded = {}
    for f in facts.fns:
        expanded[f.path] = expand(facts, f, keep - {f})
    # survivors: kept functions and whatever they still reference
    alive = set()
    todo = [f for f in facts.fns if f in keep]
    while todo:
        f = todo.pop()
        if f.path in alive:
            continue
        alive.add(f.path)
        x = expanded[f.path]
        for bb, t, target, c in facts.call_sites(x):
            if target is not None and target.path not in alive:
                todo.append(target)
        for g in facts.fn_refs(x):
            if g.path not in alive:
                todo.append(g)
        # closures defined in an absorbed helper stay attached to it
        if f.kind == 'Closure' and f.closure_of and f.closure_of not in alive:
            pass
    doc = dict(facts.doc)
    fns = []
    absorbed = {}
    for f in facts.fns:
        x = expanded[f.path]
        if f.path in alive:
            j = dict(x.j)
            if getattr(x, 'inlined', None):
                j['inlined'] = sorted(set(x.inlined))
            fns.append(j)
        else:
            absorbed[f.path] = f
    # closures of absorbed helpers: re-home to the (unique) surviving host that constructs them
    doc['fns'] = fns
    nf = Facts(doc, facts.src_hash)
    nf.absorbed = sorted(strip(p) for p in absorbed)
    nf.raw = facts
    for f in nf.fns:
        if f.kind == 'Closure' and f.owner is None and f.closure_of in absorbed:
            hosts = [h for h in nf.fns if f in nf.fn_refs(h)]
            if len(hosts) == 1:
                f.owner = hosts[0]
                import re
                m = re.findall(r'\{closure#\d+\}', f.path)
                f.qual = '%s::%s' % (hosts[0].qual, '::'.join(m))
    return nf


def strip(p):
    from facts import strip_generics
    return strip_generics(p)
