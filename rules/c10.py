"""C10 Freed space is reused: file growth is bounded by live data (links of the reuse chain)"""
from core import ok, bad, unresolved, floor
from anchors import AnchorError
from facts import callee_of, op_local, op_place, last_seg, strip_generics
from flow import result_switch
from util import calls_to_fn, calls_named, has_field, has_call, stores_to_field, aggregates_of
import commit, c02, c03, c09


def release_on_begin(ctx, rule='C10.release-on-begin'):
    res = []
    try:
        (rel,) = ctx.need('release-role')
    except AnchorError as e:
        return [unresolved(rule, str(e))]
    bf = c09.begin_fn(ctx)
    wp = c09.writable_param(bf)
    L = c09.locks_of(ctx)
    li = L.info(bf, {wp: True})
    du = ctx.du(bf)
    sites = [(bb, t) for bb, t, helper in c03._release_sites_from_begin(ctx, li, bf, rel)]
    if not sites:
        return [bad(rule, '%s | writer never releases pending pages' % bf.qual,
                    'the writer begin path never calls the release role: pages freed by earlier transactions are never moved to the free set and the file grows with every commit',
                    where='%s:%d' % (bf.file, bf.line))]
    ok_blocks = c03.ok_return_blocks(bf, li.reach)
    avoid = {bb for bb, t in sites}
    seen = set([0]) - avoid
    todo = list(seen)
    while todo:
        b = todo.pop()
        for s in li.succ(b):
            if s not in seen and s not in avoid:
                seen.add(s)
                todo.append(s)
    leak = [b for b in ok_blocks if b in seen]
    if leak:
        res.append(bad(rule, '%s | writer can begin without releasing' % bf.qual, 'a writable transaction can be returned at %s without passing a release call' % bf.loc(leak[0]), where=bf.loc(leak[0])))
    else:
        res.append(ok(rule, 'every successful writer begin passes a release call (%d sites)' % len(sites), sites=len(sites)))
    # released list == the list the transaction will allocate from
    used = set()
    for bb, t, c in calls_named(ctx.facts, bf, 'TxFreelist::new'):
        for a in t['args']:
            l = op_local(a)
            if l is not None and bf.locals[l]['ty'] == 'freelist::Freelist':
                used.add(du.trace_root(l, within=li.reach)[0])
    from util import aggregates_of
    for b2, si, st in aggregates_of(bf, 'TxFreelist'):     # the constructor may have been folded into the begin function
        for o in st['rv']['ops']:
            l = op_local(o)
            if l is not None and bf.locals[l]['ty'] == 'freelist::Freelist':
                used.add(du.trace_root(l, within=li.reach)[0])
    for bb, t in sites:
        recv = set()
        for a in t['args']:
            l = op_local(a)
            if l is not None and ('freelist::Freelist' in bf.locals[l]['ty']):
                pts = du.points[l]
                recv |= {du.trace_root(r, within=li.reach)[0] for (r, p) in pts} or {du.trace_root(l, within=li.reach)[0]}
        if used and recv and (recv & used):
            res.append(ok(rule, 'release at %s acts on the free list handed to the transaction' % bf.loc(bb), sites=1))
        else:
            res.append(bad(rule, '%s | release on a different free list' % bf.qual,
                           'the release at %s does not act on the free list value the transaction allocates from (receiver %s, used %s)' % (bf.loc(bb), recv, used), where=bf.loc(bb)))
    return res


def reuse_before_extend(ctx, rule='C10.reuse-before-extend'):
    res = []
    try:
        txalloc, alloc = ctx.need('tx-alloc-role', 'alloc-role')
    except AnchorError as e:
        return [unresolved(rule, str(e))]
    fn = ctx.A.xf(txalloc)       # module-private helpers folded in
    sites = calls_to_fn(ctx.facts, fn, alloc)
    if not sites:
        return [bad(rule, '%s | free set never consulted' % fn.qual, 'the allocation wrapper never asks the free set for pages', where='%s:%d' % (fn.file, fn.line))]
    adv = [(bb, si, where) for bb, si, where, is_add, helper in c02.advance_sites(ctx, txalloc)]
    f = floor(rule, 'stores advancing the high-water mark', len(adv), 1)
    if f:
        return [f]
    for bb, t, c in sites:
        # Option discriminant: None=0, Some=1
        from flow import _discr_switch
        sw = _discr_switch(fn, t['target'], t['dest']['l']) if t['target'] is not None else None
        if not sw:
            # `alloc(n).unwrap_or_else(|| self.extend(n))`: the combinator runs the closure exactly when the free set returned None, and the advance lives in the closure
            du = ctx.du(fn)
            comb = [b3 for b3, t3, c3 in calls_named(ctx.facts, fn, 'Option::unwrap_or_else', 'Option::or_else', 'Option::map_or_else', 'Option::ok_or_else')
                    if t3['args'] and (du.slice_operand(t3['args'][0])[0] & {t['dest']['l']})]
            bodies = c02.alloc_bodies(ctx, txalloc)
            in_closure = all(any(where == b.loc(bb2, si2) for b in bodies[1:]) for bb2, si2, where in adv)
            adv_in_main = [1 for b2, si2, s2 in stores_to_field(bodies[0], 'Meta', 'num_pages')]
            if comb and in_closure and not adv_in_main:
                res.append(ok(rule, 'the free set\'s answer at %s goes to a combinator whose closure (run only on None) is the only place that advances the high-water mark' % fn.loc(bb), sites=1))
                continue
            res.append(bad(rule, '%s | result of the free-set allocation not tested' % fn.qual, 'the result of %s at %s is not matched on' % (alloc.qual, fn.loc(bb)), where=fn.loc(bb)))
            continue
        sbb, tg, oth = sw
        none_t = tg.get(0)
        if none_t is None:
            none_t = oth
        for b2, si, where in adv:
            edge = (sbb, none_t)
            if b2 not in fn.reach_from([0], avoid_edges={edge}):
                res.append(ok(rule, 'the high-water mark is advanced at %s only when the free set returned None' % where, sites=1))
            else:
                res.append(bad(rule, '%s | file extended although free pages may exist' % fn.qual,
                               'the high-water mark is advanced at %s on a path that has not seen the free set return None: freed space would never be reused' % where, where=where))
    return res


def persist_both(ctx, rule='C10.persist-both'):
    res = []
    T = commit.commit_trace(ctx)
    F = ctx.facts
    fl = F.adt('Freelist')
    if not fl:
        return [unresolved(rule, 'type Freelist')]
    # the list copied into the free-list page: a call to copy_from_slice / extend whose destination derives from Page::freelist_mut
    done = False
    for n in T.nodes:
        if n.virt is not None or n.bb is None:
            continue
        fn = n.fn
        t = fn.term(n.bb)
        c = callee_of(t) if t['k'] == 'call' else None
        if not c or last_seg(strip_generics(c['path'])) not in ('copy_from_slice', 'clone_from_slice', 'write_all'):
            continue
        du = ctx.du(fn)
        _, a0 = du.slice_operand(t['args'][0])
        if not any(a[0] == 'call' and ctx.A.get('freelist-view-mut') is not None and a[2] == ctx.A.get('freelist-view-mut').path for a in a0):
            continue
        done = True
        _, a1 = du.slice_operand(t['args'][1])
        producers = [a for a in a1 if a[0] == 'call' and a[2] in F.by_path and F.by_path[a[2]].self_adt and last_seg(F.by_path[a[2]].self_adt) == 'Freelist']
        okk = False
        for a in producers:
            g = F.by_path[a[2]]
            dg = ctx.du(g)
            _, ra = dg.slice_local(0)
            if has_field(ra, 'Freelist', 'free_pages') and has_field(ra, 'Freelist', 'pending_pages'):
                okk = True
                # ... and from ALL pending entries: the pending map is walked, not looked up by key (the pages other, older transactions released are still
                # pending at this commit and would be forgotten on reopen)
                gx = ctx.A.xf(g)
                dgx = ctx.du(gx)
                whole, keyed = [], []
                for b2 in sorted(gx.reachable_blocks()):
                    t2 = gx.term(b2)
                    c2 = callee_of(t2) if t2['k'] == 'call' else None
                    if not c2 or not t2['args'] or 'BTreeMap' not in strip_generics(c2['path']) and 'HashMap' not in strip_generics(c2['path']):
                        continue
                    _, aa = dgx.slice_operand(t2['args'][0])
                    if not has_field(aa, 'Freelist', 'pending_pages'):
                        continue
                    nm = last_seg(strip_generics(c2['path']))
                    if nm in ('iter', 'values', 'into_iter', 'into_values', 'iter_mut', 'values_mut'):
                        whole.append(gx.loc(b2))
                    elif nm in ('get', 'get_mut', 'range', 'range_mut', 'first_key_value', 'last_key_value', 'get_key_value', 'remove', 'entry', 'pop_first', 'pop_last'):
                        keyed.append((nm, gx.loc(b2)))
                if keyed or not whole:
                    okk = False
                    res.append(bad(rule, '%s | persisted list takes only some pending entries' % g.qual,
                                   '%s, which builds the list written into the free-list page, reads Freelist.pending_pages %s instead of walking the whole map: pages released by other '
                                   'transactions and still pending are forgotten (leaked) when the database is reopened'
                                   % (g.qual, ('by key (%s at %s)' % keyed[0]) if keyed else 'without iterating it'), where=keyed[0][1] if keyed else '%s:%d' % (g.file, g.line)))
                    return res
        if okk:
            res.append(ok(rule, 'the list persisted at %s is built from both free_pages and pending_pages' % fn.loc(n.bb), sites=1))
        else:
            res.append(bad(rule, '%s | persisted list does not cover free and pending pages' % fn.qual,
                           'the page-id list written into the free-list page at %s does not depend on both Freelist.free_pages and Freelist.pending_pages: the missing set is '
                           'forgotten (leaked) when the database is reopened' % fn.loc(n.bb), where=fn.loc(n.bb)))
        break
    if not done:
        res.append(floor(rule, 'copy of the page-id list into the free-list page', 0, 1))
    return res


def deregister(ctx, rule='C10.deregister'):
    res = []
    try:
        (dr,) = ctx.need('<TxInner as Drop>::drop')
    except AnchorError as e:
        return [unresolved(rule, str(e))]
    dr = ctx.x(dr)
    li, hs, toks = c03.registry_holders(ctx, dr)
    calls = c03.registry_calls(ctx, dr, hs) if hs else []
    rem = [(bb, t) for bb, t, n, m in calls if m and n == 'remove']
    if not rem:
        return [bad(rule, '%s | reader never deregisters' % dr.qual, 'dropping a read-only transaction does not remove it from the open-reader registry: its snapshot stays pinned '
                    'and the pages behind it are never reused', where='%s:%d' % (dr.file, dr.line))]
    # the successful-search edge reaches the removal
    from guards import writable_tests
    du = ctx.du(dr)
    tests = writable_tests(ctx.facts, dr, du)
    for bb, t in rem:
        reachable_ro = any(bb in dr.reach_from([ft]) for (tb, tt, ft) in tests)
        if reachable_ro:
            res.append(ok(rule, 'the read-only edge of Drop reaches the registry removal at %s' % dr.loc(bb), sites=1))
        else:
            res.append(bad(rule, '%s | removal not reachable for read-only transactions' % dr.qual, 'the registry removal at %s is not reachable from the read-only edge of the writable test' % dr.loc(bb), where=dr.loc(bb)))
    # ... and nothing but the outcome of the search for its own id lets a read-only transaction leave Drop without removing itself: an early return (`if thread::panicking()
    # { return }`) leaves a phantom oldest reader behind, and no writer ever releases a page again
    rblocks = {bb for bb, t in rem}
    srch = {bb for bb, t, n, m in calls if n in ('binary_search', 'binary_search_by', 'binary_search_by_key', 'position', 'iter', 'contains')}
    for (tb, tt, ft) in tests:
        free = dr.reach_from([ft], avoid=rblocks)
        rets = [b for b in free if dr.term(b)['k'] == 'return']
        if not rets:
            continue
        # a return reached without the removal is fine only behind the search (its id was not found): every path to it passes a registry search
        unsearched = dr.reach_from([ft], avoid=rblocks | srch)
        early = [b for b in rets if b in unsearched]
        if early:
            res.append(bad(rule, '%s | a read-only transaction can be dropped without deregistering' % dr.qual,
                           'from the read-only edge of the writable test, Drop can return (%s) without having looked for, let alone removed, its entry in the reader registry: the '
                           'entry stays, later writers take it for the oldest open reader and release nothing, and the file grows with every commit' % dr.loc(early[0]),
                           where=dr.loc(early[0])))
    return res


def blocking_registry(ctx, rule='C10.deregister'):
    """every acquisition of the reader-registry lock is blocking: a skipped critical section leaves a reader registered (or unregistered) forever"""
    res = []
    F = ctx.facts
    L = c09.locks_of(ctx)
    n = 0
    for fn in F.fns:
        for (bb, name, mode, tok, tr) in L.info(fn).sites:
            if name != c03.REGISTRY_LOCK:
                continue
            n += 1
            if tr:
                res.append(bad(rule, '%s | registry lock taken with try_lock' % fn.qual,
                               '%s takes the open-reader registry lock at %s with a non-blocking try_lock: when the lock is busy the critical section is skipped, so a dropped reader stays '
                               'registered forever (its snapshot\'s pages are never released) or a new reader is never registered' % (fn.qual, fn.loc(bb)), where=fn.loc(bb)))
    f = floor(rule, 'acquisitions of the reader-registry lock', n, 1)
    if f:
        res.append(f)
    if not any(not r.ok for r in res):
        res.append(ok(rule, 'all %d acquisitions of the reader-registry lock are blocking' % n, sites=n))
    return res


def release_per_entry(ctx, rule='C10.release-per-entry'):
    """the release role decides entry by entry: a pending entry is removed only under a comparison of ITS id with the bound"""
    res = []
    try:
        (rel,) = ctx.need('release-role')
    except AnchorError as e:
        return [unresolved(rule, str(e))]
    from effects import fn_effect_sites, REMOVING
    fn = rel
    du = ctx.du(fn)
    sites = [(bb, how) for (bb, adt, field, how) in fn_effect_sites(ctx.facts, fn) if adt and last_seg(adt) == 'Freelist' and field == 'pending_pages' and how in REMOVING]
    f = floor(rule, 'removals from pending_pages in the release role', len(sites), 1)
    if f:
        return [f]
    bound = [i for i in range(2, fn.argc + 1)]
    for bb, how in sorted(set(sites)):
        t = fn.term(bb)
        good = False
        why = ''
        if how in ('first_entry', 'last_entry') and any(h2 in ('remove', 'remove_entry') for (_b2, h2) in sites):
            # taking the entry removes nothing yet: the removal (`entry.remove()`) is judged where it happens
            res.append(ok(rule, 'entry taken at %s; its removal is judged at the `remove`' % fn.loc(bb), sites=1))
            continue
        if how in ('remove', 'remove_entry') and len(t['args']) >= 1:
            # `map.remove(&key)`: the key operand; `entry.remove()`: the entry itself (its key is read through `entry.key()`)
            kop = t['args'][1] if len(t['args']) > 1 else t['args'][0]
            kl = op_local(kop)
            kroot = du.root_of(kl) if kl is not None else None
            klocs, _ = du.slice_operand(kop)
            for (a, sx) in fn.control_deps_transitive(bb):
                at = fn.term(a)
                if at['k'] != 'switch':
                    continue
                dl = op_local(at['discr'])
                ds = du.defs.get(dl, []) if dl is not None else []
                if len(ds) == 1 and ds[0][1] is not None:
                    st = fn.blocks[ds[0][0]]['stmts'][ds[0][1]]
                    if st['rv']['k'] == 'bin' and st['rv']['op'] in ('Lt', 'Le', 'Gt', 'Ge'):
                        la, aa = du.slice_operand(st['rv']['a'])
                        lb, ab = du.slice_operand(st['rv']['b'])
                        for (kside, bside) in (((la, aa), (lb, ab)), ((lb, ab), (la, aa))):
                            if (klocs & kside[0]) and any(x[0] == 'arg' and x[1] in bound for x in bside[1]):
                                good = True
                                why = 'the removed key is compared with the bound'
        elif how in ('split_off', 'retain', 'extract_if', 'range', 'range_mut'):
            _, aa = du.slice_operand(t['args'][1]) if len(t['args']) > 1 else (None, set())
            if any(x[0] == 'arg' and x[1] in bound for x in aa):
                good = True
                why = 'a range operation keyed by the bound'
        if good:
            res.append(ok(rule, 'pending entry removed at %s: %s' % (fn.loc(bb), why), sites=1))
        else:
            res.append(bad(rule, '%s | pending entries removed without comparing each id with the bound (%s)' % (fn.qual, how),
                           'the release role removes pending entries at %s with `%s` that is not controlled by a comparison of the removed entry\'s own transaction id with the bound: entries '
                           'newer than the oldest reader are released with it (pages of a live snapshot get reused), or nothing is released while any newer entry exists (the file grows)'
                           % (fn.loc(bb), how), where=fn.loc(bb)))
    return res


def delete_walk_guard(ctx, rule='C10.delete-walk-guard'):
    """a deleted bucket's committed pages are walked (and freed) exactly when it HAS committed pages: the only admissible
    guard in front of the walk is the test of its root page id"""
    res = []
    try:
        dw, txfree = ctx.need('delete-walk', 'tx-free-role')
    except AnchorError as e:
        return [unresolved(rule, str(e))]
    fn = dw
    du = ctx.du(fn)
    frees = calls_to_fn(ctx.facts, fn, txfree)
    f = floor(rule, 'page frees in the bucket deletion walk', len(frees), 1)
    if f:
        return [f]
    def direct_flag(fn, du, l, depth=0):
        """(adt, field) if bool local l is a (possibly negated) copy of a bool field of a local ADT"""
        while depth < 8:
            depth += 1
            ds = du.defs.get(l, [])
            if len(ds) != 1 or ds[0][1] is None:
                return None
            s2 = fn.blocks[ds[0][0]]['stmts'][ds[0][1]]
            rv = s2['rv']
            o = rv.get('op') if rv['k'] == 'use' else (rv.get('a') if rv['k'] == 'un' and rv['op'] == 'Not' else None)
            if o is None or not isinstance(o, dict):
                return None
            p2 = op_place(o)
            if p2 is None:
                return None
            fs = [e for e in p2['pr'] if e['k'] == 'field']
            if fs:
                return (last_seg(fs[-1]['adt']) if fs[-1].get('adt') else None, fs[-1].get('name'), fs[-1].get('ty'))
            l = p2['l']
        return None
    def conds_of(g, b0):
        out = [(g, g.term(a)) for (a, sx) in g.control_deps_transitive(b0) if g.term(a)['k'] == 'switch']
        return out
    from util import all_call_sites
    for bb, t, c in frees:
        badf = set()
        root_tested = False
        conds = conds_of(fn, bb)

        def tests_root(cs):
            for (g, at) in cs:
                _, atoms = ctx.du(g).slice_operand(at['discr'])
                if any(x[0] == 'field' and x[1] and last_seg(x[1]) == 'BucketMeta' and x[2] == 'root_page' for x in atoms) and any(x[0] == 'bin' and x[1] in ('Ne', 'Eq', 'Gt') for x in atoms):
                    return True
            return False
        if not tests_root(conds):
            # the walk may have been extracted: the guard then sits in front of the call of the walk function
            for (cf, cb, ct) in all_call_sites(ctx.facts, fn):
                conds += conds_of(cf, cb)
        for (g, at) in conds:
            du = ctx.du(g)
            _, atoms = du.slice_operand(at['discr'])
            fields = {(last_seg(x[1]), x[2]) for x in atoms if x[0] == 'field' and x[1]}
            if ('BucketMeta', 'root_page') in fields and any(x[0] == 'bin' and x[1] in ('Ne', 'Eq', 'Gt') for x in atoms):
                root_tested = True
            dl = op_local(at['discr'])
            if dl is not None:
                fl = direct_flag(g, du, dl)
                if fl and fl[0] in ('InnerBucket', 'Node') and fl[2] == 'bool':
                    badf.add((fl[0], fl[1]))
            # any other field of the bucket header in the guard ("it never held anything": next_int == 0) is a proxy that is false for some committed buckets
            for (ad, nm) in fields:
                if ad == 'BucketMeta' and nm != 'root_page':
                    badf.add((ad, nm))
        if badf:
            res.append(bad(rule, '%s | page walk guarded by %s' % (fn.qual, ','.join(sorted('%s.%s' % f2 for f2 in badf))),
                           'in %s the walk that frees a deleted bucket\'s committed pages (%s) is guarded by %s instead of only by "the bucket has a committed root page": a committed bucket for which '
                           'the guard is false is deleted without freeing its pages (they leak permanently, the file grows)' % (fn.qual, fn.loc(bb), sorted('%s.%s' % f2 for f2 in badf)), where=fn.loc(bb)))
        elif not root_tested:
            res.append(bad(rule, '%s | page walk not guarded by the root page test' % fn.qual,
                           'the page walk at %s is not controlled by a test of the deleted bucket\'s root page id: a bucket created in this transaction (root page 0) would make it free page 0' % fn.loc(bb), where=fn.loc(bb)))
        else:
            res.append(ok(rule, 'the deletion walk at %s runs exactly when the deleted bucket has a committed root page' % fn.loc(bb), sites=1))
    return res


def walk_frees_visited(ctx, rule='C10.walk-frees-visited'):
    """the deletion walk frees only the page it is visiting -- the id it took from its worklist (or received as its parameter, if recursive).  A page freed under
    any other name (a child id read out of a branch element, say) is not visited, so what hangs below it -- children of a branch, nested buckets of a leaf --
    is never freed: those pages leak for good."""
    res = []
    try:
        dw, txfree = ctx.need('delete-walk', 'tx-free-role')
    except AnchorError as e:
        return [unresolved(rule, str(e))]
    fn = ctx.A.xf(dw)
    du = ctx.du(fn)
    frees = calls_to_fn(ctx.facts, fn, txfree)
    f = floor(rule, 'page frees in the bucket deletion walk', len(frees), 1)
    if f:
        return [f]
    POPS = ('pop', 'pop_front', 'pop_back', 'pop_first', 'pop_last', 'next')

    def visited(e):
        while e and e[0] == 'field' and all(str(x).isdigit() or x in ('Some',) for x in e[2]):
            e = e[1]
        if not e:
            return False
        if e[0] == 'arg':
            return True
        if e[0] == 'call' and last_seg(strip_generics(e[1])) in POPS:
            # `next` only on a draining iterator over the worklist itself, not over a page's elements
            if last_seg(strip_generics(e[1])) == 'next':
                import c16
                return not c16._tree_has(e, lambda x: x[0] == 'call' and ('page::' in x[1] or 'Page::' in x[1]))
            return True
        if e[0] == 'phi':
            return all(visited(x) for x in e[1:] if isinstance(x, tuple))
        return False
    for bb, t, c in frees:
        # the id is the first argument after the receiver
        e = du.sym(t['args'][1]) if len(t['args']) > 1 else ('?',)
        if visited(e):
            res.append(ok(rule, 'the page freed at %s is the one taken from the walk\'s worklist' % fn.loc(bb), sites=1))
        else:
            import c16
            res.append(bad(rule, '%s | frees a page it does not visit' % dw.qual,
                           'the deletion walk frees `%s` at %s, which is not the id it took from its worklist: that page is never visited, so the pages below it (children of a '
                           'branch, nested buckets of a leaf) are never freed and leak' % (c16._fmt(e)[:160], fn.loc(bb)), where=fn.loc(bb)))
    return res


def scan_whole_free_set(ctx, rule='C10.scan-whole-free-set'):
    """the first-fit search of the allocation role looks at the whole free set: a bounded scan (`take(n)`, `skip`, `step_by`, `nth`, a `range(..)` of the set) cannot see a
    run that lies behind the bound, so multi-page requests extend the file although a fitting run is free"""
    res = []
    F = ctx.facts
    try:
        (alloc,) = ctx.need('alloc-role')
    except AnchorError as e:
        return [unresolved(rule, str(e))]
    fn = ctx.A.xf(alloc)
    du = ctx.du(fn)
    CUT = ('take', 'skip', 'step_by', 'nth', 'take_while', 'skip_while', 'range', 'split_off')
    n = 0
    for bb in sorted(fn.reachable_blocks()):
        t = fn.term(bb)
        c = callee_of(t) if t['k'] == 'call' else None
        if not c or not t['args']:
            continue
        nm = last_seg(strip_generics(c['path']))
        _, atoms = du.slice_operand(t['args'][0])
        if not has_field(atoms, 'Freelist', 'free_pages'):
            continue
        n += 1
        if nm in CUT and c['path'] not in F.by_path:
            res.append(bad(rule, '%s | scan of the free set bounded by %s' % (alloc.qual, nm),
                           'the allocation role narrows its walk over the free set with `%s` at %s: a run of free pages behind that bound is never found, and every request that '
                           'does not fit in front of it extends the file' % (nm, fn.loc(bb)), where=fn.loc(bb)))
    f = floor(rule, 'uses of the free set in the allocation role', n, 2)
    if f:
        res.append(f)
    if not any(not r.ok for r in res):
        res.append(ok(rule, 'the allocation role walks the whole free set (%d uses, none bounded)' % n, sites=n))
    return res


def run(ctx, tier):
    ob = commit.obligations(ctx)
    results = []
    results += release_on_begin(ctx)
    results += reuse_before_extend(ctx)
    results += scan_whole_free_set(ctx)
    results += persist_both(ctx)
    results += c02.reload_rule(ctx, rule='C10.reload')
    results += [r for r in ob['O5']]
    results += c09.writer_reads_after_lock(ctx, rule='C10.writer-snapshot')
    results += deregister(ctx)
    results += blocking_registry(ctx)
    results += release_per_entry(ctx)
    results += delete_walk_guard(ctx)
    results += walk_frees_visited(ctx)
    results += c03.sorted_registry(ctx, rule='C10.sorted-registry')
    results += c03.snapshot_fixed(ctx, rule='C10.snapshot-fixed')
    results += c03.register(ctx, rule='C10.register')
    import c06
    results += c06.shared_freelist(ctx, rule='C10.shared-freelist')
    results += c03.release_sites(ctx, rule='C10.release-site')
    # pages of an older snapshot go to the pending set and nowhere else; the free set grows only by release
    results += c02.cow_free_set(ctx, rule='C10.cow.free-set')
    from core import renamed
    results += renamed(c02.cow_write_set(ctx), 'C02', 'C10')
    import c11, c04
    results += c11.shared_state(ctx, rule='C10.shared-state')
    results += c04.atomic_begin(ctx, rule='C10.atomic-begin')
    import c14
    results += renamed(c14.sig_rule(ctx), 'C14', 'C10')
    import profile
    results += profile.debug_pure(ctx, 'C10.debug-pure')
    return dict(
        results=results, stats=dict(ctx.stats),
        explanation=(
            'Decides the links of the reuse chain, each of which, when cut, makes the file grow without bound for every overwrite workload: (release-on-begin) every successful '
            'writer begin releases pending pages into the free list it will allocate from; (reuse-before-extend) the high-water mark advances only when the free set returned None; '
            '(persist-both) the persisted list covers free and pending pages; (reload) the persisted list is reloaded in full through the chosen header on open; (shared-freelist) the shared free list changes only at the end of a commit and in open, so an abandoned writer cannot lose it; (publish) the commit '
            'publishes its free list on every exit after the header write; (deregister/register) readers deregister on drop under the id they registered; (persist-both, second clause) the persisted list walks the whole pending map; (walk-frees-visited) the deletion walk frees only the page it is visiting; (writer-snapshot) the writer copies the free list after it owns the lock; (debug-pure) bodies of debug assertions change no state. (scan-whole-free-set) the first-fit walk over the free set is unbounded. (deregister, second clause) a read-only Drop cannot return without searching the registry. NOT decided: the plateau '
            'itself (first-fit arithmetic, fragmentation).'),
        assumptions=['bounded live data', 'readers are eventually dropped'])
