"""Facts loader: wraps the JSON exported by jammlint and offers indexes, short names,
CFG utilities (dominators, post-dominators, control dependence) and a crate-local call graph.

Nothing in here (or in any rule) runs jammdb: everything is computed from the exported,
type-checked program."""
import json, re, os, hashlib, subprocess, sys, time
from collections import defaultdict, deque

HERE = os.path.dirname(os.path.abspath(__file__))
VERIF = os.path.dirname(HERE)
WORK = os.path.join(VERIF, '.work')
REPO = os.environ.get('JAMMVERIF_REPO', '/repo')

_GEN = re.compile(r'::<[^<>]*(?:<[^<>]*(?:<[^<>]*>[^<>]*)*>[^<>]*)*>')


def strip_generics(s):
    """`tx::TxInner::<'tx>::write_data` -> `tx::TxInner::write_data`; also type args `Foo<'a, T>` -> `Foo`"""
    prev = None
    while prev != s:
        prev = s
        s = _GEN.sub('', s)
    # remaining `<...>` directly after an identifier (type position)
    out = []
    depth = 0
    i = 0
    while i < len(s):
        c = s[i]
        if c == '<' and i > 0 and (s[i - 1].isalnum() or s[i - 1] == '_'):
            depth += 1
        elif c == '>' and depth > 0:
            depth -= 1
        elif depth == 0:
            out.append(c)
        i += 1
    return ''.join(out)


def last_seg(path):
    return path.split('::')[-1]


def short_ty(t):
    """shorten a fully qualified type string for display / matching: drop module paths"""
    return re.sub(r'(?:[A-Za-z_][A-Za-z0-9_]*::)+', '', t)


class Fn:
    def __init__(self, j, idx):
        self.j = j
        self.idx = idx
        self.path = j['path']
        self.kind = j['kind']
        self.blocks = j['blocks']
        self.locals = j['locals']
        self.argc = j['argc']
        self.span = j['span']
        self.file = j['span']['file']
        self.line = j['span']['line']
        self.eff_pub = j.get('eff_pub', False)
        self.vis = j.get('vis')
        self.name = j.get('name') or last_seg(strip_generics(self.path))
        self.self_adt = j.get('self_adt')
        self.self_ty = j.get('self_ty')
        self.trait = j.get('trait')
        self.closure_of = j.get('closure_of')
        self.qual = self._qual()
        self._succ = None
        self._pred = None
        self._dom = None
        self._pdom = None
        self._cd = None

    def _qual(self):
        if self.kind == 'Closure':
            p = strip_generics(self.path)
            m = re.search(r'\{closure#(\d+)\}(?:::\{closure#(\d+)\})*$', p)
            return p  # replaced by Facts once owners are known
        if self.kind == 'AssocFn':
            if self.trait:
                return '<%s as %s>::%s' % (short_ty(self.self_ty or '?'), last_seg(self.trait), self.name)
            if self.self_adt:
                return '%s::%s' % (last_seg(self.self_adt), self.name)
            if self.self_ty:
                return '%s::%s' % (short_ty(self.self_ty), self.name)
            return self.name
        return self.name

    # ----- CFG over non-cleanup blocks
    def term(self, bb):
        return self.blocks[bb]['term']

    def is_cleanup(self, bb):
        return self.blocks[bb]['cleanup']

    def succ(self, bb):
        if self._succ is None:
            self._build_cfg()
        return self._succ[bb]

    def pred(self, bb):
        if self._pred is None:
            self._build_cfg()
        return self._pred[bb]

    def _build_cfg(self):
        n = len(self.blocks)
        succ = [[] for _ in range(n)]
        for i, b in enumerate(self.blocks):
            if b['cleanup']:
                continue
            t = b['term']
            k = t['k']
            out = []
            if k in ('goto', 'drop', 'assert'):
                out.append(t['target'])
            elif k == 'call':
                if t['target'] is not None:
                    out.append(t['target'])
            elif k == 'switch':
                for _, tb in t['targets']:
                    out.append(tb)
                out.append(t['otherwise'])
            # return / unreachable / resume / tailcall: no successors
            seen = []
            for o in out:
                if o not in seen and not self.blocks[o]['cleanup']:
                    seen.append(o)
            succ[i] = seen
        pred = [[] for _ in range(n)]
        for i, ss in enumerate(succ):
            for s in ss:
                pred[s].append(i)
        self._succ, self._pred = succ, pred

    def reachable_blocks(self):
        seen = {0}
        dq = deque([0])
        while dq:
            b = dq.popleft()
            for s in self.succ(b):
                if s not in seen:
                    seen.add(s)
                    dq.append(s)
        return seen

    def exits(self):
        """blocks that end the function normally (return) or abnormally (no successors)"""
        r = self.reachable_blocks()
        return [b for b in r if not self.succ(b)]

    def return_blocks(self):
        return [b for b in self.reachable_blocks() if self.term(b)['k'] in ('return', 'tailcall')]

    def dominators(self):
        """dom[b] = set of blocks dominating b (including b), over blocks reachable from entry"""
        if self._dom is None:
            self._dom = _dominators(sorted(self.reachable_blocks()), 0, self.succ, self.pred)
        return self._dom

    def postdominators(self):
        """pdom[b] = set of blocks post-dominating b (incl. b) w.r.t. a virtual exit joined to all exit blocks.
        Blocks from which no exit is reachable (infinite loops) post-dominate nothing but themselves."""
        if self._pdom is None:
            r = sorted(self.reachable_blocks())
            EXIT = -1
            exits = set(self.exits())

            def rsucc(b):
                if b == EXIT:
                    return list(exits)
                return self.pred(b)

            def rpred(b):
                if b == EXIT:
                    return []
                s = list(self.succ(b))
                if b in exits:
                    s.append(EXIT)
                return s
            self._pdom = _dominators(r + [EXIT], EXIT, rsucc, rpred)
        return self._pdom

    def dominates(self, a, b):
        return a in self.dominators().get(b, ())

    def postdominates(self, a, b):
        return a in self.postdominators().get(b, ())

    def control_deps(self):
        """cd[b] = set of (branch_block, successor) edges b is directly control dependent on
        (Ferrante et al.: b post-dominates the successor but not strictly the branch block)."""
        if self._cd is None:
            pdom = self.postdominators()
            cd = defaultdict(set)
            for a in self.reachable_blocks():
                ss = self.succ(a)
                if len(ss) < 2:
                    continue
                for s in ss:
                    # all nodes that post-dominate s but do not strictly post-dominate a
                    for b in pdom.get(s, ()):
                        if b == -1:
                            continue
                        if b == a or b not in pdom.get(a, ()):
                            cd[b].add((a, s))
            self._cd = cd
        return self._cd

    def control_deps_transitive(self, bb):
        """all (branch_block, successor) edges bb is transitively control dependent on"""
        cd = self.control_deps()
        seen = set()
        todo = [bb]
        seenb = {bb}
        while todo:
            b = todo.pop()
            for e in cd.get(b, ()):
                if e not in seen:
                    seen.add(e)
                    if e[0] not in seenb:
                        seenb.add(e[0])
                        todo.append(e[0])
        return seen

    def reach_from(self, start, avoid=frozenset(), avoid_edges=frozenset()):
        """blocks reachable from the blocks in `start` (inclusive) without entering blocks in `avoid`
        and without following edges in `avoid_edges`"""
        seen = set()
        dq = deque(b for b in start if b not in avoid)
        seen.update(dq)
        while dq:
            b = dq.popleft()
            for s in self.succ(b):
                if s in seen or s in avoid or (b, s) in avoid_edges:
                    continue
                seen.add(s)
                dq.append(s)
        return seen

    def loc(self, bb, stmt=None):
        b = self.blocks[bb]
        sp = b['term']['span'] if stmt is None else b['stmts'][stmt]['span']
        return '%s:%d' % (sp['file'], sp['line'])

    def local_name(self, l):
        n = self.locals[l].get('name')
        return n if n else '_%d' % l

    def __repr__(self):
        return 'Fn(%s)' % self.qual


def _dominators(nodes, entry, succ, pred):
    nodes = list(nodes)
    full = set(nodes)
    dom = {n: set(full) for n in nodes}
    dom[entry] = {entry}
    # reverse post order
    order = []
    seen = set()

    def dfs(s):
        stack = [(s, iter(succ(s)))]
        seen.add(s)
        while stack:
            n, it = stack[-1]
            adv = False
            for m in it:
                if m in full and m not in seen:
                    seen.add(m)
                    stack.append((m, iter(succ(m))))
                    adv = True
                    break
            if not adv:
                order.append(n)
                stack.pop()
    dfs(entry)
    order.reverse()
    reach = set(order)
    changed = True
    while changed:
        changed = False
        for n in order:
            if n == entry:
                continue
            ps = [p for p in pred(n) if p in reach]
            if not ps:
                continue
            new = set.intersection(*(dom[p] for p in ps)) | {n}
            if new != dom[n]:
                dom[n] = new
                changed = True
    for n in nodes:
        if n not in reach:
            dom[n] = {n}
    return dom


# ------------------------------------------------------------------ operand / place helpers

def place_str(fn, p):
    s = fn.local_name(p['l']) if fn else '_%d' % p['l']
    for e in p['pr']:
        k = e['k']
        if k == 'deref':
            s = '(*%s)' % s
        elif k == 'field':
            s = '%s.%s' % (s, e['name'])
        elif k == 'downcast':
            s = '(%s as %s)' % (s, e['variant'])
        elif k == 'index':
            s = '%s[_%d]' % (s, e['l'])
        else:
            s = '%s.<%s>' % (s, k)
    return s


def op_place(o):
    return o['p'] if o['k'] in ('copy', 'move') else None


def op_local(o):
    p = op_place(o)
    return p['l'] if p is not None else None


def op_const(o):
    return o['c'] if o['k'] == 'const' else None


def op_const_val(o):
    c = op_const(o)
    return c.get('val') if c else None


def callee_of(term):
    """the callee record of a call terminator with a constant function operand, else None"""
    if term['k'] not in ('call', 'tailcall'):
        return None
    f = term['func']
    if f['k'] != 'const':
        return None
    return f['c'].get('fn')


def callee_path(term):
    c = callee_of(term)
    return c['path'] if c else None


def callee_resolved_path(term):
    c = callee_of(term)
    if not c:
        return None
    r = c.get('resolved')
    return r['path'] if r else c['path']


def place_fields(p):
    """list of (adt, field name) along a place's projections"""
    return [(e.get('adt'), e.get('name')) for e in p['pr'] if e['k'] == 'field']


def rvalue_operands(rv):
    k = rv['k']
    if k in ('use', 'cast', 'repeat'):
        return [rv['op']]
    if k == 'bin':
        return [rv['a'], rv['b']]
    if k == 'un':
        return [rv['a']]
    if k == 'agg':
        return list(rv['ops'])
    return []


def rvalue_places(rv):
    """places read by an rvalue (operands, borrowed/discriminant places)"""
    out = [op_place(o) for o in rvalue_operands(rv)]
    if rv['k'] in ('ref', 'rawptr', 'discr'):
        out.append(rv['p'])
    return [p for p in out if p is not None]


class Facts:
    def __init__(self, doc, src_hash=None):
        self.doc = doc
        self.src_hash = src_hash
        self.crate = doc['crate']
        self.fns = [Fn(j, i) for i, j in enumerate(doc['fns'])]
        self.by_path = {f.path: f for f in self.fns}
        # closures: qualify with their owner
        for f in self.fns:
            if f.kind == 'Closure':
                owner = self.by_path.get(f.closure_of)
                tail = strip_generics(f.path)
                m = re.findall(r'\{closure#\d+\}', tail)
                f.owner = owner
                f.qual = '%s::%s' % (owner.qual if owner else strip_generics(f.closure_of or '?'), '::'.join(m))
            else:
                f.owner = None
        self.by_qual = defaultdict(list)
        for f in self.fns:
            self.by_qual[f.qual].append(f)
        self.adts = {a['path']: a for a in doc['adts']}
        self.adt_by_name = defaultdict(list)
        for a in doc['adts']:
            self.adt_by_name[a['name']].append(a)
        self.consts = {c['path']: c for c in doc['consts']}
        self.impls = doc['impls']
        self._cg = None
        self._rcg = None

    # ----- lookup
    def fn(self, qual):
        """unique function by qualified short name (e.g. 'Tx::commit'); None when absent or ambiguous"""
        l = self.by_qual.get(qual, [])
        return l[0] if len(l) == 1 else None

    def adt(self, name):
        l = self.adt_by_name.get(name, [])
        return l[0] if len(l) == 1 else None

    def adt_fields(self, name):
        a = self.adt(name)
        if not a:
            return None
        return a['variants'][0]['fields']

    def const_val(self, suffix):
        """value of the constant whose generic-stripped path ends with `suffix` (e.g. 'Page::TYPE_META')"""
        hits = [c for p, c in self.consts.items() if strip_generics(p).endswith(suffix) and
                (strip_generics(p) == suffix or strip_generics(p).endswith('::' + suffix))]
        if len(hits) == 1:
            return hits[0].get('val')
        return None

    # ----- call graph (crate local)
    def call_sites(self, fn):
        """yield (bb, term, callee Fn or None, callee record) for every non-cleanup call terminator"""
        for bb in sorted(fn.reachable_blocks()):
            t = fn.term(bb)
            if t['k'] in ('call', 'tailcall'):
                c = callee_of(t)
                target = None
                if c:
                    r = c.get('resolved')
                    if r and r['local']:
                        target = self.by_path.get(r['path'])
                    if target is None and c['local']:
                        target = self.by_path.get(c['path'])
                yield bb, t, target, c

    def fn_refs(self, fn):
        """local functions referenced as values (closures constructed, fn items passed as arguments)"""
        out = set()
        for bb in fn.reachable_blocks():
            b = fn.blocks[bb]
            ops = []
            for s in b['stmts']:
                if s['k'] == 'assign':
                    rv = s['rv']
                    if rv['k'] == 'agg' and rv.get('ak') == 'closure':
                        g = self.by_path.get(rv['closure'])
                        if g:
                            out.add(g)
                    ops.extend(rvalue_operands(rv))
            t = b['term']
            if t['k'] in ('call', 'tailcall'):
                ops.extend(t['args'])
            for o in ops:
                c = op_const(o)
                if c and 'fn' in c:
                    rec = c['fn']
                    r = rec.get('resolved')
                    g = None
                    if r and r['local']:
                        g = self.by_path.get(r['path'])
                    if g is None and rec['local']:
                        g = self.by_path.get(rec['path'])
                    if g:
                        out.add(g)
        return out

    def callgraph(self):
        if self._cg is None:
            cg = {}
            for f in self.fns:
                s = set()
                for bb, t, target, c in self.call_sites(f):
                    if target:
                        s.add(target)
                s |= self.fn_refs(f)
                cg[f] = s
            self._cg = cg
            r = defaultdict(set)
            for f, s in cg.items():
                for g in s:
                    r[g].add(f)
            self._rcg = r
        return self._cg

    def callers(self, fn):
        self.callgraph()
        return self._rcg.get(fn, set())

    def reachable_fns(self, roots, stop=()):
        cg = self.callgraph()
        seen = set()
        todo = [r for r in roots if r is not None]
        while todo:
            f = todo.pop()
            if f in seen or f in stop:
                continue
            seen.add(f)
            if f in cg:
                todo.extend(cg[f])
            else:
                # an expanded view (rules/inline.py) is not part of the crate's function list
                todo.extend({t for _, _, t, _ in self.call_sites(f) if t is not None} | self.fn_refs(f))
        return seen

    def public_fns(self):
        return [f for f in self.fns if f.eff_pub and f.kind != 'Closure']


# ------------------------------------------------------------------ building / caching

def tree_hash(repo=REPO):
    h = hashlib.sha256()
    files = []
    for root, dirs, fs in os.walk(os.path.join(repo, 'src')):
        dirs.sort()
        for f in sorted(fs):
            files.append(os.path.join(root, f))
    for extra in ('Cargo.toml', 'Cargo.lock', 'build.rs'):
        p = os.path.join(repo, extra)
        if os.path.exists(p):
            files.append(p)
    # the driver itself is part of the key: a rebuilt exporter must re-export
    drv = os.path.join(VERIF, 'jammlint', 'target', 'release', 'jammlint')
    if os.path.exists(drv):
        files.append(drv)
    for p in files:
        h.update(p.encode())
        with open(p, 'rb') as fh:
            h.update(fh.read())
    return h.hexdigest()[:24]


def build_facts(repo=REPO, force=False, quiet=True):
    """export facts for the current working tree of `repo` (cached by content hash of the tree)"""
    os.makedirs(os.path.join(WORK, 'facts'), exist_ok=True)
    drv = os.path.join(VERIF, 'jammlint', 'target', 'release', 'jammlint')
    if not os.path.exists(drv):
        r = subprocess.run(['sh', os.path.join(VERIF, 'setup.sh')], cwd=VERIF, capture_output=True, text=True)
        if r.returncode != 0 or not os.path.exists(drv):
            raise RuntimeError('cannot build jammlint driver:\n' + r.stdout + r.stderr)
    h = tree_hash(repo)
    out = os.path.join(WORK, 'facts', h + '.json')
    if force or not os.path.exists(out):
        tmp = out + '.tmp.%d' % os.getpid()
        r = subprocess.run(['sh', os.path.join(VERIF, 'jammlint', 'run.sh'), repo, tmp], capture_output=True, text=True)
        if r.returncode != 0 or not os.path.exists(tmp):
            raise RuntimeError('facts export failed (does the tree compile?)\n' + r.stdout[-4000:] + r.stderr[-4000:])
        os.replace(tmp, out)
        # keep the cache small
        fs = sorted((os.path.getmtime(os.path.join(WORK, 'facts', f)), f) for f in os.listdir(os.path.join(WORK, 'facts')) if f.endswith('.json'))
        for _, f in fs[:-12]:
            try:
                os.remove(os.path.join(WORK, 'facts', f))
            except OSError:
                pass
    with open(out) as fh:
        doc = json.load(fh)
    if doc.get('crate') != 'jammdb':
        raise RuntimeError('facts file does not describe crate jammdb')
    return Facts(doc, h)


def load_facts(path):
    with open(path) as fh:
        return Facts(json.load(fh))
