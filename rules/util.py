"""small query helpers shared by the rule modules"""
from facts import callee_of, strip_generics, last_seg, op_local, op_place


def calls(facts, fn, pred):
    """[(bb, term, callee record)] for the call sites of fn whose callee record satisfies pred"""
    out = []
    for bb in sorted(fn.reachable_blocks()):
        t = fn.term(bb)
        if t['k'] in ('call', 'tailcall'):
            c = callee_of(t)
            if c and pred(c):
                out.append((bb, t, c))
    return out


def calls_to_fn(facts, fn, target):
    """call sites in fn that resolve to the local function `target`"""
    def pred(c):
        r = c.get('resolved')
        return c['path'] == target.path or (r and r['path'] == target.path)
    return calls(facts, fn, pred)


def calls_named(facts, fn, *suffixes):
    def pred(c):
        sp = strip_generics(c['path'])
        return any(sp == s or sp.endswith('::' + s) for s in suffixes)
    return calls(facts, fn, pred)


def all_call_sites(facts, target):
    """[(fn, bb, term)] over the whole crate for calls resolving to `target`"""
    out = []
    for f in facts.fns:
        for bb, t, c in calls_to_fn(facts, f, target):
            out.append((f, bb, t))
    return out


def has_field(atoms, adt_suffix, name):
    return any(a[0] == 'field' and a[2] == name and a[1] and (a[1] == adt_suffix or a[1].endswith('::' + adt_suffix) or last_seg(a[1]) == adt_suffix) for a in atoms)


def has_call(atoms, path):
    return any(a[0] == 'call' and a[2] == path for a in atoms)


def has_call_suffix(atoms, suffix):
    return any(a[0] == 'call' and (strip_generics(a[2]) == suffix or strip_generics(a[2]).endswith('::' + suffix)) for a in atoms)


def stores_to_field(fn, adt_suffix, name):
    """[(bb, stmt index, stmt)] assignments whose destination's last projection is adt.name"""
    out = []
    for bb in sorted(fn.reachable_blocks()):
        for si, s in enumerate(fn.blocks[bb]['stmts']):
            if s['k'] != 'assign':
                continue
            fs = [e for e in s['p']['pr'] if e['k'] == 'field']
            if fs and fs[-1].get('name') == name and fs[-1].get('adt') and last_seg(fs[-1]['adt']) == adt_suffix:
                out.append((bb, si, s))
    return out


def aggregates_of(fn, adt_suffix):
    out = []
    for bb in sorted(fn.reachable_blocks()):
        for si, s in enumerate(fn.blocks[bb]['stmts']):
            if s['k'] == 'assign' and s['rv']['k'] == 'agg' and s['rv'].get('ak') == 'adt' and last_seg(s['rv']['adt']) == adt_suffix:
                out.append((bb, si, s))
    return out


def macro_of(span):
    """names of user-visible macros a span comes from"""
    return [e.split(':', 1)[1] for e in span.get('exp', []) if e.startswith('macro:')]


def in_debug_assert(span):
    return any(m in ('debug_assert', 'debug_assert_eq', 'debug_assert_ne') for m in macro_of(span))


def search_flag_locals(fn, call_term):
    """locals that hold the exact-match flag of a call of the tree search: the `.0` of a `(bool, stack)` result, or the `bool` result itself"""
    d = call_term['dest']['l']
    if fn.locals[d]['ty'] == 'bool':
        return {d}
    out = set()
    for b3 in fn.reachable_blocks():
        for s3 in fn.blocks[b3]['stmts']:
            if s3['k'] == 'assign' and s3['rv']['k'] in ('use', 'un'):
                o = s3['rv'].get('op') if s3['rv']['k'] == 'use' else s3['rv'].get('a')
                pl = op_place(o) if isinstance(o, dict) else None
                if pl is not None and pl['l'] == d and pl['pr'] and pl['pr'][0]['k'] == 'field' and str(pl['pr'][0].get('name', pl['pr'][0].get('i'))) == '0':
                    out.add(s3['p']['l'])
    return out
