"""small query helpers shared by the rule modules"""
from facts import callee_of, strip_generics, last_seg, op_local, op_place


def calls(facts, fn, pred):
    """[(bb, term, callee record)] for the call sites of fn whose callee record satisfies pred"""
    out = []
    for bb in sorted(fn.reachable_blocks()):
        t = fn.term(bb)
        if t['k'] in ('call', 'tailcall'):
            c = callee_of(t)
            if c and pred(c):
                out.append((bb, t, c))
    return out


def calls_to_fn(facts, fn, target):
    """call sites in fn that resolve to the local function `target`"""
    def pred(c):
        r = c.get('resolved')
        return c['path'] == target.path or (r and r['path'] == target.path)
    return calls(facts, fn, pred)


def calls_named(facts, fn, *suffixes):
    def pred(c):
        sp = strip_generics(c['path'])
        return any(sp == s or sp.endswith('::' + s) for s in suffixes)
    return calls(facts, fn, pred)


def all_call_sites(facts, target):
    """[(fn, bb, term)] over the whole crate for calls resolving to `target`"""
    out = []
    for f in facts.fns:
        for bb, t, c in calls_to_fn(facts, f, target):
            out.append((f, bb, t))
    return out


def has_field(atoms, adt_suffix, name):
    return any(a[0] == 'field' and a[2] == name and a[1] and (a[1] == adt_suffix or a[1].endswith('::' + adt_suffix) or last_seg(a[1]) == adt_suffix) for a in atoms)


def has_call(atoms, path):
    return any(a[0] == 'call' and a[2] == path for a in atoms)


def has_call_suffix(atoms, suffix):
    return any(a[0] == 'call' and (strip_generics(a[2]) == suffix or strip_generics(a[2]).endswith('::' + suffix)) for a in atoms)


def stores_to_field(fn, adt_suffix, name):
    """[(bb, stmt index, stmt)] assignments whose destination's last projection is adt.name"""
    out = []
    for bb in sorted(fn.reachable_blocks()):
        for si, s in enumerate(fn.blocks[bb]['stmts']):
            if s['k'] != 'assign':
                continue
            fs = [e for e in s['p']['pr'] if e['k'] == 'field']
            if fs and fs[-1].get('name') == name and fs[-1].get('adt') and last_seg(fs[-1]['adt']) == adt_suffix:
                out.append((bb, si, s))
    return out


def aggregates_of(fn, adt_suffix):
    out = []
    for bb in sorted(fn.reachable_blocks()):
        for si, s in enumerate(fn.blocks[bb]['stmts']):
            if s['k'] == 'assign' and s['rv']['k'] == 'agg' and s['rv'].get('ak') == 'adt' and last_seg(s['rv']['adt']) == adt_suffix:
                out.append((bb, si, s))
    return out


def macro_of(span):
    """names of user-visible macros a span comes from"""
    return [e.split(':', 1)[1] for e in span.get('exp', []) if e.startswith('macro:')]


def in_debug_assert(span):
    return any(m in ('debug_assert', 'debug_assert_eq', 'debug_assert_ne') for m in macro_of(span))


def search_flag_locals(fn, call_term):
    """locals that hold the exact-match flag of a call of the tree search: the `.0` of a `(bool, stack)` result, or the `bool` result itself"""
    d = call_term['dest']['l']
    if fn.locals[d]['ty'] == 'bool':
        return {d}
    out = set()
    for b3 in fn.reachable_blocks():
        for s3 in fn.blocks[b3]['stmts']:
            if s3['k'] == 'assign' and s3['rv']['k'] in ('use', 'un'):
                o = s3['rv'].get('op') if s3['rv']['k'] == 'use' else s3['rv'].get('a')
                pl = op_place(o) if isinstance(o, dict) else None
                if pl is not None and pl['l'] == d and pl['pr'] and pl['pr'][0]['k'] == 'field' and str(pl['pr'][0].get('name', pl['pr'][0].get('i'))) == '0':
                    out.add(s3['p']['l'])
    return out


def derived_flag_switches(fn, du, flag_locals):
    """switches that test the search's exact-match flag INDIRECTLY: on the variant of a local that was built as `Some(..)` under the flag and `None` otherwise
    (`let found = if exists { Some(entry) } else { None }; match (mode, found) { .. }`).  Returns {switch block: {target block: flag value (bool)}}."""
    cd = fn.control_deps()
    # 1. locals whose every definition is an aggregate of an enum variant (or a bool constant), each placed under a known edge of a flag switch
    carrier = {}
    for l, ds in du.defs.items():
        if len(ds) < 2 or any(si is None for _, si in ds):
            continue
        vals = {}
        okk = True
        for (bb, si) in ds:
            st = fn.blocks[bb]['stmts'][si]
            if st['p']['pr']:
                okk = False
                break
            rv = st['rv']
            if rv['k'] == 'agg' and rv.get('ak') == 'adt' and rv.get('vi') is not None:
                v = rv['vi']
            else:
                okk = False
                break
            flagv = None
            for (a, sx) in fn.control_deps_transitive(bb):
                at = fn.term(a)
                if at['k'] != 'switch':
                    continue
                locs, _ = du.slice_operand(at['discr'])
                if not (locs & flag_locals):
                    continue
                tg = dict((vv, x) for vv, x in at['targets'])
                if 0 not in tg:
                    continue
                e = du.sym(at['discr'])
                inv = e[0] == 'un' and e[1] == 'Not'
                on_false = (sx == tg[0])
                flagv = (not on_false) != inv
            if flagv is None or (v in vals and vals[v] != flagv):
                okk = False
                break
            vals[v] = flagv
        if okk and len(set(vals.values())) == 2:
            carrier[l] = vals
    if not carrier:
        return {}
    out = {}

    def root_local(pl, depth=0):
        """local behind a place: itself, or the operand of a single-definition tuple / struct aggregate for `t.N`"""
        if depth > 4:
            return None
        pr = [e for e in pl['pr'] if e['k'] != 'deref']
        if not pr:
            ds = du.defs.get(pl['l'], [])
            if pl['l'] in carrier:
                return pl['l']
            if len(ds) == 1 and ds[0][1] is not None:
                rv = fn.blocks[ds[0][0]]['stmts'][ds[0][1]]['rv']
                if rv['k'] == 'use' and op_place(rv['op']) is not None:
                    return root_local(op_place(rv['op']), depth + 1)
            return pl['l']
        if pr[0]['k'] == 'field':
            ds = du.defs.get(pl['l'], [])
            if len(ds) == 1 and ds[0][1] is not None:
                rv = fn.blocks[ds[0][0]]['stmts'][ds[0][1]]['rv']
                idx = pr[0].get('i')
                if rv['k'] == 'agg' and rv.get('ops') is not None and idx is not None and idx < len(rv['ops']):
                    q = op_place(rv['ops'][idx])
                    if q is not None:
                        return root_local({'l': q['l'], 'pr': list(q['pr']) + pr[1:]}, depth + 1)
        return None
    for a in fn.reachable_blocks():
        at = fn.term(a)
        if at['k'] != 'switch':
            continue
        dl = op_local(at['discr'])
        for st in fn.blocks[a]['stmts']:
            if st['k'] == 'assign' and st['p']['l'] == dl and st['rv']['k'] == 'discr':
                r = root_local(st['rv']['p'])
                if r in carrier:
                    m = {}
                    for vv, x in at['targets']:
                        if vv in carrier[r]:
                            m[x] = carrier[r][vv]
                    rest = [fv for vi, fv in carrier[r].items() if vi not in dict(at['targets'])]
                    if len(set(rest)) == 1:
                        m[at['otherwise']] = rest[0]
                    out[a] = m
    return out
