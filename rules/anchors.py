"""Anchors and roles: resolves the named API entry points, types, fields and the role-identified internal
functions the rules refer to.  Everything unresolved is recorded; a rule that needs a missing anchor fails
closed ("anchor unresolved")."""
from facts import strip_generics, last_seg, short_ty
from effects import fn_effects, effects_on, INSERTING, REMOVING


class AnchorError(Exception):
    pass


class Anchors:
    def __init__(self, facts):
        self.facts = facts
        self.missing = []
        self.roles = {}
        self.notes = {}
        self._resolve()

    # ------------------------------------------------------------------
    def fn(self, qual, required=True):
        f = self.facts.fn(qual)
        if f is None and required:
            self.missing.append('fn ' + qual)
        return f

    def need(self, *names):
        """raise AnchorError naming the first role/anchor in `names` that is unresolved"""
        for n in names:
            if self.roles.get(n) is None:
                raise AnchorError(n)
        return [self.roles[n] for n in names]

    def get(self, name):
        return self.roles.get(name)

    def _set(self, name, value, note=None):
        self.roles[name] = value
        if value is None:
            self.missing.append(name)
        if note:
            self.notes[name] = note

    @staticmethod
    def module_private(f):
        """declared without `pub` / `pub(crate)`: callable only from its own module -- a helper, never a role"""
        v = f.vis or ''
        return f.kind != 'Closure' and not f.trait and v.startswith('Restricted(') and 'DefId(0:0 ' not in v

    def xf(self, f):
        """f with its module-private helpers folded in (rules/inline.py): roles are recognised by what the function does, whether or not part of it
        was extracted into a private helper"""
        if f is None:
            return None
        if not hasattr(self, '_xf'):
            self._xf = {}
            self._xkeep = {g for g in self.facts.fns if not self.module_private(g)}
        if f.path not in self._xf:
            import inline
            self._xf[f.path] = inline.expand(self.facts, f, self._xkeep)
        return self._xf[f.path]

    def _methods_of(self, adt_name):
        return [f for f in self.facts.fns if f.kind == 'AssocFn' and f.self_adt and last_seg(f.self_adt) == adt_name and not f.trait]

    def _unique(self, cands, prefer=None):
        cands = list(cands)
        if len(cands) == 1:
            return cands[0]
        if prefer:
            named = [c for c in cands if c.name == prefer]
            if len(named) == 1:
                return named[0]
        return None

    def _resolve(self):
        F = self.facts
        # ---- public entry points (stable names by definition)
        for q in ('Tx::commit', 'Tx::new', 'DB::tx', 'DB::open', 'DB::check', 'OpenOptions::open', 'OpenOptions::pagesize',
                  'OpenOptions::num_pages', 'Tx::get_bucket', 'Tx::create_bucket', 'Tx::get_or_create_bucket',
                  'Tx::delete_bucket', 'Tx::buckets', 'Bucket::put', 'Bucket::get', 'Bucket::get_kv', 'Bucket::delete',
                  'Bucket::get_bucket', 'Bucket::create_bucket', 'Bucket::get_or_create_bucket', 'Bucket::delete_bucket',
                  'Bucket::cursor', 'Bucket::range', 'Bucket::buckets', 'Bucket::kv_pairs', 'Bucket::next_int',
                  'Cursor::seek', 'Cursor::current', 'DBInner::open', 'DBInner::meta'):
            self._set(q, F.fn(q))
        for q in ('<Cursor as Iterator>::next', '<Range as Iterator>::next', '<Buckets as Iterator>::next',
                  '<KVPairs as Iterator>::next', '<TxInner as Drop>::drop'):
            f = None
            for g in F.fns:
                if g.trait and g.name == q.split('::')[-1] and g.self_adt and last_seg(g.self_adt) == q[1:].split(' ')[0] \
                        and last_seg(g.trait) == q.split(' as ')[1].split('>')[0]:
                    f = g
            self._set(q, f)
        # ---- types
        for t in ('DBInner', 'Freelist', 'TxFreelist', 'Meta', 'OldMeta', 'Page', 'TxInner', 'TxLock', 'Pages', 'Bucket',
                  'Cursor', 'Buckets', 'InnerBucket', 'Node', 'LeafElement', 'BranchElement', 'BucketMeta', 'OpenOptions',
                  'DBFlags', 'Bytes', 'BucketName', 'KVPair', 'Data'):
            self._set('type ' + t, F.adt(t))
        # ---- Freelist roles from field effects
        fl = self._methods_of('Freelist')
        rel, fre, alo, ini = [], [], [], []
        for f in fl:
            if self.module_private(f) and any(g is not f and not self.module_private(g) for g in F.callers(f)):
                continue          # a private helper of the role functions
            fp = effects_on(F, self.xf(f), 'Freelist', 'free_pages')
            pp = effects_on(F, self.xf(f), 'Freelist', 'pending_pages')
            ins_fp, rem_fp = bool(fp & INSERTING - {'store', 'store-via-ptr'}) or 'insert' in fp, bool(fp & REMOVING)
            ins_pp, rem_pp = bool(pp & (INSERTING - {'store', 'store-via-ptr'})), bool(pp & REMOVING)
            if rem_pp and ins_fp:
                rel.append(f)
            elif ins_pp and not fp:
                fre.append(f)
            elif rem_fp and not ins_fp and not pp:
                alo.append(f)
            elif ins_fp and not pp and not rem_fp:
                ini.append(f)
        self._set('release-role', self._unique(rel, 'release'), 'Freelist method moving entries from pending_pages to free_pages')
        self._set('free-role', self._unique(fre, 'free'), 'Freelist method inserting into pending_pages only')
        self._set('alloc-role', self._unique(alo, 'allocate'), 'Freelist method removing from free_pages only')
        self._set('init-role', self._unique(ini, 'init'), 'Freelist method inserting into free_pages only')
        self.freelist_role_candidates = dict(release=rel, free=fre, alloc=alo, init=ini)
        # ---- TxFreelist wrappers: the method that calls the Freelist free-role / alloc-role on its `inner`
        cg = F.callgraph()
        tfl = self._methods_of('TxFreelist')
        fr = self.roles.get('free-role')
        al = self.roles.get('alloc-role')
        def xcalls(f):
            # callees of f with its module-private helpers folded in
            x = self.xf(f)
            out = {t for _, _, t, _ in F.call_sites(x) if t is not None}
            for g in F.fn_refs(x):        # ... and inside the closures it creates (`range.for_each(|id| inner.free(tx_id, id))`)
                if g.kind == 'Closure':
                    out |= {t for _, _, t, _ in F.call_sites(g) if t is not None}
            return out
        tfl = [f for f in tfl if not (self.module_private(f) and any(not self.module_private(g) for g in F.callers(f)))]
        self._set('tx-free-role', self._unique([f for f in tfl if fr in xcalls(f)], 'free'),
                  'TxFreelist method calling the Freelist free-role')
        self._set('tx-alloc-role', self._unique([f for f in tfl if al in xcalls(f) and
                                                 effects_on(F, self.xf(f), 'TxFreelist', 'pages') & INSERTING], 'allocate'),
                  'TxFreelist method calling the Freelist alloc-role and inserting into TxFreelist.pages')
        # ---- checksum role: Meta method that calls Hasher::finish ; valid role: Meta method comparing hash with it
        def calls(f, suffix):
            for bb, t, target, c in F.call_sites(f):
                if c and strip_generics(c['path']).endswith(suffix):
                    return True
            return False
        # ---- checksum / validity roles (both header formats): the validity role is the method returning bool; the checksum role
        #      is the non-bool method it calls; the bytes role (legacy) is what the checksum role calls
        for adt, pre in (('Meta', ''), ('OldMeta', 'old-')):
            ms = self._methods_of(adt)
            valids = [f for f in ms if f.locals[0]['ty'] == 'bool' and any(g in ms and g.locals[0]['ty'] != 'bool' for g in cg.get(f, ()))]
            vr = self._unique(valids, 'valid')
            self._set(pre + 'valid-role', vr, '%s method returning bool that calls another %s method (the checksum)' % (adt, adt))
            csr = self._unique([g for g in (cg.get(vr, ()) if vr else ()) if g in ms and g.locals[0]['ty'] != 'bool'], 'hash_self')
            self._set(pre + 'checksum-role', csr, '%s method called by the validity role' % adt)
            if adt == 'OldMeta':
                self._set('old-bytes-role', self._unique([g for g in (cg.get(csr, ()) if csr else ()) if g in ms], 'bytes'), 'OldMeta method called by the legacy checksum role')
        # ---- map-view: the Pages method producing &Page ; overlay-lookup: InnerBucket method returning PageNode
        pages = self._methods_of('Pages')
        self._set('map-view', self._unique([f for f in pages if 'page::Page' in f.j['sig']['output'].get('s', '') or
                                            _ret_mentions(f, 'page::Page')], 'page'), 'Pages method returning &Page')
        ib = self._methods_of('InnerBucket')
        self._set('overlay-lookup', self._unique([f for f in ib if _ret_mentions(f, 'page_node::PageNode') and not _ret_mentions(f, 'PageNodeID')], 'page_node'),
                  'InnerBucket method returning PageNode')
        self._set('materialise', self._unique([f for f in ib if f.name == 'node'], 'node'))
        # ---- the function DB::check and strict mode both reach: the TxInner method (Result<()>) reachable from the public DB::check
        dbcheck = self.roles.get('DB::check')
        reach_chk = F.reachable_fns([dbcheck]) if dbcheck else set()
        txi = [f for f in self._methods_of('TxInner') if f in reach_chk and 'Result<(), errors::Error>' in f.locals[0]['ty']]
        self._set('check-role', self._unique(txi, 'check'), 'TxInner method returning Result<()> reachable from DB::check')
        # ---- transaction begin: the function DB::tx calls that returns Result<Tx> and takes the writable flag
        dbtx = self.roles.get('DB::tx')
        beg = [g for g in (cg.get(dbtx, ()) if dbtx else ()) if 'tx::Tx<' in g.locals[0]['ty'] and any(g.locals[i]['ty'] == 'bool' for i in range(1, g.argc + 1))]
        self._set('begin-role', self._unique(beg, 'new'), 'function called by DB::tx that takes the writable flag and returns Result<Tx>')
        # ---- writable bit
        wr = [f for f in self._methods_of('TxLock') if f.locals[0]['ty'] == 'bool']
        self._set('writable-role', self._unique(wr, 'writable'), 'TxLock method returning bool')
        twr = [f for f in self._methods_of('Tx') if f.locals[0]['ty'] == 'bool' and self.roles.get('writable-role') in cg.get(f, ())]
        self._set('tx-writable-role', self._unique(twr, 'writable'), 'Tx method returning bool that calls the TxLock writable role')
        # ---- bucket view construction, spill / rebalance of the root bucket
        ibm = self._methods_of('InnerBucket')
        fm = [f for f in ibm if any('BucketMeta' in _tree_str(t) for t in f.j['sig']['inputs']) and any('page::Pages' in _tree_str(t) for t in f.j['sig']['inputs'])
              and 'InnerBucket' in _tree_str(f.j['sig']['output'])]
        self._set('view-from-meta', self._unique(fm, 'from_meta'), 'InnerBucket constructor from (BucketMeta, Pages)')
        cm = self.roles.get('Tx::commit')
        direct = ({t for _, _, t, _ in F.call_sites(self.xf(cm)) if t is not None} | cg.get(cm, set())) if cm else set()     # module-private helpers of commit folded in
        sp = [f for f in ibm if f in direct and 'BucketMeta' in _tree_str(f.j['sig']['output'])]
        self._set('spill-role', self._unique(sp, 'spill'), 'InnerBucket method called by Tx::commit returning Result<BucketMeta>')
        rb = [f for f in ibm if f in direct and f not in sp and any('TxFreelist' in _tree_str(t) for t in f.j['sig']['inputs'])]
        self._set('rebalance-role', self._unique(rb, 'rebalance'), 'other InnerBucket method called by Tx::commit with the TxFreelist')
        # ---- page views
        flm = [f for f in self._methods_of('Page') if _tree_str(f.j['sig']['output']).count('"mut": true') and 'u64' in _tree_str(f.j['sig']['output']) and 'slice' in _tree_str(f.j['sig']['output'])]
        self._set('freelist-view-mut', self._unique(flm, 'freelist_mut'), 'Page method returning &mut [u64]')
        nfp = [f for f in F.fns if f.kind == 'AssocFn' and f.self_adt and last_seg(f.self_adt) == 'Node' and not f.trait
               and any('page::Page' in _tree_str(t) for t in f.j['sig']['inputs']) and 'node::Node' in _tree_str(f.j['sig']['output'])]
        self._set('node-from-page', self._unique(nfp, 'from_page'), 'Node constructor from &Page')
        # ---- node serialiser: Page method taking &Node
        pg = self._methods_of('Page')
        self._set('node-serialiser', self._unique([f for f in pg if any('node::Node' in _tree_str(t) for t in f.j['sig']['inputs'])], 'write_node'))
        pfb = [f for f in F.fns if f.kind == 'AssocFn' and f.self_adt and last_seg(f.self_adt) == 'Page' and not f.trait
               and f.j['sig']['inputs'] and f.j['sig']['inputs'][0].get('k') == 'ref' and f.j['sig']['inputs'][0]['t'].get('k') == 'slice' and 'page::Page' in _tree_str(f.j['sig']['output'])]
        self._set('Page::from_buf', self._unique(pfb, 'from_buf'), 'Page view of a byte buffer')
        # ---- creation / open helpers of OpenOptions::open
        oo = self.roles.get('OpenOptions::open')
        called = cg.get(oo, set()) if oo else set()

        def has_std_open(f):
            return any(c and strip_generics(c['path']) == 'std::fs::OpenOptions::open' for _, _, _, c in F.call_sites(f))

        def writes_file(f):
            return any(c and c['path'] in ('std::io::Write::write_all', 'std::io::Write::write') and (c.get('self_ty') or '') in ('std::fs::File', '&std::fs::File')
                       for _, _, _, c in F.call_sites(f))
        free_fns = [f for f in F.fns if f.kind == 'Fn']
        self._set('open_file', self._unique([f for f in free_fns if has_std_open(f)], 'open_file'), 'free function calling std OpenOptions::open')
        # the creation function: the free function OpenOptions::open calls that writes the file, itself or through free helpers of its own (`write_fully(&mut file, ..)`)
        init_c = [f for f in free_fns if f in called and any(writes_file(g) for g in F.reachable_fns([f]) if g.kind == 'Fn')]
        if not init_c:
            init_c = [f for f in free_fns if writes_file(f) and f in F.reachable_fns([oo] if oo else [])]
        self._set('init_file', self._unique(init_c, 'init_file'), 'free function called by OpenOptions::open that writes the file')
        # ---- the bucket deletion walk: InnerBucket method calling both the tx free role and the map view
        txf, mvw = self.roles.get('tx-free-role'), self.roles.get('map-view')
        dw = [f for f in self._methods_of('InnerBucket') if txf in cg.get(f, ()) and mvw in cg.get(f, ())]
        self._set('delete-walk', self._unique(dw, 'delete_bucket'), 'InnerBucket method that frees pages it finds through the map view')
        # the tree search: returns the exact-match flag together with the descent stack -- `-> (bool, Vec<SearchPath>)`, or `-> bool` with the stack filled through a
        # `&mut Vec<SearchPath>` parameter
        sr = [f for f in F.fns if f.kind != 'Closure' and f.locals[0]['ty'].startswith('(bool, std::vec::Vec<') and 'SearchPath' in f.locals[0]['ty']]
        if not sr:
            sr = [f for f in F.fns if f.kind != 'Closure' and f.locals[0]['ty'] == 'bool' and
                  any(f.locals[i]['ty'].startswith('&mut std::vec::Vec<') and 'SearchPath' in f.locals[i]['ty'] for i in range(1, f.argc + 1))]
        self._set('search-role', sr[0] if len(sr) == 1 else None, 'function returning the exact-match flag and producing the descent stack')
        # header selection helpers: when the body of `DBInner::meta` moved into a helper such as `meta_in(&map, pagesize)`, a direct call of that helper is a header
        # read too (rules judge the selection logic in the folded view of DBInner::meta)
        hm = self.roles.get('DBInner::meta')
        vr = self.roles.get('valid-role')
        self.hdr_helpers = set()
        if hm is not None and vr is not None and vr not in cg.get(hm, ()):
            self.hdr_helpers = {g for g in cg.get(hm, ()) if g.kind != 'Closure' and g.self_adt and last_seg(g.self_adt) == 'DBInner' and vr in cg.get(g, ())}
        # the resize role: the DBInner method that grows the file (FileExt::allocate / File::set_len, itself or through private free helpers such as `set_file_size`)
        # and is reached from the commit; when several qualify (`ensure_capacity` calling `resize`), the innermost one that holds the primitive
        def grows(f, direct_only=False):
            fs = [f] if direct_only else [g for g in F.reachable_fns([f]) if g is f or (g.kind == 'Fn' and not g.eff_pub)]
            return any(c and (strip_generics(c['path']).endswith('FileExt::allocate') or strip_generics(c['path']) == 'std::fs::File::set_len')
                       for g in fs for _, _, _, c in F.call_sites(g))
        cmf = self.roles.get('Tx::commit')
        from_commit = set(F.reachable_fns([cmf])) if cmf else set()
        rzc = [f for f in self._methods_of('DBInner') if f in from_commit and grows(f)]
        inner = [f for f in rzc if not any(g is not f and g in rzc for g in cg.get(f, ()))]
        self._set('resize-role', self._unique(inner or rzc, 'resize'), 'DBInner method reached from the commit that grows the file')


def _tree_str(t):
    import json
    return json.dumps(t)


def _ret_mentions(f, path):
    return path in _tree_str(f.j['sig']['output'])
