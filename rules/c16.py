"""C16 Open options change performance, not behaviour (clause level)"""
from core import ok, bad, unresolved, floor
from anchors import AnchorError
from facts import callee_of, op_local, op_place, op_const_val, last_seg, strip_generics
from flow import result_switch
from util import calls_to_fn, calls_named, has_field, has_call, stores_to_field, aggregates_of
import commit


def align_guard(ctx, rule='C16.align-guard'):
    res = []
    F = ctx.facts
    page = F.adt('Page')
    if not page:
        return [unresolved(rule, 'type Page')]
    align = page.get('align') or 8
    # precondition: the crate views bytes at (id * pagesize) as a Page
    ncast = 0
    for fn in F.fns:
        du = None
        for bb in fn.reachable_blocks():
            for si, s in enumerate(fn.blocks[bb]['stmts']):
                if s['k'] == 'assign' and s['rv']['k'] == 'cast' and s['rv']['to'] in ('*const page::Page', '*mut page::Page') and s['rv']['ck'] == 'PtrToPtr':
                    du = du or ctx.du(fn)
                    _, atoms = du.slice_operand(s['rv']['op'])
                    if any(a[0] == 'bin' and a[1].startswith('Mul') for a in atoms) or any(a[0] == 'call' and last_seg(strip_generics(a[2])) in ('index', 'index_mut') for a in atoms):
                        ncast += 1
    ctx.stats['page_view_casts'] = ncast
    f = floor(rule, 'reinterpretations of byte offsets as Page', ncast, 1)
    if f:
        res.append(f)
    n = 0
    for fn in F.fns:
        if not fn.eff_pub or fn.kind == 'Closure':
            continue
        if not stores_to_field(fn, 'OpenOptions', 'pagesize'):
            continue
        fn = ctx.x(fn)       # the limits may sit in a private `validate_pagesize(pagesize)` the builder calls
        du = None
        for bb, si, s in stores_to_field(fn, 'OpenOptions', 'pagesize'):
            du = du or ctx.du(fn)
            if s['rv']['k'] != 'use':
                continue
            _, atoms = du.slice_operand(s['rv']['op'])
            args = {a[1] for a in atoms if a[0] == 'arg'}
            supplied = [a for a in args if fn.locals[a]['ty'] in ('u64', 'usize', 'u32')]
            if not supplied:
                continue
            n += 1
            guarded = False
            for gb in sorted(fn.reachable_blocks()):
                t = fn.term(gb)
                if t['k'] != 'switch' or not fn.dominates(gb, bb):
                    continue
                _, da = du.slice_operand(t['discr'])
                if not ({a[1] for a in da if a[0] == 'arg'} & set(supplied)):
                    continue
                rem = any(a[0] == 'bin' and a[1] == 'Rem' for a in da)
                mask = any(a[0] == 'bin' and a[1] == 'BitAnd' for a in da)
                consts = {a[1] for a in da if a[0] == 'const' and isinstance(a[1], int)}
                good_mod = (rem and any(c and c % align == 0 for c in consts)) or (mask and any((c + 1) % align == 0 and c > 0 for c in consts)) or \
                    any(a[0] == 'call' and last_seg(strip_generics(a[2])) in ('is_multiple_of', 'is_power_of_two') for a in da)
                if not good_mod:
                    continue
                # flow-insensitive slices cannot tell `pagesize % 8` from `self.pagesize % 8` (the field is assigned the argument later): the tested value must
                # be the supplied argument itself (a plain copy of it), judged on the expression tree
                def _tests_arg(e):
                    if e[0] == 'bin' and e[1] in ('Rem', 'BitAnd'):
                        return any(x[0] == 'arg' and x[1] in supplied for x in (e[2], e[3]))
                    if e[0] == 'call' and last_seg(strip_generics(e[1])) in ('is_multiple_of', 'is_power_of_two'):
                        return bool(e[2]) and e[2][0][0] == 'arg' and e[2][0][1] in supplied
                    if e[0] in ('bin', 'un'):
                        return any(_tests_arg(x) for x in e[2:] if isinstance(x, tuple))
                    return False
                if not _tests_arg(du.sym(t['discr'])):
                    continue
                # one edge must not return normally, and the store must be behind the other
                for sx in fn.succ(gb):
                    reach = fn.reach_from([sx])
                    if not any(fn.term(x)['k'] == 'return' for x in reach):
                        others = [y for y in fn.succ(gb) if y != sx]
                        if others and bb not in fn.reach_from([0], avoid_edges={(gb, others[0])}):
                            guarded = True
            if guarded:
                res.append(ok(rule, 'caller-supplied page size stored at %s only behind a divisibility test against the alignment of Page (%d) that refuses other values' % (fn.loc(bb, si), align), sites=1))
            else:
                res.append(bad(rule, '%s | page size accepted without alignment check' % fn.qual,
                               '%s stores a caller-supplied page size at %s without a dominating divisibility test against (a multiple of) align_of::<Page>() = %d: pages are viewed in place at '
                               'id * pagesize, so such a size yields misaligned &Page references (undefined behaviour, abort in debug builds) instead of working or being refused cleanly'
                               % (fn.qual, fn.loc(bb, si), align), where=fn.loc(bb, si)))
    f = floor(rule, 'public stores of a caller-supplied page size', n, 1)
    if f:
        res.append(f)
    return res


def _tree_has(e, pred, depth=0):
    if depth > 40 or not isinstance(e, tuple):
        return False
    if pred(e):
        return True
    for x in e[1:]:
        if isinstance(x, tuple) and _tree_has(x, pred, depth + 1):
            return True
        if isinstance(x, list) and any(_tree_has(y, pred, depth + 1) for y in x):
            return True
    return False


def _is_len(e):
    """the current usable length: the file's length, or the smaller of it and something else (`metadata.len().min(map.len())`: what is mapped is what counts when an
    earlier remap failed).  `LEN + x >= REQ` whenever `x >= REQ - LEN` holds for either form; `_single_len` makes sure one tree does not mix the two"""
    if e[0] == 'call' and last_seg(strip_generics(e[1])) == 'len' and 'Metadata' in e[1]:
        return True
    return e[0] == 'call' and last_seg(strip_generics(e[1])) == 'min' and len(e[2]) == 2 and any(_is_len(x) for x in e[2])


def _single_len(e):
    """all current-length subexpressions of e are one and the same expression"""
    found = set()

    def walk(x, depth=0):
        if depth > 60 or not isinstance(x, tuple) or not x:
            return
        if _is_len(x):
            found.add(repr(x))
            return
        for y in x[1:]:
            if isinstance(y, tuple):
                walk(y, depth + 1)
            elif isinstance(y, list):
                for z in y:
                    walk(z, depth + 1)
    walk(e)
    return len(found) <= 1


def _is_req(e):
    """num_pages * pagesize (either order), both read from fields"""
    if e[0] == 'bin' and e[1] == 'Mul':
        names = set()
        for x in (e[2], e[3]):
            if x[0] == 'field':
                names.add(x[2][-1])
        return names == {'num_pages', 'pagesize'}
    return False


def size_facts(e, depth=0):
    """tiny abstract domain for the growth arithmetic (unsigned integers; REQ = num_pages*pagesize, LEN = current file length, D = REQ - LEN > 0 on
    the growth path).  Facts about the value of e:  'GE_REQ' e >= REQ;  'D' e == D;  'GE_D' e >= D;  ('FLOOR', m) e == floor(D / m);
    ('CEILQ', m) e * m >= D;  ('REM', m) e == D % m;  ('FLOORM', m) e == floor(D / m) * m;  ('CONST', c)."""
    if depth > 30:
        return set()
    k = e[0]
    if k == 'const' and isinstance(e[1], int):
        return {('CONST', e[1])}
    if _is_req(e):
        return {'GE_REQ'}
    if k == 'bin':
        op, a, b = e[1], size_facts(e[2], depth + 1), size_facts(e[3], depth + 1)
        ca = next((f[1] for f in a if isinstance(f, tuple) and f[0] == 'CONST'), None)
        cb = next((f[1] for f in b if isinstance(f, tuple) and f[0] == 'CONST'), None)
        out = set()
        if op == 'Sub' and _is_req(e[2]) and _is_len(e[3]):
            return {'D', 'GE_D'}
        if op == 'Div' and 'D' in a and cb:
            return {('FLOOR', cb)}
        if op == 'Rem' and 'D' in a and cb:
            return {('REM', cb)}
        if op == 'Sub' and 'D' in a:
            for f in b:
                if isinstance(f, tuple) and f[0] == 'REM':
                    return {('FLOORM', f[1])}          # D - D % m  ==  floor(D / m) * m
        if op == 'Add':
            for x, y, cy in ((a, b, cb), (b, a, ca)):
                for f in x:
                    if isinstance(f, tuple) and f[0] == 'FLOOR' and cy is not None and cy >= 1:
                        out.add(('CEILQ', f[1]))
                    if isinstance(f, tuple) and f[0] == 'CEILQ':
                        out.add(f)
                    if isinstance(f, tuple) and f[0] == 'FLOORM' and cy is not None and cy >= f[1]:
                        out.add('GE_D')                # floor(D/m)*m + m > D
                if 'GE_D' in x:
                    out.add('GE_D')
                if 'GE_REQ' in x:
                    out.add('GE_REQ')
            if ('GE_D' in a and _is_len(e[3])) or ('GE_D' in b and _is_len(e[2])):
                out.add('GE_REQ')
            # (D + (m - 1)) / m  handled under Div below through the marker ('DPLUS', m - 1)
            if 'D' in a and cb is not None:
                out.add(('DPLUS', cb))
            if 'D' in b and ca is not None:
                out.add(('DPLUS', ca))
            return out
        if op == 'Div' and cb:
            for f in a:
                if isinstance(f, tuple) and f[0] == 'DPLUS' and f[1] >= cb - 1:
                    return {('CEILQ', cb)}
        if op == 'Mul':
            for x, cy in ((a, cb), (b, ca)):
                for f in x:
                    if isinstance(f, tuple) and f[0] == 'CEILQ' and cy is not None and cy >= f[1]:
                        out.add('GE_D')
                if 'GE_D' in x and cy is not None and cy >= 1:
                    out.add('GE_D')
                for f in x:
                    if isinstance(f, tuple) and f[0] == 'FLOOR' and cy is not None and cy == f[1]:
                        out.add(('FLOORM', cy))
                if 'GE_REQ' in x and cy is not None and cy >= 1:
                    out.add('GE_REQ')
            return out
        return set()
    if k == 'call':
        name = last_seg(strip_generics(e[1]))
        args = [size_facts(x, depth + 1) for x in e[2]]
        consts = [next((f[1] for f in a if isinstance(f, tuple) and f[0] == 'CONST'), None) for a in args]
        keep = lambda fs: {f for f in fs if f in ('GE_D', 'GE_REQ') or (isinstance(f, tuple) and f[0] == 'CEILQ')}
        if name == 'max' and len(args) == 2:
            return keep(args[0]) | keep(args[1])
        if name == 'min' and len(args) == 2:
            return keep(args[0]) & keep(args[1])
        if name in ('saturating_add', 'wrapping_add', 'checked_add', 'add') and len(args) == 2:
            out = keep(args[0]) | keep(args[1])
            if ('GE_D' in args[0] and _is_len(e[2][1])) or ('GE_D' in args[1] and _is_len(e[2][0])):
                out.add('GE_REQ')
            return out
        if name == 'div_ceil' and len(args) == 2 and 'D' in args[0] and consts[1]:
            return {('CEILQ', consts[1])}
        if name == 'next_multiple_of' and len(args) == 2:
            return keep(args[0])
        if name in ('unwrap', 'expect', 'unwrap_or', 'into', 'from', 'try_into', 'try_from') and args:
            return keep(args[0]) | {f for f in args[0] if f == 'D'}
        return set()
    return set()


def _fmt(e, depth=0):
    if depth > 12:
        return '..'
    k = e[0]
    if k == 'const':
        return str(e[1])
    if k == 'arg':
        return 'arg%d' % e[1]
    if k == 'field':
        return '%s.%s' % (_fmt(e[1], depth + 1), '.'.join(e[2]))
    if k == 'bin':
        return '(%s %s %s)' % (_fmt(e[2], depth + 1), e[1], _fmt(e[3], depth + 1))
    if k == 'un':
        return '%s(%s)' % (e[1], _fmt(e[2], depth + 1))
    if k == 'call':
        return '%s(%s)' % (last_seg(strip_generics(e[1])), ', '.join(_fmt(x, depth + 1) for x in e[2]))
    if k == 'phi':
        return '_%d' % e[1]
    return '?'

def grow(ctx, rule='C16.grow'):
    res = []
    F = ctx.facts
    try:
        (rz,) = ctx.need('resize-role')
    except AnchorError as e:
        return [unresolved(rule, str(e))]
    # judged at the growth primitive itself (`file.allocate(n)` / `set_len(n)`), inside the commit function with ALL crate-private helpers folded in -- the resize role
    # included: the growth decision, the size arithmetic, the primitive, the remap and the use of its result may be cut into helpers and methods in any way
    # (`DBInner::ensure_capacity`, `grow`, `reserve`, `growth_target` ...)
    from events import G_PATHS, MAP_PATHS
    cm = ctx.A.get('Tx::commit')
    if cm is None:
        return [unresolved(rule, 'Tx::commit')]
    import inline
    if not hasattr(ctx, '_grow_view'):
        cg = F.callgraph()

        def has_g(g):
            return any(c and (c['path'] in G_PATHS or (c.get('resolved') or {}).get('path') in G_PATHS) for _, _, _, c in F.call_sites(g))
        reach_g = {g for g in F.fns if any(has_g(h) for h in F.reachable_fns([g]))}
        roles = {v for v in ctx.A.roles.values() if hasattr(v, 'blocks')} - {rz}
        fold = {g for g in reach_g if not g.eff_pub and not g.trait and g.kind != 'Closure'} | {rz}
        for _ in range(3):      # small private helpers of what is folded (pure arithmetic such as `growth_target(len, required)`, accessors such as `file()`)
            more = {h for g in fold for h in cg.get(g, ()) if h not in fold and not h.eff_pub and not h.trait and h.kind != 'Closure' and h not in roles and len(h.blocks) <= 80}
            if not more:
                break
            fold |= more
        keep = {g for g in F.fns if g not in fold and g is not cm}
        ctx._grow_view = inline.expand(F, cm, keep)
    X = ctx._grow_view
    sites = []
    for bb in sorted(X.reachable_blocks()):
        t = X.term(bb)
        c = callee_of(t) if t['k'] == 'call' else None
        if c and (c['path'] in G_PATHS or (c.get('resolved') or {}).get('path') in G_PATHS):
            sites.append((X, bb))
    f = floor(rule, 'file growth primitives in the commit function', len(sites), 1)
    if f:
        return [f]
    for fn, bb in sites:
        du = ctx.du(fn)
        t = fn.term(bb)
        # (a) the growth decision depends on the final high-water mark and on the current file length
        decided = False
        decision_blocks = []
        for (a, s) in fn.control_deps_transitive(bb):
            at = fn.term(a)
            if at['k'] != 'switch':
                continue
            _, da = du.slice_operand(at['discr'])
            if not (has_field(da, 'Meta', 'num_pages') and any(x[0] == 'call' and x[2] == 'std::fs::Metadata::len' for x in da) and has_field(da, 'DBInner', 'pagesize')):
                continue
            # the flow-insensitive slice over-approximates in a large body: the test itself must compare the file length with the required size
            tree = du.sym(at['discr'])
            if tree[0] in ('phi', '?') or _tree_has(tree, _is_len):
                decided = True
                decision_blocks.append(a)
                # (b) ... and is taken after the header's num_pages was fixed
                def _tx_num_pages(pl):
                    # the transaction's own header copy: `self.meta.num_pages`, also when reached through a `&mut Meta` handed to a helper
                    fs = [e for e in pl['pr'] if e['k'] == 'field']
                    if len(fs) >= 2:
                        return fs[-1].get('name') == 'num_pages' and bool(fs[-2].get('adt')) and last_seg(fs[-2]['adt']) == 'TxInner'
                    return any(len(path) >= 2 and path[-1] == 'num_pages' and path[-2] == 'meta' and 'freelist' not in path for (_r, path) in du._place_cells(pl))
                hw = [(b2, si) for b2, si, s2 in stores_to_field(fn, 'Meta', 'num_pages') if _tx_num_pages(s2['p'])]
                # loads of the transaction's num_pages (the required size is computed from them)
                loads = []
                locs_d, _ = du.slice_operand(at['discr'])
                for b3 in fn.reachable_blocks():
                    for s3i, s3 in enumerate(fn.blocks[b3]['stmts']):
                        if s3['k'] == 'assign' and s3['p']['l'] in locs_d:      # only loads that feed the growth decision
                            from facts import rvalue_places
                            for pl in rvalue_places(s3['rv']):
                                fs = [e for e in pl['pr'] if e['k'] == 'field']
                                if fs and fs[-1].get('name') == 'num_pages' and _tx_num_pages(pl):
                                    loads.append((b3, s3i))
                after = lambda st, ld: (st[0] == ld[0] and st[1] < ld[1]) or (st[0] != ld[0] and fn.dominates(st[0], ld[0]))
                if hw and loads and all(any(after(st, ld) for st in hw) for ld in loads if fn.dominates(ld[0], a) or ld[0] == a):
                    res.append(ok(rule, 'growth decision at %s compares the file length with num_pages * pagesize after the final high-water mark is known' % fn.loc(a), sites=1))
                else:
                    res.append(bad(rule, '%s | required size computed before the final high-water mark' % fn.qual,
                                   'the growth decision at %s is not dominated by the store of the final num_pages: pages allocated later (e.g. the free-list page) would lie beyond the file'
                                   % fn.loc(a), where=fn.loc(a)))
        if decided and decision_blocks:
            # (f) nothing is written to the file before it has been sized: a write beyond the end extends the file by itself, the length test then finds nothing to
            # do, and the map is never replaced
            from events import W_PATHS, is_file_callee
            for b3 in sorted(fn.reachable_blocks()):
                t3 = fn.term(b3)
                c3 = callee_of(t3) if t3['k'] == 'call' else None
                if c3 and (c3['path'] in W_PATHS or (c3.get('resolved') or {}).get('path') in W_PATHS) and is_file_callee(c3):
                    if not any(fn.dominates(a0, b3) for a0 in decision_blocks) and any(a0 in fn.reach_from([b3]) for a0 in decision_blocks):
                        res.append(bad(rule, '%s | file written before it is sized' % fn.qual,
                                       'the write at %s can run before the growth decision at %s: writing past the end of the file extends it, so the decision may find the file long '
                                       'enough, skip the growth and leave the old, shorter map in place' % (fn.loc(b3), fn.loc(decision_blocks[0])), where=fn.loc(b3)))
        # (g) the decision also looks at how much of the file is MAPPED.  The growth primitive and the remap are separate fallible steps; when the second fails the file is
        #     long enough and the map is not, and a decision taken from the file length alone never renews the map: later commits publish pages beyond it
        if decided:
            def _map_len(x):
                return x[0] == 'call' and last_seg(strip_generics(x[1])) == 'len' and 'Metadata' not in x[1] and \
                    _tree_has(x, lambda y: y[0] == 'field' and y[2] and y[2][-1] in ('data', 'pages'))
            trees = [du.sym(fn.term(a)['discr']) for a in decision_blocks]
            if any(tr[0] in ('phi', '?') or _tree_has(tr, _map_len) for tr in trees):
                res.append(ok(rule, 'the growth decision at %s takes the length of the map into account' % fn.loc(decision_blocks[0]), sites=1))
            else:
                res.append(bad(rule, '%s | growth decided from the file length alone' % fn.qual,
                               'the decision at %s whether to grow and remap compares the required size with the length of the FILE only: if an earlier commit extended the file '
                               'and then failed to map it again (the remap is a separate fallible step), the file is long enough, nothing is remapped, and this and later transactions '
                               'use pages beyond the end of the map' % fn.loc(decision_blocks[0]), where=fn.loc(decision_blocks[0])))
        if not decided:
            res.append(bad(rule, '%s | growth not decided from required size and file length' % fn.qual,
                           'the file growth at %s is not controlled by a comparison of the current file length with num_pages * pagesize' % fn.loc(bb), where=fn.loc(bb)))
        # (c) the new size depends on the required size / current length
        _, sa = du.slice_operand(t['args'][1]) if len(t['args']) > 1 else (None, set())
        if has_field(sa, 'Meta', 'num_pages') and any(x[0] == 'call' and x[2] == 'std::fs::Metadata::len' for x in sa):
            res.append(ok(rule, 'new file size at %s is computed from the required size and the current length' % fn.loc(bb), sites=1))
        else:
            res.append(bad(rule, '%s | new size independent of the required size' % fn.qual,
                           'the size the file is grown to at %s does not depend on both the required size (num_pages) and the current file length' % fn.loc(bb), where=fn.loc(bb)))
        # (e) ... and is provably at least the required size (abstract evaluation of the size expression; see size_facts)
        if len(t['args']) > 1:
            e = du.sym(t['args'][1])
            looped = None
            if 'GE_REQ' not in size_facts(e) or not _single_len(e):
                # growth in steps: the primitive is followed by a loop (it may be the loop's own body) that is left only when the file, or the map made from it, has
                # reached the required size, and that grows again otherwise
                gsites = {b for (_f, b) in sites}
                for a in sorted(fn.reach_from(fn.succ(bb))):
                    at = fn.term(a)
                    if at['k'] != 'switch' or not (fn.reach_from([a]) & gsites):
                        continue
                    tr = du.sym(at['discr'])
                    if tr[0] == 'bin' and tr[1] in ('Lt', 'Le', 'Gt', 'Ge') and _tree_has(tr, lambda x: x[0] == 'call' and last_seg(strip_generics(x[1])) == 'len') and \
                            (_tree_has(tr, _is_req) or _tree_has(tr, lambda x: x[0] == 'field' and x[2] and x[2][-1] == 'num_pages')):
                        looped = fn.loc(a)
            if looped:
                res.append(ok(rule, 'the file is grown step by step at %s until its length reaches num_pages * pagesize (loop test at %s)' % (fn.loc(bb), looped), sites=1))
            elif 'GE_REQ' in size_facts(e) and _single_len(e):
                res.append(ok(rule, 'new file size at %s is provably >= num_pages * pagesize (length + a rounded-up amount that covers the shortfall)' % fn.loc(bb), sites=1))
            else:
                res.append(bad(rule, '%s | new size not provably at least the required size' % fn.qual,
                               'the size the file is grown to at %s cannot be shown to be >= num_pages * pagesize for every shortfall (expression: %s): when the file has to grow by more '
                               'than the rounding unit the map ends before pages the new header points to, and the next transaction reads beyond it'
                               % (fn.loc(bb), _fmt(e)), where=fn.loc(bb)))
        # (d) the transaction's Pages are replaced from a map made after the growth, behind its success edge
        rs = result_switch(fn, bb)
        st = stores_to_field(fn, 'TxInner', 'pages')
        if not st:
            res.append(bad(rule, '%s | transaction keeps the old map after growth' % fn.qual, 'after growing the file the transaction\'s Pages are not replaced: the strict check and later reads would index beyond the old map', where=fn.loc(bb)))
        maps = [b3 for b3 in fn.reachable_blocks() if fn.term(b3)['k'] == 'call' and callee_of(fn.term(b3)) and
                (strip_generics(callee_of(fn.term(b3))['path']) in MAP_PATHS or (strip_generics(callee_of(fn.term(b3))['path']).startswith('memmap2::') and last_seg(strip_generics(callee_of(fn.term(b3))['path'])).startswith('map')))
                and b3 in fn.reach_from([bb])]
        for b2, si, s2 in st:
            locs_p, pa = du.slice_operand(s2['rv']['op']) if s2['rv']['k'] == 'use' else (set(), set())
            # never executed after a failed growth (the error arm cannot reach it), and data-dependent on a map created after the growth
            behind = rs and rs['ok'] is not None and rs.get('err') is not None and b2 not in fn.reach_from([rs['err']]) and b2 in fn.reach_from([rs['ok']])
            from_map = any(x[0] == 'call' and x[1] in maps for x in pa)
            if from_map and not behind and rs and rs['ok'] is not None and rs.get('err') is not None:
                # the value stored exists only if the map was made, and the map is made only behind the success of the growth (`resize(..).map(Some)` hands a Result
                # through a combinator, so the store itself is reachable from the error edge in the graph, but never with this value)
                errs, oks = fn.reach_from([rs['err']]), fn.reach_from([rs['ok']])
                behind = any(x[0] == 'call' and x[1] in maps and x[1] not in errs and x[1] in oks for x in pa) and b2 in oks
            if from_map and behind:
                res.append(ok(rule, 'transaction Pages replaced at %s from the new map, behind the success of the growth' % fn.loc(b2, si), sites=1))
            else:
                res.append(bad(rule, '%s | Pages not replaced from the new map' % fn.qual, 'the store to TxInner.pages at %s is not derived from a map created after the successful growth' % fn.loc(b2, si), where=fn.loc(b2, si)))
    return res


def strict_guard(ctx, rule='C16.O6'):
    """K is guarded by the strict_mode flag and its error is propagated (a valid commit is rejected only by a real inconsistency)"""
    res = []
    T = commit.commit_trace(ctx)
    K = [e for e in T.events('K') if not e.get('summary')]
    for k in K:
        n = T.nodes[k['node']]
        fn = n.fn
        du = ctx.du(fn)
        flagged = False
        for (a, s) in fn.control_deps_transitive(n.bb):
            at = fn.term(a)
            if at['k'] == 'switch':
                _, da = du.slice_operand(at['discr'])
                if has_field(da, 'DBFlags', 'strict_mode'):
                    flagged = True
        if flagged:
            res.append(ok(rule, 'the built-in check in commit at %s runs only under flags.strict_mode' % k['loc'], sites=1))
        else:
            res.append(bad(rule, '%s | consistency check not controlled by strict_mode' % fn.qual, 'the built-in check at %s is not control-dependent on flags.strict_mode' % k['loc'], where=k['loc']))
    return res



def check_counts_runs(ctx, rule='C16.check-counts-runs'):
    """the built-in check ("strict mode") accounts for the overflow pages of EVERY page it visits, whatever its kind: which kinds can span several pages
    depends on the configured page size and on key / value sizes (a branch with long keys at a small page size does), so a per-kind exemption makes the check reject a valid commit
    under some option combinations only"""
    res = []
    try:
        (chk,) = ctx.need('check-role')
    except AnchorError as e:
        return [unresolved(rule, str(e))]
    fn = ctx.x(chk)
    du = ctx.du(fn)
    sites = []
    for bb, t, c in calls_named(ctx.facts, fn, 'remove', 'take', 'insert'):
        if 'Set' not in strip_generics(c['path']) and 'Map' not in strip_generics(c['path']):
            continue
        if len(t['args']) < 2:
            continue
        _, atoms = du.slice_operand(t['args'][1])
        if has_field(atoms, 'Page', 'overflow'):
            sites.append(bb)
    f = floor(rule, 'overflow-page bookkeeping sites in the built-in check', len(sites), 1)
    if f:
        return [f]
    for bb in sites:
        kinds = []
        ksw = {}
        for a in sorted(fn.reachable_blocks()):
            at = fn.term(a)
            if at['k'] != 'switch':
                continue
            _, da = du.slice_operand(at['discr'])
            if has_field(da, 'Page', 'page_type'):
                ksw[a] = {x[1] for x in da if x[0] == 'call' and strip_generics(x[2]).endswith('Pages::page')}
        # `matches!(kind, A | B)`: a bool set to constants under a kind switch, then tested
        cd = fn.control_deps()
        for a in sorted(fn.reachable_blocks()):
            at = fn.term(a)
            l = op_local(at['discr']) if at['k'] == 'switch' else None
            if l is None or a in ksw:
                continue
            ds = du.defs.get(l, [])
            if ds and all(si is not None and fn.blocks[b]['stmts'][si]['rv']['k'] == 'use' and fn.blocks[b]['stmts'][si]['rv']['op']['k'] == 'const' for b, si in ds):
                for b, si in ds:
                    for (a2, sx) in cd.get(b, ()):
                        if a2 in ksw:
                            ksw[a] = ksw[a2]
        for a, loaders in sorted(ksw.items()):
            # within one visit: paths that load the next page (a later iteration of the walk) do not count
            rs = [bb in fn.reach_from([sx], avoid=loaders) for sx in fn.succ(a)]
            if any(rs) and not all(rs):
                kinds.append(fn.loc(a))
        if kinds:
            res.append(bad(rule, '%s | overflow pages counted only for some page kinds' % chk.qual,
                           'the check accounts for a page\'s overflow run at %s only under a test of its kind (%s): a page of another kind that spans several pages -- possible at small page '
                           'sizes -- leaves its overflow pages unaccounted, and strict mode rejects a valid commit' % (fn.loc(bb), kinds[0]), where=fn.loc(bb)))
        else:
            res.append(ok(rule, 'overflow pages are accounted for at %s independently of the page kind' % fn.loc(bb), sites=1))
    return res


def _from_file_length(ctx, fn, operand, depth=0, seen=None):
    """does the operand derive from the file's own length (File::metadata().len()), on every call path that supplies it?"""
    seen = seen or set()
    du = ctx.du(fn)
    _, atoms = du.slice_operand(operand)
    if any(a[0] == 'call' and strip_generics(a[2]) in ('std::fs::File::metadata', 'std::fs::Metadata::len') for a in atoms):
        return True
    args = [a[1] for a in atoms if a[0] == 'arg']
    if not args or depth > 5 or fn.path in seen:
        return False
    from util import all_call_sites
    sites = all_call_sites(ctx.facts, fn)
    if not sites:
        return False
    for (cf, cb, ct) in sites:
        if not any(i - 1 < len(ct['args']) and _from_file_length(ctx, cf, ct['args'][i - 1], depth + 1, seen | {fn.path}) for i in args):
            return False
    return True


def map_whole_file(ctx, rule='C16.map-whole-file'):
    """every memory map covers the whole file: an explicit length or offset handed to the map builder must be the file's own length, never a value computed from the
    options or from the transaction (a map that ends before the file does makes pages unreachable under that option only)"""
    res = []
    F = ctx.facts
    n = 0
    nmap = 0
    for fn in sorted(F.fns, key=lambda f: f.path):
        for bb in sorted(fn.reachable_blocks()):
            t = fn.term(bb)
            c = callee_of(t) if t['k'] == 'call' else None
            if not c:
                continue
            sp = strip_generics(c['path'])
            if sp.startswith('memmap2::') and last_seg(sp).startswith('map'):
                nmap += 1
            if sp not in ('memmap2::MmapOptions::len', 'memmap2::MmapOptions::offset'):
                continue
            n += 1
            if _from_file_length(ctx, fn, t['args'][-1]):
                res.append(ok(rule, 'the explicit map %s at %s is the file\'s own length' % (last_seg(sp), fn.loc(bb)), sites=1))
            else:
                res.append(bad(rule, '%s | map %s not the file length' % (fn.qual, last_seg(sp)),
                               'the memory map built in %s gets an explicit %s at %s that does not come from the file\'s metadata on every call path: the map can end before the file does, '
                               'and pages beyond it are out of reach' % (fn.qual, last_seg(sp), fn.loc(bb)), where=fn.loc(bb)))
    f = floor(rule, 'memory-map constructions in the crate', nmap, 1)
    if f:
        res.append(f)
    elif n == 0:
        res.append(ok(rule, 'none of the %d map constructions passes an explicit length or offset (memmap2 then maps the whole file)' % nmap, sites=nmap))
    return res


def pagesize_fields(ctx):
    """fields that hold a page size: every field named `pagesize`, plus (fixpoint) fields that are assigned a plain copy / cast of one"""
    if hasattr(ctx, '_ps_fields'):
        return ctx._ps_fields
    F = ctx.facts
    ps = set()
    for a in F.doc['adts']:
        for v in a['variants']:
            for f in v['fields']:
                if f['name'] == 'pagesize':
                    ps.add((a['name'], f['name']))
    PLAIN_CALLS = {'into', 'from', 'try_into', 'try_from', 'unwrap', 'expect', 'clone', 'deref', 'borrow', 'get', 'as_ref', 'unwrap_or', 'branch', 'from_residual'}

    def plain_ps(du, operand):
        _, at = du.slice_operand(operand)
        if not any(a[0] == 'field' and a[1] and (last_seg(a[1]), a[2]) in ps for a in at):
            return False
        if any(a[0] == 'bin' for a in at):
            return False
        return all(last_seg(strip_generics(a[2])) in PLAIN_CALLS for a in at if a[0] == 'call')
    changed = True
    rounds = 0
    while changed and rounds < 5:
        changed = False
        rounds += 1
        for fn in F.fns:
            du = None
            for bb in fn.reachable_blocks():
                for si, st in enumerate(fn.blocks[bb]['stmts']):
                    if st['k'] != 'assign':
                        continue
                    rv = st['rv']
                    if rv['k'] == 'agg' and rv.get('ak') == 'adt' and rv.get('fields'):
                        for nme, o in zip(rv['fields'], rv['ops']):
                            key = (last_seg(rv['adt']), nme)
                            if key in ps or o['k'] == 'const':
                                continue
                            du = du or ctx.du(fn)
                            if plain_ps(du, o):
                                ps.add(key)
                                changed = True
                    fs = [e for e in st['p']['pr'] if e['k'] == 'field']
                    if fs and fs[-1].get('adt') and rv['k'] in ('use', 'cast'):
                        key = (last_seg(fs[-1]['adt']), fs[-1]['name'])
                        if key in ps or rv['op']['k'] == 'const':
                            continue
                        du = du or ctx.du(fn)
                        if plain_ps(du, rv['op']):
                            ps.add(key)
                            changed = True
    ctx._ps_fields = ps
    return ps


def no_pow2_arith(ctx, rule='C16.no-pow2-arith'):
    """the builder accepts page sizes that are not powers of two, so no mask / shift arithmetic may be applied to a page size"""
    res = []
    F = ctx.facts
    psf = pagesize_fields(ctx)
    ctx.stats['pagesize_fields'] = sorted('%s.%s' % k for k in psf)
    n = 0
    nbit = 0
    for fn in F.fns:
        du = None
        for bb in sorted(fn.reachable_blocks()):
            for si, s in enumerate(fn.blocks[bb]['stmts']):
                if s['k'] != 'assign':
                    continue
                rv = s['rv']
                if rv['k'] == 'bin' and rv['op'] in ('BitAnd', 'BitOr', 'BitXor', 'Shl', 'Shr', 'ShlUnchecked', 'ShrUnchecked'):
                    if rv.get('ty') not in ('u64', 'usize', 'u32'):
                        continue
                    if any(str(x).startswith('macro:') for x in s['span'].get('exp', [])):
                        pass
                    nbit += 1
                    du = du or ctx.du(fn)
                    fields = set()
                    ptrcheck = False
                    for o in (rv['a'], rv['b']):
                        _, at = du.slice_operand(o)
                        fields |= {(last_seg(a[1]), a[2]) for a in at if a[0] == 'field' and a[1] and (last_seg(a[1]), a[2]) in psf}
                        # rustc's debug-build alignment checks mask a pointer address (ptr-to-int transmute): not page-size arithmetic
                        if any(a[0] == 'cast' and a[1] in ('Transmute', 'PointerExposeProvenance') for a in at):
                            ptrcheck = True
                    if ptrcheck:
                        continue
                    if fields:
                        n += 1
                        res.append(bad(rule, '%s | %s on a page size' % (fn.qual, rv['op']),
                                       '%s applies `%s` to a value derived from the page size (%s) at %s: the builder accepts page sizes that are not powers of two (any multiple of 8 from 1024), '
                                       'for which mask / shift arithmetic gives wrong page counts or offsets' % (fn.qual, rv['op'], sorted('%s.%s' % f for f in fields), fn.loc(bb, si)),
                                       where=fn.loc(bb, si)))
    # calls whose argument must be a power of two (alignments), or that only make sense for one
    POW2_ARGS = {'from_size_align': [1], 'from_size_align_unchecked': [1], 'align_to': [1], 'align_offset': [1], 'next_multiple_of': [], 'trailing_zeros': [0],
                 'ilog2': [0], 'leading_zeros': [0], 'is_aligned_to': [1]}
    ncall = 0
    for fn in F.fns:
        du = None
        for bb in sorted(fn.reachable_blocks()):
            t = fn.term(bb)
            c = callee_of(t) if t['k'] == 'call' else None
            if not c or c['local']:
                continue
            name = last_seg(strip_generics(c['path']))
            if name not in POW2_ARGS or not ('alloc::Layout' in c['path'] or 'std::ptr' in c['path'] or 'core::num' in c['path'] or name in ('trailing_zeros', 'ilog2', 'leading_zeros')):
                continue
            ncall += 1
            du = du or ctx.du(fn)
            for ai in POW2_ARGS[name]:
                if ai >= len(t['args']):
                    continue
                _, at = du.slice_operand(t['args'][ai])
                fields = {(last_seg(a[1]), a[2]) for a in at if a[0] == 'field' and a[1] and (last_seg(a[1]), a[2]) in psf}
                if fields:
                    n += 1
                    res.append(bad(rule, '%s | %s of a page size' % (fn.qual, name),
                                   '%s passes a value derived from the page size (%s) to `%s` at %s, which needs a power of two: the builder accepts page sizes that are not powers '
                                   'of two, for which the call fails or gives a wrong result' % (fn.qual, sorted('%s.%s' % f for f in fields), strip_generics(c['path']), fn.loc(bb)),
                                   where=fn.loc(bb)))
    ctx.stats['pow2_calls_examined'] = ncall
    ctx.stats['bit_ops_examined'] = nbit
    f = floor(rule, 'positive control: bit operations on integers anywhere in the crate', nbit, 1) or floor(rule, 'positive control: calls taking an alignment (Layout::from_size_align)', ncall, 1)
    if f:
        res.append(f)
    if n == 0:
        res.append(ok(rule, 'none of the %d integer mask / shift operations in the crate is applied to a page size' % nbit, sites=nbit))
    return res


def remap_always(ctx, rule='C16.remap-always'):
    """after the file was grown and mapped, the shared map is replaced on EVERY successful path of the resize role"""
    res = []
    try:
        (rz,) = ctx.need('resize-role')
    except AnchorError as e:
        return [unresolved(rule, str(e))]
    fn = ctx.x(rz)
    E = ctx.E
    Ms = {bb for bb in fn.reachable_blocks() for si, s in enumerate(fn.blocks[bb]['stmts']) if any(e['ev'] == 'M' for e in E.classify_stmt(fn, bb, si, s))}
    if not Ms:
        return [floor(rule, 'store of the new map in the resize role', 0, 1)]
    import c03
    ok_rets = c03.ok_return_blocks(fn)
    reach = fn.reach_from([0], avoid=Ms)
    leak = [b for b in ok_rets if b in reach]
    if leak:
        res.append(bad(rule, '%s | successful return without replacing the shared map' % fn.qual,
                       '%s can return Ok at %s without storing the new map into the shared slot: the file has grown and the header will point beyond the map every later transaction on this '
                       'handle receives (index out of bounds on the next transaction)' % (fn.qual, fn.loc(leak[0])), where=fn.loc(leak[0])))
    else:
        res.append(ok(rule, 'every successful return of %s passes the store of the new map (%d returns)' % (fn.qual, len(ok_rets)), sites=len(ok_rets)))
    f = floor(rule, 'successful returns of the resize role', len(ok_rets), 1)
    if f:
        res.append(f)
    return res


def results_option_free(ctx, rule='C16.results-option-free'):
    """no call of the public API is refused because of an open option: wherever a value of the crate's error type is built outside open, header selection and the strict check,
    the branches that decide whether that block is reached do not depend on the page size or on a flag.  A limit that scales with the page size (`key.len() > pagesize / 4`) makes the
    same history succeed under one configuration and fail under another"""
    import c06
    res = []
    F = ctx.facts
    flags = {f['name'] for f in (F.adt_fields('DBFlags') or [])} | {f['name'] for f in (F.adt_fields('OpenOptions') or [])}
    exempt = set()
    for q in ('OpenOptions::open', 'DBInner::open', 'DBInner::meta', 'check-role'):
        g = ctx.A.get(q)
        if g is not None:
            exempt.add(g)
    exempt |= set(getattr(ctx.A, 'hdr_helpers', ()))
    ck = ctx.A.get('check-role')
    if ck is not None:
        exempt |= {g for g in F.reachable_fns([ck])}
    n = 0
    for fn in sorted(F.fns, key=lambda g: g.path):
        owner = (fn.owner or fn) if fn.kind == 'Closure' else fn
        if owner in exempt or (fn.self_adt and last_seg(fn.self_adt) == 'OpenOptions'):
            continue
        origins = {bb: v for bb, v in c06._error_origins(fn).items() if v not in ('Io', 'IO', 'IOError', 'ReadOnlyTx')}
        if not origins or any(m in ('derive',) for m in ()):
            continue
        if fn.trait:
            continue        # Display / From / PartialEq impls of the error type mention its variants without refusing anything
        du = ctx.du(fn)
        blocks = fn.reachable_blocks()
        for eb, variant in sorted(origins.items()):
            n += 1
            hit = None
            for sb in blocks:
                t = fn.term(sb)
                if t['k'] != 'switch':
                    continue
                succs = fn.succ(sb)
                reach = [eb in fn.reach_from([x]) for x in succs]
                if not any(reach) or all(reach):
                    continue
                locs, atoms = du.slice_operand(t['discr'])
                dep = sorted({a[2] for a in atoms if a[0] in ('field', 'load') and (a[2] == 'pagesize' or (a[1] and last_seg(a[1]) in ('DBFlags', 'OpenOptions') and a[2] in flags))}
                             | {last_seg(strip_generics(a[2])) for a in atoms if a[0] == 'call' and last_seg(strip_generics(a[2])) in ('pagesize', 'page_size')})
                if dep:
                    hit = (sb, dep)
                    break
            if hit:
                res.append(bad(rule, '%s | Error::%s decided by %s' % (fn.qual, variant, ','.join(hit[1])),
                               'whether %s returns Error::%s (built at %s) is decided by a test of %s at %s: the same call succeeds under one configuration and fails under another'
                               % (fn.qual, variant, fn.loc(eb), ', '.join(hit[1]), fn.loc(hit[0])), where=fn.loc(hit[0])))
    f = floor(rule, 'error constructions outside open / header selection / strict check', n, 8)
    if f:
        res.append(f)
    if not any(not r.ok for r in res):
        res.append(ok(rule, 'none of the %d error constructions outside open, header selection and the strict check is decided by the page size or a flag' % n, sites=n))
    return res


def block_extent(ctx, rule='C16.block-extent'):
    """the bytes a transaction buffers for an allocated block (and later writes at the block's offset) are the bytes that were asked for, or the whole block
    (`pages * pagesize`): never a length rounded to some other unit.  The block was sized by dividing the request by the page size; a length rounded up to 512-byte sectors
    still fits when the page size is a multiple of 512 and spills into the next page's header when it is 1032, 3000 or 5000"""
    res = []
    F = ctx.facts
    try:
        (txalloc,) = ctx.need('tx-alloc-role')
    except AnchorError as e:
        return [unresolved(rule, str(e))]
    X = ctx.A.xf(txalloc)
    du = ctx.du(X)
    n = 0

    def fine(e):
        if e[0] == 'arg':
            return True
        if e[0] == 'un' and e[1] in ('cast', 'Cast'):
            return fine(e[2])
        if e[0] == 'bin' and e[1].startswith('Mul'):
            return _tree_has(e, lambda x: x[0] == 'field' and x[2] and x[2][-1] == 'pagesize')
        if e[0] == 'call' and last_seg(strip_generics(e[1])) in ('from', 'into', 'try_into', 'unwrap', 'try_from', 'expect', 'unwrap_or_default') and e[2]:
            return fine(e[2][0])
        return False

    for bb in sorted(X.reachable_blocks()):
        t = X.term(bb)
        c = callee_of(t) if t['k'] == 'call' else None
        exprs = []
        if c and strip_generics(c['path']).endswith('Layout::from_size_align') and t['args']:
            exprs.append(('arena layout', du.sym(t['args'][0])))
        if c and last_seg(strip_generics(c['path'])) == 'insert' and len(t['args']) == 3 and has_field(du.slice_operand(t['args'][0])[1], 'TxFreelist', 'pages'):
            # the value recorded for the block: a `(ptr, len)` tuple or a small struct; its usize component is the length the commit will write
            vl = op_local(t['args'][2])
            for b2 in X.reachable_blocks():
                for st in X.blocks[b2]['stmts']:
                    if st['k'] == 'assign' and st['p']['l'] == vl and not st['p']['pr'] and st['rv']['k'] == 'agg':
                        for o in st['rv']['ops']:
                            ol = op_local(o)
                            if (ol is not None and X.locals[ol]['ty'] == 'usize') or (o.get('k') == 'const' and o.get('c', {}).get('ty') == 'usize'):
                                exprs.append(('recorded length', du.sym(o)))
        for what, e in exprs:
            n += 1
            if fine(e):
                res.append(ok(rule, '%s at %s is the requested length (or whole pages)' % (what, X.loc(bb)), sites=1))
            else:
                res.append(bad(rule, '%s | %s is %s' % (txalloc.qual, what, _fmt(e)[:80]),
                               'the %s of an allocated block at %s is `%s`, neither the requested byte count nor a whole number of pages: for page sizes that are no multiple of the '
                               'rounding unit the buffered block is longer than the pages reserved for it, and the commit writes over the page behind it' % (what, X.loc(bb), _fmt(e)[:160]),
                               where=X.loc(bb)))
    f = floor(rule, 'lengths of buffered blocks in the allocation wrapper', n, 2)
    if f:
        res.append(f)
    return res


def flags_flow(ctx, rule='C16.flags-flow'):
    """sibling call sites must agree on which option feeds a boolean parameter (an option wired to another option's parameter changes
    behaviour under that option only)"""
    res = []
    F = ctx.facts
    flags = [f['name'] for f in (F.adt_fields('DBFlags') or []) if f['ty'] == 'bool']
    if not flags:
        return [unresolved(rule, 'type DBFlags')]
    # sources[(fn path, param idx)] = set of DBFlags fields reaching that bool parameter
    sources = {}
    sites = {}
    changed = True
    rounds = 0
    while changed and rounds < 10:
        changed = False
        rounds += 1
        for fn in F.fns:
            du = None
            for bb, t, target, c in F.call_sites(fn):
                if target is None:
                    continue
                for i, a in enumerate(t['args']):
                    if i + 1 > target.argc or target.locals[i + 1]['ty'] != 'bool':
                        continue
                    du = du or ctx.du(fn)
                    _, atoms = du.slice_operand(a)
                    src = {x[2] for x in atoms if x[0] == 'field' and x[1] and last_seg(x[1]) in ('DBFlags', 'OpenOptions') and x[2] in flags}
                    for x in atoms:
                        if x[0] == 'arg' and (fn.path, x[1]) in sources and fn.locals[x[1]]['ty'] == 'bool':
                            src |= sources[(fn.path, x[1])]
                    key = (target.path, i + 1)
                    if src - sources.get(key, set()):
                        sources.setdefault(key, set()).update(src)
                        changed = True
                    if src:
                        sites.setdefault(key, []).append((fn, bb, sorted(src)))
    n = 0
    for (path, idx), srcs in sorted(sources.items()):
        n += 1
        g = F.by_path[path]
        if len(srcs) > 1:
            where = sites[(path, idx)][0]
            res.append(bad(rule, '%s | parameter %s fed by different options (%s)' % (g.qual, g.local_name(idx), ','.join(sorted(srcs))),
                           'the boolean parameter `%s` of %s receives different open options at different call sites (%s): one option is wired to another option\'s switch, so behaviour '
                           'changes under that option (call sites: %s)' % (g.local_name(idx), g.qual, sorted(srcs), ['%s@%s<-%s' % (f.qual, f.loc(b), s2) for f, b, s2 in sites[(path, idx)]][:4]),
                           where=where[0].loc(where[1])))
        else:
            res.append(ok(rule, 'parameter `%s` of %s is fed by option %s at all %d call sites' % (g.local_name(idx), g.qual, sorted(srcs), len(sites[(path, idx)])), sites=len(sites[(path, idx)])))
    f = floor(rule, 'boolean parameters fed by an open option', n, 2)
    if f:
        res.append(f)
    return res


def pagesize_limits(ctx, rule='C16.pagesize-limits'):
    """the only limits on the page size are the ones the builder states (a minimum, a multiple of 8): nowhere else is a page size compared with a constant.  A "plausibility"
    bound in the header validation or an assumed maximum turns a configuration the builder accepts into files that cannot be opened, or into different behaviour above it"""
    res = []
    F = ctx.facts

    def is_ps(e):
        while e[0] == 'un' or (e[0] == 'call' and len(e[2]) == 1 and last_seg(strip_generics(e[1])) in ('deref', 'clone', 'from', 'into')):
            e = e[2] if e[0] == 'un' else e[2][0]
        return e[0] == 'field' and e[2] and e[2][-1] in ('pagesize', 'page_size')

    def is_const(e):
        if e[0] == 'const':
            return isinstance(e[1], int) and e[1] > 8 and e[1] != 1024      # (1024 and 8 are the builder's own limits: restating them elsewhere changes nothing)
        if e[0] == 'bin' and e[1] in ('Mul', 'Shl', 'Add'):
            return is_const(e[2]) or is_const(e[3]) and e[2][0] == 'const' and e[3][0] == 'const'
        return False
    n = 0
    for fn in sorted(F.fns, key=lambda g: g.path):
        owner = (fn.owner or fn) if fn.kind == 'Closure' else fn
        if owner.self_adt and last_seg(owner.self_adt) == 'OpenOptions':
            continue
        du = None
        for bb in sorted(fn.reachable_blocks()):
            for si, st in enumerate(fn.blocks[bb]['stmts']):
                if st['k'] != 'assign' or st['rv']['k'] != 'bin' or st['rv']['op'] not in ('Lt', 'Le', 'Gt', 'Ge'):
                    continue
                if st.get('span') and in_dbg(st['span']):
                    continue
                du = du or ctx.du(fn)
                a, b = du.sym(st['rv']['a']), du.sym(st['rv']['b'])
                if (is_ps(a) and is_const(b)) or (is_ps(b) and is_const(a)):
                    n += 1
                    res.append(bad(rule, '%s | page size compared with a constant' % fn.qual,
                                   '%s compares a page size with the constant %s at %s: the builder accepts every multiple of 8 from 1024 up, so a bound stated anywhere else '
                                   'makes some accepted configuration behave differently (a header that no longer validates, a path that is never taken)'
                                   % (fn.qual, _fmt(b if is_ps(a) else a), fn.loc(bb, si)), where=fn.loc(bb, si)))
            t = fn.term(bb)
            c = callee_of(t) if t['k'] == 'call' else None
            if c and last_seg(strip_generics(c['path'])) == 'contains' and 'ops::Range' in c['path'] and len(t['args']) == 2:
                du = du or ctx.du(fn)
                if is_ps(du.sym(t['args'][1])):
                    n += 1
                    res.append(bad(rule, '%s | page size tested against a constant range' % fn.qual,
                                   '%s tests a page size against a range at %s: the builder accepts every multiple of 8 from 1024 up, a range stated anywhere else rejects or '
                                   'special-cases configurations the builder accepts' % (fn.qual, fn.loc(bb)), where=fn.loc(bb)))
    if not n:
        res.append(ok(rule, 'no page size is compared with a constant outside the builder', sites=1))
    return res


def in_dbg(span):
    from util import in_debug_assert
    return in_debug_assert(span)


def count_check_refusals(ctx):
    import c06
    F = ctx.facts
    ck = ctx.A.get('check-role')
    sites = {}
    if ck is None:
        return dict(total=0, sites={})
    for g in F.reachable_fns([ck]):
        for bb, v in c06._error_origins(g).items():
            if v not in ('Io', 'IO'):
                k = 'Error::%s in %s' % (v, g.qual)
                sites[k] = sites.get(k, 0) + 1
    return dict(total=sum(sites.values()), sites=sites)


def check_refusals(ctx, rule='C16.check-refusals'):
    """strict mode runs the built-in check inside every commit, so whatever the check refuses, a strict-mode commit refuses and a non-strict one accepts: the check may
    refuse only what is really malformed.  Its refusal sites are counted against the pinned tree; a new one (a "branch page with a single child" test -- the merge pass
    legitimately leaves such pages) makes strict mode reject histories that are fine"""
    import json, os, c15
    res = []
    if not os.path.exists(c15.PINNED):
        return [unresolved(rule, 'format_pinned.json')]
    pin = json.load(open(c15.PINNED)).get('check_refusals')
    if pin is None:
        return [unresolved(rule, 'check_refusals in format_pinned.json')]
    cur = count_check_refusals(ctx)
    f = floor(rule, 'refusal sites of the built-in check', cur['total'], 1)
    if f:
        res.append(f)
    if cur['total'] > pin['total']:
        new = sorted(k for k, v in cur['sites'].items() if v > pin['sites'].get(k, 0))
        res.append(bad(rule, 'check | more refusal sites than the pinned tree (%d > %d)' % (cur['total'], pin['total']),
                       'the built-in consistency check can refuse a database at %d sites, the pinned tree at %d (new or grown: %s): what it newly refuses, a strict-mode commit '
                       'rejects and a non-strict commit accepts' % (cur['total'], pin['total'], ', '.join(new) or '-')))
    else:
        res.append(ok(rule, 'the built-in check refuses at %d sites, the pinned tree at %d' % (cur['total'], pin['total']), sites=cur['total']))
    return res


def thresholds(ctx, rule='C16.thresholds'):
    """split / merge decisions are relative to the configured page size, not to a constant"""
    res = []
    F = ctx.facts
    n = 0
    for fn in F.fns:
        if not (fn.self_adt and last_seg(fn.self_adt) == 'Node') or fn.kind == 'Closure':
            continue
        du = None
        for bb in sorted(fn.reachable_blocks()):
            for si, s in enumerate(fn.blocks[bb]['stmts']):
                if s['k'] != 'assign' or s['rv']['k'] != 'bin' or s['rv']['op'] not in ('Lt', 'Le', 'Gt', 'Ge'):
                    continue
                du = du or ctx.du(fn)
                _, aa = du.slice_operand(s['rv']['a'])
                _, ab = du.slice_operand(s['rv']['b'])
                sized = [x for x in (aa, ab) if any(y[0] == 'call' and y[2] in F.by_path and F.by_path[y[2]].name == 'size' for y in x)]
                if not sized:
                    continue
                other = ab if sized[0] is aa else aa
                n += 1
                if has_field(other, 'Node', 'pagesize') or has_field(aa | ab, 'Node', 'pagesize'):
                    res.append(ok(rule, 'node size compared with a threshold derived from the page size at %s' % fn.loc(bb, si), sites=1))
                else:
                    res.append(bad(rule, '%s | node size compared with a constant' % fn.qual,
                                   '%s compares the serialised node size at %s with a value that does not depend on the configured page size: split / merge behaviour would differ between page sizes '
                                   '(nodes overflow their page at small sizes, or never split at large ones)' % (fn.qual, fn.loc(bb, si)), where=fn.loc(bb, si)))
    f = floor(rule, 'comparisons of a node size with a threshold', n, 2)
    if f:
        res.append(f)
    return res


def run(ctx, tier):
    ob = commit.obligations(ctx)
    results = []
    results += align_guard(ctx)
    results += ob['O6']
    results += strict_guard(ctx)
    results += check_counts_runs(ctx)
    results += map_whole_file(ctx)
    import c08
    results += c08.iterator_overrides(ctx, rule='C16.iterator-overrides')
    results += grow(ctx)
    results += no_pow2_arith(ctx)
    results += remap_always(ctx)
    results += flags_flow(ctx)
    import c05
    results += results_option_free(ctx)
    results += block_extent(ctx)
    results += commit.complete_writes(ctx, rule='C16.complete-writes')
    results += c05.freelist_is_set(ctx, rule='C16.freelist-set')
    results += c05.freelist_order(ctx, rule='C16.freelist-order')
    import c15
    results += c15.open_refusals(ctx, rule='C16.open-refusals')
    import c05
    # a run freed or sized with the wrong length loses pages only where values overflow a page, i.e. depending on the page size (and strict mode then rejects what non-strict accepts)
    results += c05.run_length(ctx, rule='C16.run-length')
    results += thresholds(ctx)
    results += pagesize_limits(ctx)
    results += check_refusals(ctx)
    results += c05.no_narrowing(ctx, rule='C16.no-narrowing')
    import c01
    results += c01.root_loaded(ctx, rule='C16.root-loaded')
    import c02
    results += c02.reload_rule(ctx, rule='C16.reload')
    import c06, c09
    results += c06.open_existing(ctx, rule='C16.open-existing')
    results += c09.writer_reads_after_lock(ctx, rule='C16.snapshot-after-lock')
    return dict(
        results=results, stats=dict(ctx.stats),
        explanation=(
            'Equality of results across the configuration product is a run-time comparison and is NOT decided. Decided: (pagesize-limits) no page size compared with a constant outside the builder; (check-refusals) the built-in check refuses at no more sites than pinned. (block-extent) buffered block lengths are the request or whole pages; (complete-writes) examined write counts sit in a loop; (grow g) the growth decision looks at the mapped length. (results-option-free) no crate error outside open / header selection / strict check is control-dependent on the page size or a flag; (open-refusals) refusal sites of open do not grow; (run-length) page runs are overflow + 1; (align-guard) the crate views bytes at id*pagesize as Page '
            '(counted), therefore every public store of a caller-supplied page size is dominated by a divisibility test against the alignment of Page whose failing edge does not return '
            '("every value the builder accepts must work or be refused cleanly"); (O6) the strict-mode check runs after all data writes, growth and remap and before the header write, '
            'only under the strict_mode flag; (grow) the growth decision compares the file length with num_pages*pagesize after the final high-water mark is known, the new size derives '
            'from both, and the transaction\'s Pages are replaced from the new map behind the success edge; (no-pow2-arith) no mask / shift arithmetic is applied to a page size and no page size is used as an alignment (the builder accepts non-powers of two); (reload) the persisted free list is loaded in full, not cut to a page-size dependent length. (check-counts-runs) the built-in check accounts for overflow pages independently of the page kind; (map-whole-file) an explicit map length is always the file\'s own length.'),
        assumptions=['the OS page size used by the default options is a multiple of 8'])
