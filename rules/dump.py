#!/usr/bin/env python3
"""debug helper: pretty-print the exported MIR of functions whose path contains a substring"""
import json, sys
def P(p):
    s='_%d'%p['l']
    for e in p['pr']:
        k=e['k']
        if k=='deref': s='(*%s)'%s
        elif k=='field': s='%s.%s'%(s,e['name'])
        elif k=='downcast': s='(%s as %s)'%(s,e['variant'])
        elif k=='index': s='%s[_%d]'%(s,e['l'])
        else: s='%s.<%s>'%(s,k)
    return s
def O(o):
    if o['k'] in('copy','move'): return ('move ' if o['k']=='move' else '')+P(o['p'])
    if o['k']=='const':
        c=o['c']
        if 'fn' in c: return 'fn:'+c['fn']['full']
        return 'const %s'%(c.get('val',c.get('s')))
    return str(o)
def R(r):
    k=r['k']
    if k=='use': return O(r['op'])
    if k=='ref': return ('&mut ' if r['mut'] else '&')+P(r['p'])
    if k=='rawptr': return ('&raw mut ' if r['mut'] else '&raw const ')+P(r['p'])
    if k=='cast': return '%s as %s (%s)'%(O(r['op']),r['to'],r['ck'])
    if k=='bin': return '%s(%s, %s)'%(r['op'],O(r['a']),O(r['b']))
    if k=='un': return '%s(%s)'%(r['op'],O(r['a']))
    if k=='discr': return 'discriminant(%s)'%P(r['p'])
    if k=='agg':
        if r['ak']=='adt': return '%s::%s{%s}'%(r['adt'],r['variant'],', '.join('%s: %s'%(n,O(o)) for n,o in zip(r['fields'],r['ops'])))
        return '%s(%s)'%(r['ak']+(':'+r.get('closure','') if r['ak']=='closure' else ''),', '.join(O(o) for o in r['ops']))
    return str(r)
def dump(f):
    print('fn',f['path'],'argc',f['argc'])
    for i,l in enumerate(f['locals']):
        print('   let _%d: %s%s'%(i,l['ty'],'  // '+l['name'] if l['name'] else ''))
    for i,b in enumerate(f['blocks']):
        print(' bb%d%s:'%(i,' (cleanup)' if b['cleanup'] else ''))
        for s in b['stmts']:
            if s['k']=='assign': print('    %s = %s   // %d %s'%(P(s['p']),R(s['rv']),s['span']['line'],s['span'].get('exp','')))
            else: print('    ',s['k'],s.get('s',''))
        t=b['term']; k=t['k']
        if k=='call': print('    %s = %s(%s) -> bb%s unwind %s  // %d %s'%(P(t['dest']),O(t['func']),', '.join(O(a) for a in t['args']),t['target'],t['unwind'],t['span']['line'],t['span'].get('exp','')))
        elif k=='switch': print('    switch %s [%s otherwise bb%d]'%(O(t['discr']),', '.join('%d:bb%d'%(v,b) for v,b in t['targets']),t['otherwise']))
        elif k=='drop': print('    drop(%s) -> bb%d unwind %s'%(P(t['p']),t['target'],t['unwind']))
        elif k=='assert': print('    assert(%s == %s, %s) -> bb%d // %d'%(O(t['cond']),t['expected'],t['msg'],t['target'],t['span']['line']))
        elif k=='goto': print('    goto bb%d'%t['target'])
        else: print('    ',k)
if __name__=='__main__':
    d=json.load(open(sys.argv[1]))
    for f in d['fns']:
        if sys.argv[2] in f['path']: dump(f)
