"""C06 Uncommitted and failed work leaves no trace (effect discipline)"""
from core import ok, bad, unresolved, floor
from anchors import AnchorError
from facts import callee_of, op_local, op_place, op_const_val, last_seg, strip_generics
from effects import fn_effects, fn_effect_sites
from guards import writable_tests, writer_only_blocks, resolve_bool, _field_bit
from reach import reach_specialised, const_args
from util import calls_named, aggregates_of, has_call
import commit

LOGICAL = {('Node', 'data'), ('Node', 'deleted'), ('InnerBucket', 'meta'), ('InnerBucket', 'deleted'), ('InnerBucket', 'dirty'),
           ('Freelist', 'free_pages'), ('Freelist', 'pending_pages'), ('TxFreelist', 'pages'), ('TxFreelist', 'meta'),
           ('TxFreelist', 'arena'), ('TxFreelist', 'inner')}
# caches, excluded with one line of reason each
CACHES = {
    ('InnerBucket', 'page_parents'): 'search bookkeeping: parent links of visited pages, rebuilt on demand',
    ('InnerBucket', 'page_node_ids'): 'page -> node index of materialised pages (cache of `nodes`)',
    ('InnerBucket', 'nodes'): 'materialised copies of pages; contents are checked through Node.data',
    ('InnerBucket', 'buckets'): 'opened child bucket handles',
    ('Node', 'children'): 'materialised child links', ('Node', 'parent'): 'materialised parent link',
    ('Node', 'original_key'): 'key under which the parent knows the node',
}
READ_HOW = {'next', 'iter', 'get', 'len', 'deref', 'as_ref', 'borrow', 'is_empty', 'contains_key', 'contains', 'first', 'last', 'binary_search_by_key',
            'binary_search', 'binary_search_by', 'index', 'clone', 'to_vec', 'keys', 'values', 'into_iter', 'by_ref', 'fold', 'iter_mut', 'get_mut', 'deref_mut',
            'index_mut', 'borrow_mut', 'as_mut', 'for_each', 'map', 'position', 'enumerate', 'zip', 'rev', 'cloned'}
CARRIERS = ('Tx', 'Bucket', 'Cursor', 'Range', 'Buckets', 'KVPairs')


def primitives(ctx):
    """{Fn: {block: set(descriptions)}} blocks that directly mutate a logical-state field (closures folded into their creator)"""
    if hasattr(ctx, '_prims'):
        return ctx._prims
    F = ctx.facts
    prims = {}
    for f in F.fns:
        if f.kind == 'Closure':
            continue
        hits = {}
        for (bb, adt, field, how) in fn_effect_sites(F, f):
            if not adt or adt.startswith('$'):
                continue
            k = (last_seg(adt), field)
            if k in LOGICAL and how not in READ_HOW:
                hits.setdefault(bb, set()).add('%s.%s:%s' % (k[0], k[1], how))
        if hits:
            prims[f] = hits
    ctx._prims = prims
    return prims


def prim_hit(prims, live):
    """first primitive whose mutating blocks are live: live = {Fn: set(blocks)}"""
    for g, blocks in live.items():
        if g in prims and (set(prims[g]) & blocks):
            return g
    return None


def file_effects(ctx, rule='C06.O7'):
    res = []
    F = ctx.facts
    E = ctx.E
    try:
        cm, op = ctx.need('Tx::commit', 'OpenOptions::open')
    except AnchorError as e:
        return [unresolved(rule, str(e))]
    # functions that directly contain a file-mutating event
    direct = {}
    for f in F.fns:
        evs = set()
        for bb in f.reachable_blocks():
            for si, s in enumerate(f.blocks[bb]['stmts']):
                for e in E.classify_stmt(f, bb, si, s):
                    if e['ev'] == 'M':
                        evs.add('M')
            t = f.term(bb)
            if t['k'] in ('call', 'tailcall'):
                for e in E.classify(f, bb, t, callee_of(t), None):
                    if e['ev'] in ('W', 'G'):
                        evs.add(e['ev'])
        if evs:
            direct[f] = evs
    ctx.stats['file_effect_fns'] = sorted('%s:%s' % (f.qual, ''.join(sorted(v))) for f, v in direct.items())
    f = floor(rule, 'functions containing file writes / growth / remap', len(direct), 3)
    if f:
        res.append(f)
    allowed = {cm, op, F.fn('DB::open')}
    cg = F.callgraph()
    nentries = 0
    for e in F.fns:
        if e.kind == 'Closure':
            continue
        is_entry = e.eff_pub or (e.trait and last_seg(e.trait) == 'Drop')
        if not is_entry:
            continue
        nentries += 1
        if e in allowed:
            reach = F.reachable_fns([e])
        else:
            # a public function that gets to the file only by calling the public commit / open is a composition of the API, not a new way to the file
            reach, todo = {e}, [e]
            while todo:
                x = todo.pop()
                for y in cg.get(x, ()):
                    if y not in reach and y is not cm and y is not op:
                        reach.add(y)
                        todo.append(y)
        hit = [g for g in reach if g in direct]
        if hit and e not in allowed:
            g = hit[0]
            res.append(bad(rule, '%s | reaches file effect %s in %s' % (e.qual, ''.join(sorted(direct[g])), g.qual),
                           'public entry point %s can reach a file write / growth / remap (%s in %s): only Tx::commit and the creation branch of OpenOptions::open may touch the file, '
                           'so that dropping a transaction, reading, or opening an existing database leave its bytes unchanged' % (e.qual, sorted(direct[g]), g.qual),
                           where='%s:%d' % (e.file, e.line)))
        # M may only be reached from commit
        if e is op or e is F.fn('DB::open'):
            for g in hit:
                if 'M' in direct[g]:
                    res.append(bad(rule, '%s | open remaps' % e.qual, 'open reaches a replacement of the shared map in %s' % g.qual, where='%s:%d' % (g.file, g.line)))
    ctx.stats['public_entries'] = nentries
    f = floor(rule, 'public entry points and Drop impls examined', nentries, 40)
    if f:
        res.append(f)
    if not any(not r.ok for r in res):
        res.append(ok(rule, 'file writes / growth / remap (%d functions) are reachable only from Tx::commit and OpenOptions::open among %d public entries and Drop impls' % (len(direct), nentries), sites=nentries))
    return res


def commit_on_success_only(ctx, rule='C06.commit-on-success'):
    """wherever the crate itself commits a transaction on the caller's behalf (a convenience wrapper around begin / work / commit), the commit is behind the success
    of every fallible step that precedes it in that function: a Result produced earlier and not yet examined when commit is called means failed work is committed"""
    res = []
    F = ctx.facts
    try:
        (cm,) = ctx.need('Tx::commit')
    except AnchorError as e:
        return [unresolved(rule, str(e))]
    n = 0
    for g in sorted(F.fns, key=lambda f: f.path):
        if g is cm:
            continue
        sites = calls_to_fn_(F, g, cm)
        if not sites:
            continue
        du = ctx.du(g)
        for cb, ct, cc in sites:
            n += 1
            pending = []
            for pb in sorted(g.reachable_blocks()):
                pt = g.term(pb)
                if pt['k'] != 'call' or pb == cb or not g.dominates(pb, cb):
                    continue
                dl = pt['dest']['l']
                if pt['dest']['pr'] or not g.locals[dl]['ty'].startswith('std::result::Result<'):
                    continue
                tested = False
                for sb in g.reachable_blocks():
                    st = g.term(sb)
                    if st['k'] != 'switch' or not (g.dominates(pb, sb) and g.dominates(sb, cb)):
                        continue
                    locs, _ = du.slice_operand(st['discr'])
                    if dl in locs:
                        tested = True
                        break
                if not tested:
                    pc = callee_of(pt)
                    pending.append((g.loc(pb), strip_generics(pc['path']) if pc else '?'))
            if pending:
                res.append(bad(rule, '%s | commits with an unexamined result pending' % g.qual,
                               '%s calls Tx::commit at %s while the Result of %s (%s) has not been examined: if that step failed, its partial work is committed all the same'
                               % (g.qual, g.loc(cb), pending[0][1], pending[0][0]), where=g.loc(cb)))
            else:
                res.append(ok(rule, '%s commits at %s only behind the success of the fallible steps before it' % (g.qual, g.loc(cb)), sites=1))
    if n == 0:
        res.append(ok(rule, 'no function of the crate commits a transaction on the caller\'s behalf', sites=0))
    return res


def calls_to_fn_(F, g, target):
    from util import calls_to_fn
    return calls_to_fn(F, g, target)


def _closure_substitute(F, ctx, lf, latoms):
    """does the value sliced by `latoms` in lf pass through a std combinator whose closure argument (a closure of lf) calls a crate function that produces a File without
    a literal flag under which it is created exclusively?"""
    combs = [a for a in latoms if a[0] == 'call' and a[2] not in F.by_path and any(
        '{closure@' in lf.locals[op_local(x)]['ty'] for x in lf.term(a[1]).get('args', []) if op_local(x) is not None)]
    if not combs:
        return False
    for cl in F.fns:
        if cl.kind != 'Closure' or cl.owner is not lf:
            continue
        for bb, t, target, c in F.call_sites(cl):
            if target is None or 'std::fs::File' not in target.locals[0]['ty']:
                continue
            if not any(v and _creates_new_under(F, ctx, target, p, v) for p, v in const_args(target, t, cl).items()):
                return True
    return False


def created_exclusively(ctx, fn, operand, callers):
    """name of the local open helper that produced the file with a literal `true` for a flag under which it applies create_new(true) -- looked for in the slice of the
    operand in fn and, through fn's parameters, in the callers on the trace context (`write_fully(&mut file, buf)`); None otherwise"""
    F = ctx.facts
    level = [(fn, operand, list(callers))]
    for _ in range(5):
        nxt = []
        for (lf, lop, lctx) in level:
            _, latoms = ctx.du(lf).slice_operand(lop)
            for a in latoms:
                if a[0] == 'call' and a[2] in F.by_path:
                    g = F.by_path[a[2]]
                    for p, v in const_args(g, lf.term(a[1]), lf).items():
                        if v and _creates_new_under(F, ctx, g, p, v):
                            # ... unless a combinator on the way (`.or_else(|_| open_file(path, false))`) can substitute a file opened another way
                            if _closure_substitute(F, ctx, lf, latoms):
                                return None
                            return g.qual
                if a[0] == 'arg' and lctx:
                    cfn, cbb = lctx[-1][0], lctx[-1][1]
                    cargs = cfn.term(cbb).get('args')
                    if cargs is None:
                        continue        # the frame is drop glue (a destructor inlined at a `drop`): nothing is passed in
                    if 1 <= a[1] <= len(cargs):
                        nxt.append((cfn, cargs[a[1] - 1], lctx[:-1]))
        level = nxt
        if not level:
            break
    return None


def open_existing(ctx, rule='C06.open-existing'):
    res = []
    F = ctx.facts
    try:
        (op,) = ctx.need('OpenOptions::open')
    except AnchorError as e:
        return [unresolved(rule, str(e))]
    T = ctx.trace(op)
    evs = [e for e in T.events('W', 'G') if not e.get('summary')]
    f = floor(rule, 'file writes / growth in the trace of OpenOptions::open', len(evs), 2)
    if f:
        res.append(f)
    for e in evs:
        n = T.nodes[e['node']]
        fn, bb = n.fn, n.bb
        du = ctx.du(fn)
        t = fn.term(bb)
        locs, atoms = du.slice_operand(t['args'][0])
        fresh = False
        why = ''
        # form 1: the file comes from a local open helper called with a literal `true` for its create flag, and that helper applies create_new(true) under the flag
        # (looked for in the function of the event and, through its parameters, in the callers on the trace context: `write_fully(&mut file, buf)`)
        who = created_exclusively(ctx, fn, t['args'][0], list(n.ctx))
        if who:
            fresh = True
            why = 'file obtained from %s(.., true, ..) which applies create_new(true)' % who
        # form 2: control dependent on a comparison of the file length with zero, taken AFTER the exclusive file lock
        # (an emptiness test before the lock is a race: another opener may be initialising the same empty file)
        locked = e['node'] not in T.reach({T.nodes[0].id}, avoid={x['ok_node'] for x in T.events('L') if x.get('method') == 'lock_exclusive' and 'ok_node' in x})
        if not fresh and locked:
            for (a, s) in fn.control_deps_transitive(bb):
                at = fn.term(a)
                if at['k'] == 'switch':
                    if _is_len_zero_test(fn, du, at['discr']):
                        fresh = True
                        why = 'guarded by a test of the file length against zero'
            # the event sits in a callee: look at the call chain in the trace
            if not fresh:
                for (cfn, cbb, tgt) in n.ctx:
                    cdu = ctx.du(cfn)
                    for (a, s) in cfn.control_deps_transitive(cbb):
                        at = cfn.term(a)
                        if at['k'] == 'switch':
                            if _is_len_zero_test(cfn, cdu, at['discr']):
                                fresh = True
                                why = 'caller guards it by a test of the file length against zero'
        if fresh:
            res.append(ok(rule, '%s at %s only touches a fresh file (%s)' % (e['ev'], e['loc'], why), sites=1))
        else:
            res.append(bad(rule, '%s | %s on a file not known to be fresh' % (fn.qual, e['ev']),
                           'the %s at %s (reached from OpenOptions::open) is not restricted to a file that was just created (create_new) or is empty: opening an existing database could modify it'
                           % (e['ev'], e['loc']), where=e['loc']))
    # zero-expected: nothing truncates or unconditionally creates
    nopt = 0
    for fn in F.fns:
        for bb, t, c in calls_named(F, fn, 'OpenOptions::truncate', 'File::create'):
            nopt += 1
            v = op_const_val(t['args'][1]) if len(t['args']) > 1 else 1
            if v != 0:
                res.append(bad(rule, '%s | %s' % (fn.qual, last_seg(strip_generics(c['path']))),
                               '%s calls %s at %s: an existing database file could be truncated or silently re-created' % (fn.qual, strip_generics(c['path']), fn.loc(bb)), where=fn.loc(bb)))
    return res


def _is_len_zero_test(fn, du, discr):
    """is the switch discriminant exactly `file_len == 0` / `!= 0` (no arithmetic on the length)?"""
    l = op_local(discr)
    if l is None:
        return False
    ds = du.defs.get(l, [])
    if len(ds) != 1 or ds[0][1] is None:
        return False
    s = fn.blocks[ds[0][0]]['stmts'][ds[0][1]]
    rv = s['rv']
    if rv['k'] != 'bin' or rv['op'] not in ('Eq', 'Ne'):
        return False
    for a, b in ((rv['a'], rv['b']), (rv['b'], rv['a'])):
        if op_const_val(b) == 0 and op_local(a) is not None:
            r = du.root_of(op_local(a), through_calls=False)
            dd = du.defs.get(r, [])
            if len(dd) == 1 and dd[0][1] is None:
                c = callee_of(fn.term(dd[0][0]))
                if c and c['path'] == 'std::fs::Metadata::len':
                    return True
    return False


def _creates_new_under(F, ctx, g, p, v=True):
    """does local function g call OpenOptions::create_new(true) exactly when its mode parameter p has the value v (a bool, or ('v', i) for the i-th variant of a
    unit-like enum such as `FileMode::Create`)?"""
    from reach import pruned_blocks
    if v is False:
        return False
    on = pruned_blocks(g, {p: v}, F)
    others = []
    if isinstance(v, bool):
        others = [not v]
    else:
        adt = F.adt(last_seg(strip_generics(g.locals[p]['ty'])))
        if not adt:
            return False
        others = [('v', x['vi']) for x in adt['variants'] if x['vi'] != v[1]]
    off = set()
    for o in others:
        off |= set(pruned_blocks(g, {p: o}, F))
    found = False
    for gg in [g] + [h for h in F.reachable_fns([g]) if h is not g and h.kind == 'Fn' and len(h.blocks) < 60]:
        if gg is not g:
            continue
        for bb, t, c in calls_named(F, gg, 'OpenOptions::create_new'):
            if len(t['args']) > 1 and op_const_val(t['args'][1]) == 1 and bb in on and bb not in off:
                found = True
    return found


def shared_freelist(ctx, rule='C06.shared-freelist'):
    res = []
    F = ctx.facts
    E = ctx.E
    try:
        dbopen, cm = ctx.need('DBInner::open', 'Tx::commit')
    except AnchorError as e:
        return [unresolved(rule, str(e))]
    commit_fns = F.reachable_fns([cm])
    n = 0
    for f in F.fns:
        for bb in f.reachable_blocks():
            evs = []
            for si, s in enumerate(f.blocks[bb]['stmts']):
                evs += E.classify_stmt(f, bb, si, s)
            t = f.term(bb)
            if t['k'] in ('call', 'tailcall'):
                evs += E.classify(f, bb, t, callee_of(t), None)
            for e in evs:
                if e['ev'] == 'P' or (e['ev'] == 'R' and e.get('shared_ptr')):
                    n += 1
                    owner = (f.owner or f) if f.kind == 'Closure' else f
                    import c03
                    if owner is dbopen or owner in commit_fns or c03._only_via(F, owner, dbopen):
                        continue
                    res.append(bad(rule, '%s | publishes into the shared free list (%s)' % (f.qual, e.get('how') or 'release'),
                                   '%s modifies the shared free list at %s (%s); only the commit (behind the header write) and DBInner::open may: an abandoned or read-only '
                                   'transaction would leave a trace in the next writer\'s allocations' % (f.qual, f.loc(bb), e.get('how')), where=f.loc(bb)))
    f = floor(rule, 'publications into the shared free list', n, 2)
    if f:
        res.append(f)
    if not any(not r.ok for r in res):
        res.append(ok(rule, 'the shared free list is modified at %d sites, all in the commit trace or DBInner::open' % n, sites=n))
    return res


import re as _re
_ATOMIC_WRITE = _re.compile(r'^(core|std)::sync::atomic::Atomic\w*::(store|swap|fetch_\w+|compare_exchange\w*|compare_and_swap|get_mut)$|^(core|std)::cell::Cell::<.*>::(set|replace|swap|take)$|^(core|std)::cell::Cell::(set|replace|swap|take)$')
_KNOWN_SHARED = ('data', 'mmap_lock', 'freelist', 'file', 'open_ro_txs')    # each has its own who-may-write rule (O7 / shared-freelist / C04.register / C09)


def shared_state(ctx, rule='C06.shared-state'):
    """state shared between transactions (interior-mutable fields of DBInner) is changed only by the commit and by open.  The five fields the pinned tree has are covered by
    their own rules; this one covers what they cannot: an atomic / Cell field, or a further Mutex / RwLock field, written on the way into or through a write transaction
    (begin, mutators, drop).  Such a write is not undone when the transaction is abandoned, so later commits do not behave as if it had never existed"""
    res = []
    F = ctx.facts
    try:
        dbopen, cm, op = ctx.need('DBInner::open', 'Tx::commit', 'OpenOptions::open')
    except AnchorError as e:
        return [unresolved(rule, str(e))]
    fields = {f['name']: f['ty'] for f in (F.adt_fields('DBInner') or [])}
    fl = floor(rule, 'fields of DBInner', len(fields), 5)
    if fl:
        return [fl]
    from guards import writable_tests
    try:
        begin = ctx.need('begin-role')[0]
    except AnchorError:
        begin = None
    writers = {}    # fn -> [(loc, field, how)]
    readers = {}    # field -> {fn}
    for f in F.fns:
        du = None
        ro_only = None
        for bb in f.reachable_blocks():
            t = f.term(bb)
            c = callee_of(t) if t['k'] in ('call', 'tailcall') else None
            if not c or not t['args']:
                continue
            path = strip_generics(c['path'])
            how = rd = None
            if _ATOMIC_WRITE.match(path) or _ATOMIC_WRITE.match(c['path']):
                how = last_seg(path)
                rd = how.startswith('fetch_') or how.startswith('compare') or how == 'swap'
            elif path in ('std::ops::DerefMut::deref_mut',) or last_seg(path) in ('get_mut',):
                how = 'write through the guard'
            elif _re.search(r'atomic::Atomic\w*::load$|cell::Cell::get$', path) or path == 'std::ops::Deref::deref':
                rd = True
            if not how and not rd:
                continue
            du = du or ctx.du(f)
            _, atoms = du.slice_operand(t['args'][0])
            for (adt, fld) in du.fields_in(atoms):
                if last_seg(adt) == 'DBInner' and fld in fields and fld not in _KNOWN_SHARED:
                    ty = fields[fld]
                    if 'Atomic' in ty or 'Cell<' in ty or ty.startswith('std::sync::Mutex<') or ty.startswith('std::sync::RwLock<'):
                        owner = (f.owner or f) if f.kind == 'Closure' else f
                        if rd:
                            readers.setdefault(fld, set()).add(owner)
                        if how:
                            if ro_only is None:
                                # what a read-only transaction does to shared state (registering itself, and undoing that when it is dropped) is C04's subject
                                tests = writable_tests(F, f, du)
                                ro_only = (set(f.reachable_blocks()) - f.reach_from([0], avoid_edges={(b, ft) for (b, tt, ft) in tests})) if tests else set()
                            if bb not in ro_only:
                                writers.setdefault(owner, []).append((f.loc(bb), fld, how))
    writer_side = F.reachable_fns([x for x in (begin, cm) if x is not None])
    cg = F.callgraph()
    nentries = 0
    for e in F.fns:
        if e.kind == 'Closure' or not (e.eff_pub or (e.trait and last_seg(e.trait) == 'Drop')) or e in (cm, op, F.fn('DB::open')):
            continue
        nentries += 1
        reach, todo = {e}, [e]
        while todo:
            x = todo.pop()
            for y in cg.get(x, ()):
                if y not in reach and y is not cm and y is not op:
                    reach.add(y)
                    todo.append(y)
        for g in reach:
            for loc, fld, how in writers.get(g, ()):
                if not (readers.get(fld, set()) & writer_side):
                    continue        # a counter nobody on the writer's side looks at (statistics) cannot change what later commits do
                res.append(bad(rule, '%s | %s writes DBInner.%s' % (e.qual, g.qual, fld),
                               '%s reaches %s, which changes the shared field DBInner.%s (%s at %s), and the begin / commit of later write transactions read that field: what a transaction '
                               'does to shared state before it commits is not undone when it is dropped or fails, so later commits can tell that it existed'
                               % (e.qual, g.qual, fld, how, loc), where=loc))
    unknown = sorted(n for n, ty in fields.items() if n not in _KNOWN_SHARED and ('Atomic' in ty or 'Cell<' in ty or ty.startswith('std::sync::Mutex<') or ty.startswith('std::sync::RwLock<')))
    if not any(not r.ok for r in res):
        res.append(ok(rule, 'no interior-mutable field of DBInner beyond %s is written outside commit / open (%d further such fields, %d entries examined)'
                      % (', '.join(_KNOWN_SHARED), len(unknown), nentries), sites=nentries))
    return res


def writable_private(ctx, rule='C06.writable-private'):
    """the writable bit of a handle cannot be set from outside the crate: no `pub` field of bool type in Tx / Bucket / Cursor / the iterators.  The guard of every mutator
    reads that bit; a public one turns a handle of a read-only transaction into a writable one with a plain assignment"""
    res = []
    F = ctx.facts
    n = 0
    for name in CARRIERS:
        a = F.adt(name)
        if a is None:
            continue
        for f0 in a['variants'][0]['fields']:
            if f0['ty'] == 'bool':
                n += 1
                if str(f0.get('vis', '')).lower() in ('pub', 'public') or str(f0.get('vis', '')).startswith('Public'):
                    res.append(bad(rule, '%s.%s | public' % (name, f0['name']),
                                   'the field %s.%s is `pub`: client code can flip the writable bit of a handle that belongs to a read-only transaction, after which put / delete / '
                                   'create_bucket on it succeed instead of failing with ReadOnlyTx' % (name, f0['name'])))
    f = floor(rule, 'bool fields of the handle types', n, 2)
    if f:
        res.append(f)
    if not any(not r.ok for r in res):
        res.append(ok(rule, 'none of the %d bool fields of the handle types is public' % n, sites=n))
    return res


def _err_readonly_blocks(fn, ctx=None):
    """blocks that store Err(Error::ReadOnlyTx) into _0 (directly, or by propagating with `?` the error of a guard helper that builds it)"""
    out = set()
    if ctx is not None:
        from guards import _guard_helper, _self_guard_helper
        F = ctx.facts
        du = None
        for bb in fn.reachable_blocks():
            t = fn.term(bb)
            c = callee_of(t) if t['k'] == 'call' else None
            if not c or c['path'] != 'std::ops::FromResidual::from_residual' or t['dest']['l'] != 0 or not t['args']:
                continue
            du = du or ctx.du(fn)
            _, atoms = du.slice_operand(t['args'][0])
            for a in atoms:
                if a[0] == 'call' and a[2] in F.by_path:
                    h = F.by_path[a[2]]
                    if (_guard_helper(F, h) is not None or _self_guard_helper(F, h)) and set(_error_origins(h).values()) == {'ReadOnlyTx'}:
                        out.add(bb)
    ro_locals = set()
    for bb in fn.reachable_blocks():
        for s in fn.blocks[bb]['stmts']:
            if s['k'] == 'assign' and s['rv']['k'] == 'agg' and s['rv'].get('ak') == 'adt' and s['rv']['adt'].endswith('errors::Error') and s['rv']['variant'] == 'ReadOnlyTx':
                ro_locals.add(s['p']['l'])
    for bb in fn.reachable_blocks():
        for s in fn.blocks[bb]['stmts']:
            if s['k'] == 'assign' and s['p']['l'] == 0 and s['rv']['k'] == 'agg' and s['rv'].get('variant') == 'Err' and s['rv']['ops'] and op_local(s['rv']['ops'][0]) in ro_locals:
                out.add(bb)
    return out


def _error_origins_reachable(F, fn):
    """can fn (transitively) build a value of the crate's error enum?"""
    for g in F.reachable_fns([fn]):
        if _error_origins(g):
            return True
    return False


def guard(ctx, rule='C06.guard'):
    res = []
    F = ctx.facts
    prims = primitives(ctx)
    ctx.stats['primitives'] = sorted(f.qual for f in prims)
    f = floor(rule, 'state-mutating primitives', len(prims), 8)
    if f:
        res.append(f)
    guarded = []
    nmethods = 0
    for m in F.fns:
        if m.kind == 'Closure' or not m.eff_pub:
            continue
        st = m.self_adt and last_seg(m.self_adt)
        if st not in CARRIERS:
            continue
        nmethods += 1
        du = ctx.du(m)
        wob, tests = writer_only_blocks(F, m, du)
        # call sites in m that lead to a primitive (constant-bool specialised)
        leading = []
        for bb in sorted(m.reachable_blocks()):
            t = m.term(bb)
            if t['k'] not in ('call', 'tailcall'):
                continue
            c = callee_of(t)
            target = None
            if c:
                r = c.get('resolved')
                if r and r['local']:
                    target = F.by_path.get(r['path'])
                if target is None and c['local']:
                    target = F.by_path.get(c['path'])
            if target is None:
                continue
            if target is not m and target.kind != 'Closure' and target.eff_pub and target.self_adt and last_seg(target.self_adt) in CARRIERS:
                # delegation to another public method of a handle type (`self.root_bucket().create_bucket(name)`): that method is judged on its own, and the handle's
                # writable bit comes from the transaction (writable-provenance)
                continue
            live = {}
            reach_specialised(F, target, start_prune=const_args(target, t), live_out=live)
            hit = prim_hit(prims, live)
            if hit is not None:
                leading.append((bb, target, hit))
        if m in prims:
            for pb in prims[m]:
                leading.append((pb, m, m))
        if not leading:
            continue
        guarded.append(m.qual)
        if not tests:
            res.append(bad(rule, '%s | mutator without writable check' % m.qual,
                           'public method %s can reach the state-mutating primitive %s but never tests the transaction\'s writable bit: a read-only transaction could modify '
                           'the in-memory tree' % (m.qual, leading[0][2].qual), where='%s:%d' % (m.file, m.line)))
            continue
        okm = True
        for bb, target, prim in leading:
            if bb is None:
                continue
            if bb not in wob:
                okm = False
                res.append(bad(rule, '%s | call to %s not behind the writable check' % (m.qual, target.qual),
                               'in %s the call to %s at %s (which reaches the mutating primitive %s) is not dominated by the writable edge of a test of the transaction\'s writable bit'
                               % (m.qual, target.qual, m.loc(bb), prim.qual), where=m.loc(bb)))
        # the read-only edge returns Err(ReadOnlyTx) without passing a primitive-reaching call
        erb = _err_readonly_blocks(m, ctx)
        lead_blocks = {bb for bb, _, _ in leading if bb is not None}
        for (tb, tt, ft) in tests:
            reach = m.reach_from([ft], avoid=lead_blocks)
            rets = [b for b in reach if m.term(b)['k'] == 'return']
            if not (reach & erb):
                okm = False
                res.append(bad(rule, '%s | read-only edge does not return ReadOnlyTx' % m.qual,
                               'the read-only edge of the writable test at %s in %s does not reach `Err(Error::ReadOnlyTx)`' % (m.loc(tb), m.qual), where=m.loc(tb)))
        # nothing that can fail runs before the check: a read-only transaction must get ReadOnlyTx, not whatever an earlier lookup reports
        first_tests = {tb for (tb, tt, ft) in tests}
        for bb in sorted(m.reachable_blocks()):
            t = m.term(bb)
            if t['k'] != 'call':
                continue
            c = callee_of(t)
            tgt = None
            if c:
                r = c.get('resolved')
                tgt = F.by_path.get(r['path']) if r and r['local'] else (F.by_path.get(c['path']) if c['local'] else None)
            if tgt is None or not tgt.locals[0]['ty'].startswith('std::result::Result<'):
                continue
            from guards import _guard_helper, _self_guard_helper
            if _guard_helper(F, tgt) is not None or _self_guard_helper(F, tgt):
                continue
            if not any(m.dominates(tb, bb) for tb in first_tests) and _error_origins_reachable(F, tgt):
                okm = False
                res.append(bad(rule, '%s | fallible call before the writable check' % m.qual,
                               '%s calls %s at %s before it has tested the transaction\'s writable bit: on a read-only transaction the call can fail with its own error '
                               '(a missing bucket, a wrong kind) instead of ReadOnlyTx' % (m.qual, tgt.qual, m.loc(bb)), where=m.loc(bb)))
        if okm:
            res.append(ok(rule, '%s: every path to a mutating primitive is behind the writable check; read-only edge returns ReadOnlyTx' % m.qual, sites=len(leading)))
    ctx.stats['guarded_methods'] = guarded
    ctx.stats['carrier_methods'] = nmethods
    f = floor(rule, 'public mutators found (methods reaching a primitive)', len(guarded), 4)
    if f:
        res.append(f)
    return res


def _error_origins(fn):
    """{bb: variant} blocks of fn that build a value of the crate's error enum"""
    out = {}
    for bb in fn.reachable_blocks():
        for st in fn.blocks[bb]['stmts']:
            if st['k'] == 'assign' and st['rv']['k'] == 'agg' and st['rv'].get('ak') == 'adt' and st['rv']['adt'].endswith('errors::Error'):
                out[bb] = st['rv']['variant']
    return out


def error_atomic(ctx, rule='C06.error-atomic'):
    """"A call that returns an error changes nothing", structural part: in the inlined trace of every public mutator, no error return is reachable after a
    state-mutating primitive -- except through an error the same call has already tested for before its first mutation (a defensive re-check that cannot fire)."""
    from trace import Trace
    res = []
    F = ctx.facts
    prims = primitives(ctx)

    def classify(fn, bb, t, c, target):
        if bb in prims.get(fn, {}):
            return [dict(ev='X', what=sorted(prims[fn][bb]))]
        return []

    def classify_stmt(fn, bb, si, st):
        if si == 0 and bb in prims.get(fn, {}):
            return [dict(ev='X', what=sorted(prims[fn][bb]))]
        return []
    try:
        (commit_fn,) = ctx.need('Tx::commit')
    except AnchorError as e:
        return [unresolved(rule, str(e))]
    nm = 0
    nx = 0
    rel = None
    origins = {}
    for m in F.fns:
        if m.kind == 'Closure' or not m.eff_pub or m is commit_fn:
            continue
        st = m.self_adt and last_seg(m.self_adt)
        if st not in CARRIERS:
            continue
        T = Trace(F, m, classify, classify_stmt=classify_stmt, relevant_fn=rel)
        if rel is None:
            # also expand helpers that only TEST (they build an error value and mutate nothing): the "repeat of an earlier test" argument below needs to see where
            # the earlier test sits
            rel = set(T._relevant)
            cg = F.callgraph()
            rel |= {g for g in F.fns if _error_origins(g)}
            changed = True
            while changed:
                changed = False
                for g in F.fns:
                    if g not in rel and any(h in rel for h in cg.get(g, ())):
                        rel.add(g)
                        changed = True
            T = Trace(F, m, classify, classify_stmt=classify_stmt, relevant_fn=rel)
        evs = T.events('X')
        if not evs:
            continue
        nm += 1
        nx += len(evs)
        errs = {i for i, k in T.exit_kinds() if k == 'err'}
        if not errs:
            res.append(ok(rule, '%s: %d mutation sites, no error return at all' % (m.qual, len(evs)), sites=len(evs)))
            continue
        starts = set()
        for e in evs:
            starts |= set(T.succ.get(e['node'], ()))
        after = T.reach(starts)
        # error origins on the trace, split into "before any mutation" and "after one"
        pre, post = {}, {}
        for n in T.nodes:
            if n.bb is None or n.virt:
                continue
            if n.fn not in origins:
                origins[n.fn] = _error_origins(n.fn)
            v = origins[n.fn].get(n.bb)
            if v is None:
                continue
            (post if n.id in after else pre).setdefault(v, set()).add(n.id)
        # a post-mutation error site only repeats an earlier test when a path to it has already been through that test: it lies behind a node that
        # decides a pre-mutation site of the same kind
        pred = {}
        for a, bs in T.succ.items():
            for b in bs:
                pred.setdefault(b, set()).add(a)
        rechecks = set()
        for v, ids in post.items():
            if v not in pre:
                continue
            deciders = set()
            for i in pre[v]:
                # the nearest branching nodes in front of the site (several when match arms share the block)
                frontier, seen_b = {i}, {i}
                for _ in range(8):
                    nxt = set()
                    for cur in frontier:
                        for q in pred.get(cur, ()):
                            if q in seen_b:
                                continue
                            seen_b.add(q)
                            if len(T.succ.get(q, ())) > 1:
                                deciders.add(q)
                            else:
                                nxt.add(q)
                    frontier = nxt
                    if not frontier:
                        break
            if not deciders:
                continue
            # (not required on EVERY path: a cached handle skips the lookup's test, and that the cache only holds what passed the test is a run-time invariant)
            behind = T.reach(deciders)
            rechecks |= {i for i in ids if i in behind}
        live = T.reach(starts, avoid=rechecks)
        hit = sorted(live & errs)
        if not hit:
            extra = ''
            if rechecks:
                extra = '; %d error site(s) after a mutation only repeat a test made before the first mutation (%s)' % (len(rechecks), ', '.join(sorted(v for v in post if v in pre)))
            res.append(ok(rule, '%s: no error return is reachable after any of its %d mutation sites%s' % (m.qual, len(evs), extra), sites=len(evs)))
            continue
        # report the first mutation from which the error return is reachable
        for e in evs:
            st1 = set(T.succ.get(e['node'], ()))
            pth = T.path(st1, hit[0], avoid=rechecks)
            if pth:
                n0 = T.nodes[e['node']]
                # the error origin on the path, for the key
                org = [T.nodes[i] for i in pth if T.nodes[i].bb is not None and not T.nodes[i].virt and origins.setdefault(T.nodes[i].fn, _error_origins(T.nodes[i].fn)).get(T.nodes[i].bb)]
                what = ('Error::%s built in %s' % (origins[org[-1].fn][org[-1].bb], org[-1].fn.qual)) if org else 'a propagated error'
                res.append(bad(rule, '%s | error return after mutation (%s)' % (m.qual, what),
                               '%s can return an error (%s) after it has already changed transaction state at %s (%s): a call that fails must leave the transaction as it was, '
                               'but the half-applied change is kept and later committed' % (m.qual, what, n0.loc(), ', '.join(e['what'])),
                               where=n0.loc(), path=T.describe_path(pth)))
                break
    f = floor(rule, 'public mutators with mutation sites', nm, 8) or floor(rule, 'mutation sites in their traces', nx, 20)
    if f:
        res.append(f)
    return res


def writable_provenance(ctx, rule='C06.writable-provenance'):
    res = []
    F = ctx.facts
    n = 0
    seen_sites = set()
    keep = ctx.keep_set()
    for fn in ctx.units():
        raw = getattr(fn, 'raw', fn)
        # a private constructor helper (`bucket_handle(inner, writable)`) is judged where it is folded into its callers, with the argument each of them passes
        if raw not in keep and raw.kind != 'Closure' and F.callers(raw) and all(c in keep or c.kind == 'Closure' for c in F.callers(raw)) and not getattr(fn, 'inlined', None):
            helper_only = True
        else:
            helper_only = False
        du = None
        for carrier in ('Bucket', 'Cursor', 'Buckets'):
            for bb, si, s in aggregates_of(fn, carrier):
                rv = s['rv']
                if 'writable' not in rv['fields']:
                    continue
                if helper_only and op_place(rv['ops'][rv['fields'].index('writable')]) is not None and \
                        1 <= (ctx.du(fn).root_of(op_place(rv['ops'][rv['fields'].index('writable')])['l'], through_calls=False)) <= fn.argc:
                    continue
                n += 1
                du = du or ctx.du(fn)
                o = rv['ops'][rv['fields'].index('writable')]
                v = op_const_val(o)
                if v is None:
                    e = du.sym(o)          # a literal handed through a folded-in helper's parameter
                    if e[0] == 'const' and e[1] in (0, 1):
                        v = e[1]
                okk = False
                how = ''
                if v is not None:
                    if v == 1:
                        wob, tests = writer_only_blocks(F, fn, du)
                        okk = bb in wob
                        how = 'literal true behind the writable check'
                    else:
                        okk, how = True, 'literal false'
                else:
                    p = op_place(o)
                    if p['pr']:
                        okk, how = _field_bit(p), 'copied from the parent carrier'
                    else:
                        isw, inv = resolve_bool(F, fn, du, p['l'])
                        okk, how = (isw and not inv), 'the transaction lock\'s writable() / the parent carrier\'s bit'
                if okk:
                    res.append(ok(rule, '%s built at %s: writable = %s' % (carrier, fn.loc(bb, si), how), sites=1))
                else:
                    res.append(bad(rule, '%s | %s.writable not derived from the transaction' % (fn.qual, carrier),
                                   'the %s built at %s sets `writable` from something other than the transaction lock / the parent carrier (or a literal true outside the writable check): '
                                   'a read-only transaction could hand out a writable handle' % (carrier, fn.loc(bb, si)), where=fn.loc(bb, si)))
    f = floor(rule, 'constructions of carriers with a writable bit', n, 3)
    if f:
        res.append(f)
    # TxLock::writable is true exactly for the variant holding the writer lock: checked in C09.writer-excl
    return res


def run(ctx, tier):
    ob = commit.obligations(ctx)
    results = []
    results += file_effects(ctx)
    results += open_existing(ctx)
    results += shared_freelist(ctx)
    results += shared_state(ctx)
    results += ob['O4']
    results += commit_on_success_only(ctx)
    results += guard(ctx)
    results += writable_provenance(ctx)
    results += writable_private(ctx)
    results += error_atomic(ctx)
    import c02, c16
    results += c02.alternate_rule(ctx, rule='C06.alternate')
    # a commit that fails before its header write must not have touched a page of the last committed state: pages freed by the transaction stay pending
    results += c02.cow_free_set(ctx, rule='C06.cow.free-set')
    # a failed growth leaves the shared size / map as they were (the new value exists only behind the success of the allocation)
    results += c16.grow(ctx, rule='C06.grow')
    # the first commit on a file with legacy headers must go to the other slot like any commit: the converted header keeps its slot number
    import c15
    results += c15.legacy_fallback(ctx, rule='C06.legacy-conversion')
    import c16
    results += ob['O6'] + c16.strict_guard(ctx, rule='C06.strict-before-header')
    return dict(
        results=results, stats=dict(ctx.stats),
        explanation=(
            'Effect discipline decided over the whole call graph: (O7) file writes, growth and remap are reachable only from Tx::commit and OpenOptions::open among all public entry '
            'points and Drop impls, so drop / read / check cannot touch the file; (open-existing) every write in open is restricted to a freshly created (create_new) or empty file '
            'and nothing truncates; (shared-freelist) the shared free list changes only in the commit (behind the header write) and in DBInner::open; (guard) every public method of '
            'Tx/Bucket/Cursor/iterators from which a state-mutating primitive is reachable (constant-bool specialised) tests the writable bit first and returns ReadOnlyTx on the '
            'read-only edge; (writable-provenance) every carrier takes its writable bit from the transaction lock or its parent; (error-atomic) in the inlined, Result-kind-tracking trace of every public mutator no error return is '
            'reachable after a state-mutating primitive, except a repeat of a test already made before the first mutation. (shared-state) atomics / cells / further locks of DBInner that begin or commit read are not written before commit; (cow.free-set) freed pages go to the pending set only; (grow) a failed growth leaves shared size and map unchanged. NOT decided: byte-identity of later commits; that '
            'an error inside commit leaves the overlay usable (C11).'),
        assumptions=['the set of logical-state fields and the cache exclusions listed in rules/c06.py'])
