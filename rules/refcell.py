"""RefCell discipline: no second borrow of a singleton cell while a conflicting borrow of it is alive up-stack (a BorrowError / BorrowMutError panic at run time)"""
import re
from core import ok, bad, floor
from facts import callee_of, strip_generics, last_seg, op_place

BORROWS = {'std::cell::RefCell::borrow_mut': 'X', 'std::cell::RefCell::borrow': 'S', 'std::cell::RefCell::try_borrow_mut': None, 'std::cell::RefCell::try_borrow': None}


def singleton_cells(F):
    """pointee types T such that RefCell<T> occurs as a plain field (possibly behind Rc) and never inside a collection"""
    plain, multi = set(), set()
    for a in F.doc['adts']:
        for v in a['variants']:
            for f in v['fields']:
                ty = f['ty']
                for m in re.finditer(r'RefCell<([A-Za-z0-9_:]+)', ty):
                    t = last_seg(m.group(1))
                    if re.search(r'(Vec|VecDeque|HashMap|BTreeMap|HashSet|BTreeSet|Option|\[)', ty[:m.start()]):
                        multi.add(t)
                    else:
                        plain.add(t)
    return plain - multi


def _pointee(ty):
    m = re.match(r"std::cell::Ref(?:Mut)?<'_, ([A-Za-z0-9_:]+)", ty)
    return last_seg(m.group(1)) if m else None


def borrows_in(F, fn, cells):
    out = []
    for bb in sorted(fn.reachable_blocks()):
        t = fn.term(bb)
        c = callee_of(t) if t['k'] == 'call' else None
        if not c:
            continue
        mode = BORROWS.get(strip_generics(c['path']), 0)
        if not mode:
            continue
        T = _pointee(fn.locals[t['dest']['l']]['ty'])
        if T in cells:
            out.append((bb, t, T, mode))
    return out


def no_reborrow(ctx, rule):
    res = []
    F = ctx.facts
    cells = singleton_cells(F)
    f0 = floor(rule, 'singleton RefCell types of the crate', len(cells), 1)
    if f0:
        return [f0]
    direct = {}
    for g in F.fns:
        b = borrows_in(F, g, cells)
        if b:
            direct[g] = b
    # what each function may borrow, transitively
    memo = {}

    def trans(g):
        if g not in memo:
            s = set()
            for h in F.reachable_fns([g]):
                for (bb, t, T, mode) in direct.get(h, ()):
                    s.add((T, mode, h.qual, h.loc(bb)))
            memo[g] = s
        return memo[g]
    n = 0
    for f, bs in sorted(direct.items(), key=lambda kv: kv[0].path):
        for (bb, t, T, mode) in bs:
            n += 1
            h = t['dest']['l']
            # live until the guard is dropped or moved away
            ends = set()
            for b2 in f.reachable_blocks():
                t2 = f.term(b2)
                if t2['k'] == 'drop' and t2.get('p', {}).get('l') == h and not t2['p']['pr']:
                    ends.add(b2)
            start = t.get('target')
            live = f.reach_from([start], avoid=ends) if start is not None else set()
            clash = None
            for b2 in sorted(live):
                t2 = f.term(b2)
                if t2['k'] != 'call' or b2 == bb:
                    continue
                c2 = callee_of(t2)
                if not c2:
                    continue
                m2 = BORROWS.get(strip_generics(c2['path']), 0)
                if m2 and _pointee(f.locals[t2['dest']['l']]['ty']) == T and 'X' in (mode, m2):
                    clash = (f.loc(b2), 'a second borrow in the same function')
                    break
                r = c2.get('resolved')
                g = F.by_path.get(r['path']) if r and r['local'] else (F.by_path.get(c2['path']) if c2['local'] else None)
                if g is None:
                    continue
                for (T2, m3, q, where) in sorted(trans(g)):
                    if T2 == T and 'X' in (mode, m3):
                        clash = (f.loc(b2), 'the call of %s, which reaches `%s` of the same cell in %s at %s' % (g.qual, 'borrow_mut' if m3 == 'X' else 'borrow', q, where))
                        break
                if clash:
                    break
            if clash:
                res.append(bad(rule, '%s | RefCell<%s> borrowed again while a %s borrow is alive' % (f.qual, T, 'mutable' if mode == 'X' else 'shared'),
                               '%s holds a %s borrow of the transaction\'s RefCell<%s> (taken at %s) across %s at %s: the second borrow panics (already %s borrowed) instead of '
                               'returning' % (f.qual, 'mutable' if mode == 'X' else 'shared', T, f.loc(bb), clash[1], clash[0], 'mutably' if mode == 'X' else 'immutably'), where=clash[0]))
            else:
                res.append(ok(rule, '%s: no conflicting borrow of RefCell<%s> while the guard taken at %s is alive' % (f.qual, T, f.loc(bb)), sites=1))
    f1 = floor(rule, 'borrows of singleton cells', n, 5)
    if f1:
        res.append(f1)
    return res
