"""C14 Borrowed data cannot outlive its transaction; handles stay on their thread"""
import json
from core import ok, bad, unresolved, floor
from anchors import AnchorError
from facts import callee_of, op_local, op_place, last_seg, strip_generics
from util import calls_named, has_field, has_call
import witness


# ------------------------------------------------------------------ type-tree helpers

def walk(t):
    """yield every node of a type tree"""
    yield t
    k = t.get('k')
    if k in ('ref', 'ptr', 'slice', 'array'):
        yield from walk(t['t'])
    elif k == 'adt':
        for a in t['args']:
            if 'k' in a:
                yield from walk(a)
    elif k == 'tuple':
        for x in t['ts']:
            yield from walk(x)
    elif k == 'alias':
        for a in t['args']:
            if 'k' in a:
                yield from walk(a)
        if 'hidden' in t:
            yield from walk(t['hidden'])


def resolve_assoc(t, amap):
    """replace `<Self as Trait>::Assoc` projections by the impl's associated type (amap: trait item path -> tree)"""
    if not amap or not isinstance(t, dict):
        return t
    k = t.get('k')
    if k == 'alias' and t.get('path') in amap and 'hidden' not in t:
        return amap[t['path']]
    out = dict(t)
    if k in ('ref', 'ptr', 'slice', 'array'):
        out['t'] = resolve_assoc(t['t'], amap)
    elif k in ('adt', 'alias'):
        out['args'] = [resolve_assoc(a, amap) if 'k' in a else a for a in t['args']]
    elif k == 'tuple':
        out['ts'] = [resolve_assoc(x, amap) for x in t['ts']]
    return out


def fn_sig(fn):
    """signature with associated-type projections of the function's own impl resolved"""
    sig = fn.j['sig']
    amap = {a['trait_item']: a['tree'] for a in fn.j.get('assoc_types', [])}
    if not amap:
        return sig
    return dict(inputs=[resolve_assoc(i, amap) for i in sig['inputs']], output=resolve_assoc(sig['output'], amap), s=sig.get('s'))


def regions_of(t):
    out = set()
    for n in walk(t):
        if n.get('k') == 'ref':
            out.add(n['r'])
        if n.get('k') in ('adt', 'alias'):
            for a in n['args']:
                if 'r' in a and 'k' not in a:
                    out.add(a['r'])
    return out


class Roles:
    """which region-parameter positions of which ADTs carry the transaction borrow (txb) / the database lifetime (db)"""

    def __init__(self, facts):
        self.F = facts
        self.txb = set()
        self.db = set()
        tx = facts.adt('Tx')
        self.tx_path = tx['path'] if tx else 'tx::Tx'
        self.db.add((self.tx_path, 0))
        self._fix()

    def roles_in_inputs(self, sig, preds=None):
        """{region name: set of roles} from the inputs of a signature; with the function's predicates, a region that the transaction borrow outlives (`where 'a: 'b`
        with `&'a self`) is itself within the borrow"""
        roles = self._roles_in_inputs(sig)
        for _ in range(4):
            grew = False
            for pr in preds or []:
                if pr.get('k') == 'region_outlives' and isinstance(pr.get('a'), str) and isinstance(pr.get('b'), str):
                    if (roles.get(pr['a'], set()) & {'txb', 'borrow-of-carrier'}) and 'txb' not in roles.get(pr['b'], set()):
                        roles.setdefault(pr['b'], set()).add('txb')
                        grew = True
            if not grew:
                break
        return roles

    def _roles_in_inputs(self, sig):
        roles = {}

        def add(r, role):
            roles.setdefault(r, set()).add(role)
        for inp in sig['inputs']:
            for n in walk(inp):
                if n.get('k') == 'ref' and n['t'].get('k') == 'adt':
                    p = n['t']['path']
                    if p == self.tx_path:
                        add(n['r'], 'txb')
                    elif any((p, i) in self.txb for i in range(len(n['t']['args']))):
                        add(n['r'], 'borrow-of-carrier')
                if n.get('k') == 'adt':
                    for i, a in enumerate(n['args']):
                        if 'r' in a and 'k' not in a:
                            if (n['path'], i) in self.txb:
                                add(a['r'], 'txb')
                            if (n['path'], i) in self.db:
                                add(a['r'], 'db')
        return roles

    def _fix(self):
        F = self.F
        changed = True
        rounds = 0
        while changed and rounds < 20:
            changed = False
            rounds += 1
            for f in F.fns:
                if f.kind == 'Closure' or 'sig' not in f.j:
                    continue
                sig = fn_sig(f)
                roles = self.roles_in_inputs(sig, f.j.get('predicates'))
                for n in walk(sig['output']):
                    if n.get('k') == 'adt' and n.get('local'):
                        for i, a in enumerate(n['args']):
                            if 'r' in a and 'k' not in a:
                                rs = roles.get(a['r'], set())
                                if 'txb' in rs and 'db' not in rs and (n['path'], i) not in self.txb:
                                    self.txb.add((n['path'], i))
                                    changed = True
                                if 'db' in rs and 'txb' not in rs and (n['path'], i) not in self.db:
                                    self.db.add((n['path'], i))
                                    changed = True
            # containment: A<'x> { field: B<'x> }
            for a in F.doc['adts']:
                names = [g['name'] for g in a['generics']]
                for v in a['variants']:
                    for fld in v['fields']:
                        for n in walk(fld['tree']):
                            if n.get('k') == 'adt':
                                for i, arg in enumerate(n['args']):
                                    if 'r' in arg and 'k' not in arg and arg['r'] in names:
                                        j = names.index(arg['r'])
                                        if (n['path'], i) in self.txb and (a['path'], j) not in self.txb:
                                            self.txb.add((a['path'], j))
                                            changed = True
                                        if (n['path'], i) in self.db and (a['path'], j) not in self.db:
                                            self.db.add((a['path'], j))
                                            changed = True
                                        # downwards: a value of the field type is obtained by destructuring the container
                                        if n.get('local') and (a['path'], j) in self.txb and (n['path'], i) not in self.txb:
                                            self.txb.add((n['path'], i))
                                            changed = True
                                        if n.get('local') and (a['path'], j) in self.db and (n['path'], i) not in self.db:
                                            self.db.add((n['path'], i))
                                            changed = True

    def carriers(self):
        return sorted({p for p, i in self.txb})


def borrowing_adts(facts):
    """local ADTs that can hold borrowed bytes: a field is a reference (to [u8]/str) with a region parameter of the ADT"""
    out = {}
    for a in facts.doc['adts']:
        names = [g['name'] for g in a['generics']]
        for v in a['variants']:
            for fld in v['fields']:
                t = fld['tree']
                if t.get('k') == 'ref' and t['r'] in names and t['t'].get('k') in ('slice', 'prim'):
                    out.setdefault(a['path'], set()).add(names.index(t['r']))
    return out


def byte_nodes(t, roles_obj, borrowing):
    """nodes of a type tree that can hold (borrowed) bytes, with the regions that bound them"""
    for n in walk(t):
        k = n.get('k')
        if k == 'ref' and n['t'].get('k') in ('slice', 'prim') and n['t'].get('s', 'u8') in ('u8', 'str') or (k == 'ref' and n['t'].get('k') == 'slice'):
            yield ('&[u8]', {n['r']})
        elif k == 'adt':
            regs = {a['r'] for a in n['args'] if 'r' in a and 'k' not in a}
            if n['path'] in borrowing:
                yield (n['path'], regs)
            elif any((n['path'], i) in roles_obj.db for i in range(len(n['args']))):
                yield (n['path'], regs)


def sig_rule(ctx, rule='C14.sig'):
    res = []
    F = ctx.facts
    R = Roles(F)
    borrowing = borrowing_adts(F)
    ctx.stats['carrier_params'] = sorted('%s#%d' % (last_seg(p), i) for p, i in R.txb)
    ctx.stats['db_params'] = sorted('%s#%d' % (last_seg(p), i) for p, i in R.db)
    f = floor(rule, 'ADT parameters that carry the transaction borrow', len(R.txb), 6)
    if f:
        res.append(f)
    rejected = []
    n = 0
    for fn in F.fns:
        if fn.kind == 'Closure' or not fn.eff_pub or 'sig' not in fn.j:
            continue
        n += 1
        sig = fn_sig(fn)
        roles = R.roles_in_inputs(sig, fn.j.get('predicates'))
        involves_tx = any(('txb' in r) or ('borrow-of-carrier' in r) for r in roles.values()) or \
            any(nd.get('k') == 'adt' and any((nd['path'], i) in R.txb for i in range(len(nd['args']))) for inp in sig['inputs'] for nd in walk(inp))
        if not involves_tx:
            continue
        for (what, regs) in byte_nodes(sig['output'], R, borrowing):
            rr = set()
            for r in regs:
                rr |= roles.get(r, set())
            if 'db' in rr and not (rr & {'txb', 'borrow-of-carrier'}):
                rejected.append((fn, what, sorted(regs)))
                break
    ctx.stats['public_signatures'] = n
    f = floor(rule, 'effectively public signatures examined', n, 60)
    if f:
        res.append(f)
    ctx._c14_rejected = rejected
    ctx._c14_roles = R
    for fn, what, regs in rejected:
        v = flow_rule(ctx, fn)
        res.append(v)
    if not rejected:
        res.append(ok(rule, 'all %d public signatures that take a transaction-bound value return byte-capable types bounded by the transaction borrow' % n, sites=n))
    else:
        res.append(ok(rule, '%d public signatures examined; %d return db-lifetime bytes without the transaction borrow and were handed to the flow rule: %s'
                      % (n, len(rejected), [f.qual for f, _, _ in rejected]), sites=n))
    return res


def flow_rule(ctx, fn, rule='C14.flow', depth=0):
    """does the body return the carrier's (possibly mmap-backed) Bytes itself, or an owned copy?  Variant sensitive: only
    Bytes::Slice can borrow mapped memory."""
    F = ctx.facts
    du = ctx.du(fn)
    bytes_adt = F.adt('Bytes')
    slice_vi = None
    owning = set()
    if bytes_adt:
        for v in bytes_adt['variants']:
            t = v['fields'][0]['tree'] if v['fields'] else {}
            if t.get('k') == 'ref':
                slice_vi = v['vi']
            else:
                owning.add(v['name'])
    # blocks reachable through the Slice edge of a switch on the discriminant of a Bytes value
    slice_region = None
    for bb in sorted(fn.reachable_blocks()):
        t = fn.term(bb)
        if t['k'] == 'switch':
            _, atoms = du.slice_operand(t['discr'])
            if any(a[0] == 'discr' and a[1] and last_seg(a[1]) == 'Bytes' for a in atoms):
                tg = dict((v, b) for v, b in t['targets'])
                st = tg.get(slice_vi, t['otherwise'])
                others = [b for v, b in t['targets'] if v != slice_vi] + ([t['otherwise']] if slice_vi in tg else [])
                only_slice = fn.reach_from([st], avoid=set()) - set().union(*[fn.reach_from([o]) for o in others]) if others else fn.reach_from([st])
                slice_region = fn.reach_from([st])
                non_slice_only = set()
                for o in others:
                    non_slice_only |= fn.reach_from([o])
                non_slice_only -= fn.reach_from([st])
                fn._non_slice_only = non_slice_only
    non_slice_only = getattr(fn, '_non_slice_only', set())
    bad_sites = []
    for bb in sorted(fn.reachable_blocks()):
        b = fn.blocks[bb]
        defs0 = []
        for si, s in enumerate(b['stmts']):
            if s['k'] == 'assign' and s['p']['l'] == 0 and not s['p']['pr']:
                defs0.append(('stmt', si, s))
        t = b['term']
        if t['k'] == 'call' and t['dest']['l'] == 0 and not t['dest']['pr']:
            defs0.append(('call', None, t))
        for kind, si, x in defs0:
            if bb in non_slice_only:
                continue          # the value is known not to be the Slice variant here
            if kind == 'stmt':
                rv = x['rv']
                if rv['k'] == 'agg' and rv.get('ak') == 'adt' and last_seg(rv['adt']) == 'Bytes' and rv['variant'] in owning:
                    continue      # freshly built owning variant
                if rv['k'] == 'use':
                    p = op_place(rv['op'])
                    if p is not None:
                        _, atoms = du.slice_place(p)
                        if any(a[0] == 'field' and a[1] and last_seg(a[1]) in ('BucketName', 'KVPair') for a in atoms) or p['pr']:
                            bad_sites.append((bb, si, 'moves the stored Bytes out'))
                        # a local that was built from an owning aggregate is fine
                        continue
                bad_sites.append((bb, si, 'returns a value of unknown origin'))
            else:
                c = callee_of(x)
                name = last_seg(strip_generics(c['path'])) if c else '?'
                tgt = None
                if c:
                    r = c.get('resolved')
                    tgt = F.by_path.get(r['path']) if r and r['local'] else (F.by_path.get(c['path']) if c['local'] else None)
                if tgt is not None and depth < 4:
                    sub = flow_rule(ctx, tgt, rule, depth + 1)
                    if not sub.ok:
                        bad_sites.append((bb, None, 'returns the result of %s, which returns the stored Bytes' % tgt.qual))
                    continue
                if name == 'clone':
                    _, atoms = du.slice_operand(x['args'][0])
                    if any(a[0] == 'field' and a[1] and last_seg(a[1]) in ('BucketName', 'KVPair') for a in atoms):
                        bad_sites.append((bb, None, 'clones the stored Bytes (a Slice stays a borrow of the map)'))
                    continue
                if name in ('copy_from_slice', 'to_vec', 'to_owned', 'into', 'from', 'new'):
                    continue
                bad_sites.append((bb, None, 'returns the result of %s' % name))
    if bad_sites:
        bb, si, why = bad_sites[0]
        return bad(rule, '%s | returns transaction-backed bytes without the transaction borrow' % fn.qual,
                   '%s has a signature that returns db-lifetime bytes without the transaction borrow, and its body %s at %s: safe client code can keep the value after the '
                   'transaction ended and read the mapped file after it was remapped or its pages reused' % (fn.qual, why, fn.loc(bb, si)), where=fn.loc(bb, si))
    return ok(rule, '%s returns db-lifetime bytes without the transaction borrow, but only as owned copies (Slice variant copied, owning variants cloned)' % fn.qual, sites=1)


def private_producers(ctx, rule='C14.private-producers'):
    res = []
    F = ctx.facts
    R = getattr(ctx, '_c14_roles', None) or Roles(F)
    borrowing = borrowing_adts(F)
    prods = []
    for fn in F.fns:
        if fn.kind == 'Closure' or 'sig' not in fn.j:
            continue
        sig = fn_sig(fn)
        inr = set()
        for i in sig['inputs']:
            inr |= regions_of(i)
        gen = {g['name'] for g in fn.j.get('generics', []) if g['kind'] == 'lifetime'}
        free = set()
        for n in walk(sig['output']):
            if n.get('k') == 'ref' and n['r'] not in inr and n['r'] != "'static" and n['r'] in gen:
                free.add(n['r'])
        if free:
            prods.append((fn, sorted(free)))
    ctx.stats['unconstrained_output_lifetime_fns'] = [f.qual for f, _ in prods]
    for fn, free in prods:
        if fn.eff_pub:
            res.append(bad(rule, '%s | public function with unconstrained output lifetime' % fn.qual,
                           '%s returns a reference with lifetime %s that no input constrains and is reachable from outside the crate: safe client code can obtain a reference into the '
                           'mapped file with any lifetime' % (fn.qual, free), where='%s:%d' % (fn.file, fn.line)))
        else:
            res.append(ok(rule, '%s (unconstrained %s) is crate-private' % (fn.qual, ','.join(free)), sites=1))
    return res


def type_facts(ctx, rule='C14.auto-traits'):
    """structural facts behind !Send/!Sync and by-value commit (the trait-solver facts themselves are witnesses)"""
    res = []
    F = ctx.facts
    cm = ctx.A.get('Tx::commit')
    if cm is None:
        res.append(unresolved(rule, 'Tx::commit'))
    else:
        first = cm.j['sig']['inputs'][0] if cm.j['sig']['inputs'] else {}
        if first.get('k') == 'adt' and last_seg(first['path']) == 'Tx':
            res.append(ok(rule, 'Tx::commit takes self by value', sites=1))
        else:
            res.append(bad(rule, 'Tx::commit | does not consume the transaction', 'Tx::commit takes %s instead of self by value: values borrowed from the transaction survive the commit' % json.dumps(first)[:80],
                           where='%s:%d' % (cm.file, cm.line)))
    # no Clone / Copy impl for Tx
    for imp in F.impls:
        if imp.get('trait') in ('std::clone::Clone', 'std::marker::Copy') and last_seg(strip_generics(imp['self_ty'])).startswith('Tx'):
            res.append(bad(rule, 'Tx | implements %s' % last_seg(imp['trait']), 'Tx implements %s' % imp['trait']))
    return res


def witness_rule(ctx, tier, rule='C14.witness'):
    res = []
    try:
        rows = witness.evaluate(repo=getattr(ctx.facts, 'repo_dir', None) or witness.REPO)
    except Exception as e:
        return [bad(rule, 'witness engine | ' + str(e)[:80], 'the witness corpus could not be type-checked: %s' % str(e)[:400])], []
    nf = sum(1 for r in rows if r['kind'] == 'fail')
    np_ = sum(1 for r in rows if r['kind'] == 'pass')
    f = floor(rule, 'fail witnesses in the corpus', nf, 85) or floor(rule, 'positive controls in the corpus', np_, 5)
    if f:
        res.append(f)
    for r in rows:
        if r['kind'] == 'fail':
            if r['status'] == 'rejected':
                res.append(ok(rule, '%s: %s — %s' % (r['name'], r['what'], r['detail']), sites=1))
            elif r['status'] == 'compiles':
                res.append(bad(rule, '%s | compiles' % r['name'], 'witness %s now type-checks: %s is accepted by the compiler (expected %s)' % (r['name'], r['what'], '/'.join(r['expect'])),
                               where='witness/cases/%s.rs' % r['name']))
            elif r['status'] == 'wrong-error':
                res.append(bad(rule, '%s | rejected for another reason' % r['name'], 'witness %s (%s): %s' % (r['name'], r['what'], r['detail']), where='witness/cases/%s.rs' % r['name']))
            else:
                res.append(bad(rule, '%s | twin does not compile' % r['name'], 'the compiling twin of witness %s fails (%s): ordinary use of this API no longer compiles, or the witness is stale'
                               % (r['name'], r['detail']), where='witness/cases/%s.rs' % r['name']))
        else:
            if r['status'] == 'compiles':
                res.append(ok(rule, '%s: %s compiles' % (r['name'], r['what']), sites=1))
            else:
                res.append(bad(rule, '%s | positive control broken' % r['name'], 'ordinary correct usage no longer compiles: %s (%s)' % (r['what'], r['detail']), where='witness/cases/%s.rs' % r['name']))
    return res, rows


RECV = {
    'Tx': ('', 'tx'),
    'Bucket': ('let b = tx.get_bucket("b").unwrap();', 'b'),
    'Cursor': ('let b = tx.get_bucket("b").unwrap(); let mut r = b.cursor();', 'r'),
    'Range': ('let b = tx.get_bucket("b").unwrap(); let mut r = b.range::<std::ops::RangeFull>(..);', 'r'),
    'Data': ('let b = tx.get_bucket("b").unwrap(); let r = b.get("k").unwrap();', 'r'),
    'KVPair': ('let b = tx.get_bucket("b").unwrap(); let r = b.get_kv("k").unwrap();', 'r'),
    'BucketName': ('let b = tx.get_bucket("b").unwrap(); let r = b.buckets().next().unwrap().0;', 'r'),
}
SKIP_TRAITS = ('Debug', 'PartialEq', 'Eq', 'From', 'Drop', 'StructuralPartialEq')


def drops_read_nothing(ctx, rule='C14.drop-reads-no-map'):
    """a handle may legally be *dropped* after its transaction has ended (`let h; { let tx = ..; h = tx.get_bucket(..)?; }` type-checks: nothing with a destructor borrows the
    transaction).  So the destructors of everything a client can hold -- all Drop impls except the transaction's own -- must not look at the mapped file: by then the pages may
    have been freed and reused"""
    res = []
    F = ctx.facts
    try:
        mv = ctx.need('map-view')[0]
    except AnchorError as e:
        return [unresolved(rule, str(e))]
    drops = [g for g in F.fns if g.trait and g.trait.endswith('Drop') and g.name == 'drop']
    f = floor(rule, 'Drop impls in the crate', len(drops), 1)
    if f:
        res.append(f)
    txi = ctx.facts.adt('TxInner')
    n = 0
    for g in drops:
        if g.self_adt and txi and g.self_adt == txi['path']:
            continue        # the transaction itself: it is what ends the snapshot
        n += 1
        reach = F.reachable_fns([g])
        if mv in reach:
            res.append(bad(rule, '%s | reads the map' % g.qual,
                           '%s can reach %s: a value of this type that is dropped after its transaction (which the borrow checker allows) then reads pages that a later '
                           'commit may already have reused' % (g.qual, mv.qual), where='%s:%d' % (g.file, g.line)))
    if not any(not r.ok for r in res):
        res.append(ok(rule, 'no destructor other than the transaction\'s own reaches the map view (%d Drop impls, %d examined)' % (len(drops), n), sites=len(drops)))
    return res


def tobytes_bounded(ctx, rule='C14.tobytes-bounded'):
    """a key or value handed to the library by reference may die as soon as the call returns unless the signature says otherwise: an impl `ToBytes<'a> for &T` whose
    reference is not itself `&'a` must COPY (or clone an owner), never build a borrowed `Bytes::Slice` out of the referent.  The borrow checker enforces this unless the
    impl launders the lifetime through a raw pointer (`from_raw_parts`, `transmute`), which is what this rule looks for"""
    import json
    res = []
    F = ctx.facts
    n = 0
    for fn in sorted(F.fns, key=lambda g: g.path):
        if not (fn.trait and fn.trait.endswith('ToBytes') and fn.name == 'to_bytes') or 'sig' not in fn.j:
            continue
        n += 1
        inp, out = fn.j['sig']['inputs'][0], fn.j['sig']['output']
        r_out = [a.get('r') for a in out.get('args', []) if isinstance(a, dict) and 'r' in a]
        bounded = inp.get('k') == 'ref' and inp.get('r') in r_out and inp.get('r') not in ("'_", None)
        X = ctx.x(fn)
        launder = None
        for bb in sorted(X.reachable_blocks()):
            t = X.term(bb)
            c = callee_of(t) if t['k'] == 'call' else None
            if c and last_seg(strip_generics(c['path'])) in ('from_raw_parts', 'from_raw_parts_mut', 'transmute', 'transmute_copy', 'from_utf8_unchecked'):
                launder = (bb, last_seg(strip_generics(c['path'])))
            for st in X.blocks[bb]['stmts']:
                if st['k'] == 'assign' and st['rv']['k'] == 'cast' and st['rv'].get('ck') == 'Transmute' and not any(x.startswith('macro:') for x in st.get('span', {}).get('exp', [])):
                    launder = (bb, 'transmute')
        if launder and not bounded:
            res.append(bad(rule, '%s | borrowed bytes with a laundered lifetime (%s)' % (fn.qual, launder[1]),
                           '%s takes its argument by a reference that is not bound to the lifetime of the bytes it returns and builds them with `%s` at %s: the transaction keeps a '
                           'pointer into memory the caller may free right after the call, reads garbage and writes it to the file' % (fn.qual, launder[1], X.loc(launder[0])),
                           where=X.loc(launder[0])))
        else:
            res.append(ok(rule, '%s: %s' % (fn.qual, 'the reference carries the output lifetime' if bounded else 'no lifetime laundering; the borrow checker bounds what it returns'), sites=1))
    f = floor(rule, 'ToBytes impls', n, 8)
    if f:
        res.append(f)
    return res


def classify_output(ctx, fn, R, borrowing):
    """'bounded' : some output region is (bounded by) the transaction borrow  -> keeping the result past the transaction must be rejected
       'plain'   : the output mentions no region at all                          -> must compile
       'escaping': db-lifetime bytes without the transaction borrow (flow rule decides) ; 'other': anything else"""
    sig = fn_sig(fn)
    roles = R.roles_in_inputs(sig)
    regs = regions_of(sig['output'])
    if not regs:
        return 'plain'
    rr = set()
    for r in regs:
        rr |= roles.get(r, set())
    if rr & {'txb', 'borrow-of-carrier'}:
        return 'bounded'
    for (what, rg) in byte_nodes(sig['output'], R, borrowing):
        r2 = set()
        for r in rg:
            r2 |= roles.get(r, set())
        if 'db' in r2:
            return 'escaping'
    return 'other'


def thorough(ctx):
    """generated witnesses: for EVERY effectively public method of the transaction-bound types a client program that keeps the
    result past the end of the transaction is type-checked; rustc's verdict must agree with the signature rule's classification"""
    F = ctx.facts
    R = getattr(ctx, '_c14_roles', None) or Roles(F)
    borrowing = borrowing_adts(F)
    programs = {}
    expect = {}
    for fn in F.fns:
        if fn.kind == 'Closure' or not fn.eff_pub or 'sig' not in fn.j or not fn.self_adt:
            continue
        st = last_seg(fn.self_adt)
        if st not in RECV:
            continue
        if fn.trait and last_seg(fn.trait) in SKIP_TRAITS:
            continue
        sig = fn.j['sig']
        if not sig['inputs']:
            continue
        first = sig['inputs'][0]
        is_self = (first.get('k') == 'adt' and last_seg(first.get('path', '')) == st) or (first.get('k') == 'ref' and first['t'].get('k') == 'adt' and last_seg(first['t'].get('path', '')) == st)
        if not is_self:
            continue
        prep, recv = RECV[st]
        args = []
        okargs = True
        preds = {p['self'].get('name'): last_seg(p['trait']) for p in fn.j.get('predicates', []) if p['k'] == 'trait' and p['self'].get('k') == 'param' and last_seg(p['trait']) != 'Sized'}
        for inp in sig['inputs'][1:]:
            if inp.get('k') == 'param':
                tr = preds.get(inp['name'])
                if tr in ('AsRef', 'ToBytes'):
                    args.append('"k"')
                elif tr == 'RangeBounds':
                    args.append('..')
                else:
                    okargs = False
            elif inp.get('k') == 'prim' and inp.get('s') == 'bool':
                args.append('true')
            else:
                okargs = False
        if not okargs:
            continue
        name = 'g_%s_%s' % (st.lower(), fn.name) + ('_' + last_seg(fn.trait).lower() if fn.trait else '')
        turbofish = '::<std::ops::RangeFull>' if '..' in args and fn.name == 'range' else ''
        call = '%s.%s%s(%s)' % (recv, fn.name, turbofish, ', '.join(args))
        if st == 'Tx' and first.get('k') == 'adt':
            continue        # consumes the transaction itself (commit): covered by the hand-written witnesses
        src = '''#![allow(unused, dead_code)]
use jammdb::*;
fn sink<T>(_t: &T) {}
fn main() {
    let db = DB::open("never-run.db").unwrap();
    let kept;
    {
        let tx = db.tx(true).unwrap();
        %s
        let v = %s;
        kept = v;
    }
    sink(&kept);
}
''' % (prep, call)
        programs[name] = src
        expect[name] = (classify_output(ctx, fn, R, borrowing), fn)
    res = []
    if not programs:
        return dict(results=[floor('C14.generated', 'generated witness programs', 0, 20)], stats={})
    out = witness.run_corpus(programs, repo=getattr(F, 'repo_dir', None) or witness.REPO)
    agree = 0
    table = []
    for name, (cls, fn) in sorted(expect.items()):
        errs = out[name]['errors']
        compiled = not errs
        table.append(dict(method=fn.qual, classification=cls, rustc='compiles' if compiled else 'rejected ' + ','.join(sorted(set(errs)))))
        if cls == 'bounded' and compiled:
            res.append(bad('C14.generated', '%s | result escapes the transaction' % fn.qual,
                           'a generated client program keeps the result of %s past the end of the transaction and TYPE-CHECKS, although its signature ties the result to the transaction borrow '
                           'according to the signature rule: either the signature has a hole or the rule misjudges it' % fn.qual, where='%s:%d' % (fn.file, fn.line)))
        elif cls == 'plain' and not compiled and not (set(errs) & {'E0597', 'E0505', 'E0716'}):
            res.append(bad('C14.generated', '%s | generated program broken' % fn.qual, 'the generated program for %s fails with %s (generator out of date)' % (fn.qual, errs)))
        elif cls in ('plain', 'escaping') and not compiled and (set(errs) & {'E0597', 'E0505', 'E0716'}):
            res.append(bad('C14.generated', '%s | rustc bounds a result the rule calls %s' % (fn.qual, cls),
                           'rustc rejects keeping the result of %s past the transaction (%s) but the signature rule classifies it as %s: the rule is out of step with the type system' % (fn.qual, errs, cls)))
        else:
            agree += 1
    f = floor('C14.generated', 'generated witness programs', len(programs), 30)
    if f:
        res.append(f)
    res.append(ok('C14.generated', '%d generated programs (one per public method of Tx/Bucket/Cursor/Range/Data/KVPair/BucketName): rustc and the signature rule agree on %d' % (len(programs), agree), sites=len(programs)))
    return dict(results=res, stats=dict(generated_programs=len(programs), agreement=agree, table=table))


def run(ctx, tier):
    results = []
    wres, rows = witness_rule(ctx, tier)
    results += wres
    results += sig_rule(ctx)
    results += private_producers(ctx)
    results += type_facts(ctx)
    results += drops_read_nothing(ctx)
    results += tobytes_bounded(ctx)
    import c03
    results += c03.snapshot_fixed(ctx, rule='C14.snapshot-fixed')
    ctx.stats['witness_programs'] = len(rows)
    ctx.stats['witness_samples'] = [dict(name=r['name'], what=r['what'], status=r['status']) for r in rows[:12]]
    return dict(
        results=results, stats=dict(ctx.stats),
        explanation=(
            'The compile-time half of the property IS "such programs do not type-check" and is decided by rustc itself: a corpus of client programs (carrier x escape route: past the '
            'transaction scope E0597, past commit / drop E0505, Tx past its DB, short-lived keys and values, moved into thread::spawn or shared with a scoped thread E0277, auto-trait '
            'assertions, use after commit E0382), each with a compiling twin that differs only by the offending lines, is type-checked against the current tree with one cargo check; '
            'positive controls must compile. The run-time half is replaced by a rule over the WHOLE public surface: (sig) every effectively public signature that takes a '
            'transaction-bound value must bound byte-capable outputs by the transaction borrow (carrier parameters are discovered by propagating the borrow of &Tx through all signatures); '
            'rejected signatures go to (flow), which accepts only owned copies (variant sensitive: only Bytes::Slice can borrow the map); (private-producers) functions whose output lifetime '
            'no input constrains are not reachable from outside; commit consumes the transaction. (drop-reads-no-map) no destructor other than the transaction\'s own reaches the map view. (tobytes-bounded) by-reference ToBytes impls launder no lifetime. NOT decided: faults in programs that compile beyond this classification.'),
        assumptions=['rustc\'s borrow checker and trait solver are sound', 'the witness corpus is type-checked with the nightly toolchain (same type system as stable)'])
