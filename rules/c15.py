"""C15 Files written by earlier versions stay readable (format table + header-selection clauses)"""
import json, os
from core import ok, bad, unresolved, floor
from anchors import AnchorError
from facts import callee_of, op_local, op_place, op_const_val, last_seg, strip_generics, VERIF
from util import calls_to_fn, calls_named, has_field, has_call, stores_to_field, aggregates_of, macro_of, in_debug_assert
import c12

PINNED = os.path.join(VERIF, 'format_pinned.json')
ONDISK = ('Page', 'Meta', 'OldMeta', 'BucketMeta', 'LeafElement', 'BranchElement')
CONSTS = ('db::MAGIC_VALUE', 'db::VERSION', 'page::Page::TYPE_BRANCH', 'page::Page::TYPE_LEAF', 'page::Page::TYPE_META', 'page::Page::TYPE_FREELIST',
          'node::Node::TYPE_DATA', 'node::Node::TYPE_BUCKET')


def current_layouts(F):
    out = {}
    for name in ONDISK:
        a = F.adt(name)
        if a is None:
            continue
        out[name] = dict(repr_c=a['repr_c'], size=a.get('size'), align=a.get('align'),
                         fields=[dict(name=f['name'], ty=f['ty'], offset=f.get('offset'), size=f.get('size')) for f in a['variants'][0]['fields']])
    return out


def current_consts(F):
    out = {}
    for c in F.doc['consts']:
        p = strip_generics(c['path'])
        if p in CONSTS:
            out[p] = c.get('val')
    # a format constant that moved (`db::MAGIC_VALUE` -> `Meta::MAGIC_VALUE`) is the same constant: found by its name when exactly one constant of that name exists
    for want in CONSTS:
        if want not in out:
            same = [c for c in F.doc['consts'] if last_seg(strip_generics(c['path'])) == last_seg(want)]
            if len(same) == 1:
                out[want] = same[0].get('val')
    return out


def recipe(ctx, fn, writer_names, adt):
    """ordered [(field path, encoding)] fed to the hasher/writer in fn, in control-flow order"""
    fn = ctx.x(fn)       # a nested `feed(&mut hasher, bytes)` helper is part of the checksum function
    du = ctx.du(fn)
    order = []
    seen = set()
    todo = [0]
    while todo:      # straight-line functions: plain forward walk
        b = todo.pop(0)
        if b in seen:
            continue
        seen.add(b)
        order.append(b)
        todo.extend(fn.succ(b))
    out = []
    for bb in order:
        t = fn.term(bb)
        if t['k'] != 'call':
            continue
        c = callee_of(t)
        name = last_seg(strip_generics(c['path'])) if c else ''
        import re
        # the bytes fed to the hasher are exactly the fields: a buffer that does not start empty (zeroed(n), vec![0; n], resize, put_bytes ...) adds bytes to the recipe
        if c and name in ('zeroed', 'from_elem', 'resize', 'put_bytes', 'set_len', 'extend_from_slice', 'put_slice') and name not in writer_names and \
                any(m in (c.get('self_ty') or '') + strip_generics(c['path']) for m in ('BytesMut', 'vec::', 'Vec<u8>')):
            out.append(['<buffer>', name, ''])
        mput = re.match(r'put_([ui](?:8|16|32|64|128))(_le|_ne)?$', name) if 'put_slice' in writer_names else None
        if not c or (name not in writer_names and not mput) or len(t['args']) < 2:
            continue
        _, atoms = du.slice_operand(t['args'][1])
        fields = []
        for a in atoms:
            if a[0] == 'field' and a[1] and last_seg(a[1]) in (adt, 'BucketMeta'):
                fields.append((last_seg(a[1]), a[2]))
        enc = sorted({last_seg(strip_generics(a[2])) for a in atoms if a[0] == 'call' and 'to_' in last_seg(strip_generics(a[2])) and 'bytes' in a[2]})
        width = sorted({a[2].split('impl ')[-1].split('>')[0] for a in atoms if a[0] == 'call' and 'bytes' in a[2] and 'impl ' in a[2]})
        path = '.'.join(n for (ad, n) in sorted(fields, key=lambda x: 0 if x[0] == adt else 1))
        if mput:
            # BufMut::put_u32(x) == write(&x.to_be_bytes()); the _le / _ne forms are different encodings
            enc = [{None: 'to_be_bytes', '_le': 'to_le_bytes', '_ne': 'to_ne_bytes'}[mput.group(2)]]
            width = [mput.group(1)]
        out.append([path, '/'.join(enc), '/'.join(width)])
    return out


def hasher_kind(ctx, fn):
    kinds = set()
    for g in ctx.facts.reachable_fns([fn]) if fn else []:
        pass
    for bb, t, target, c in ctx.facts.call_sites(fn):
        if not c:
            continue
        st = c.get('self_ty') or ''
        full = c.get('full', '')
        for mark in ('fnv::FnvHasher', 'sha3::Sha3_256', 'Sha3_256', 'CoreWrapper<sha3::Sha3_256Core>'):
            if mark in st or mark in full:
                kinds.add('fnv::FnvHasher' if 'Fnv' in mark else 'sha3::Sha3_256')
    return sorted(kinds)


def current_recipes(ctx):
    A = ctx.A
    out = {}
    cs, ob, ocs = A.get('checksum-role'), A.get('old-bytes-role'), A.get('old-checksum-role')
    if cs:
        out['Meta'] = dict(hasher=hasher_kind(ctx, cs), sequence=recipe(ctx, cs, ('write',), 'Meta'))
    if ob and ocs:
        out['OldMeta'] = dict(hasher=hasher_kind(ctx, ocs), sequence=recipe(ctx, ob, ('write', 'write_all', 'put_slice'), 'OldMeta'))
    return out


def init_image(ctx):
    """constants the creation function stores into the initial image"""
    root = ctx.A.get('init_file')
    if root is None:
        return None
    img = dict(page_types=[], meta={}, root=None, counts=[])
    # the creation function and the local helpers it calls (e.g. an extracted "initialise one meta page")
    fns = sorted((g for g in ctx.facts.reachable_fns([root]) if g.kind != 'Closure' or g.owner is root), key=lambda f: f.path)
    cs = ctx.A.get('checksum-role')
    fns = [g for g in fns if g is root or (g.kind in ('Fn',) and g is not ctx.A.get('open_file'))]
    # judge the creation function with its private helpers folded in: a helper like init_empty_page(page, id, kind) stores its PARAMETER, which is a
    # constant only at each (folded) call site
    X = ctx.x(root)
    folded = set(getattr(X, 'inlined', ()))
    fns = [X] + [g for g in fns if g is not root and g.qual not in folded]

    def cval(fn, operand):
        v = op_const_val(operand)
        if v is not None:
            return v
        e = ctx.du(fn).sym(operand)
        return e[1] if e[0] == 'const' else None
    for fn in fns:
        for bb, si, s in stores_to_field(fn, 'Page', 'page_type'):
            img['page_types'].append(cval(fn, s['rv']['op']) if s['rv']['k'] == 'use' else None)
        for fld in ('freelist_page', 'num_pages', 'magic', 'version'):
            for bb, si, s in stores_to_field(fn, 'Meta', fld):
                if s['rv']['k'] == 'use':
                    img['meta'][fld] = cval(fn, s['rv']['op'])
        for bb, si, s in aggregates_of(fn, 'BucketMeta'):
            img['root'] = [cval(fn, o) for o in s['rv']['ops']]
        for bb, si, s in stores_to_field(fn, 'Page', 'count'):
            img['counts'].append(cval(fn, s['rv']['op']) if s['rv']['k'] == 'use' else None)
    img['page_types'] = sorted(x for x in img['page_types'] if x is not None)
    return img


def snapshot(ctx):
    return dict(layouts=current_layouts(ctx.facts), consts=current_consts(ctx.facts), recipes=current_recipes(ctx), init_image=init_image(ctx),
                open_refusals=count_open_refusals(ctx), element_extents=element_extents(ctx))


def table_rules(ctx):
    res = []
    if not os.path.exists(PINNED):
        return [unresolved('C15.layout', 'format_pinned.json')]
    pin = json.load(open(PINNED))
    cur = snapshot(ctx)
    # layout
    for name in ONDISK:
        p, c = pin['layouts'].get(name), cur['layouts'].get(name)
        if c is None:
            res.append(bad('C15.layout', '%s | type missing' % name, 'on-disk type %s no longer exists' % name))
            continue
        if not c['repr_c']:
            res.append(bad('C15.layout', '%s | not repr(C)' % name, 'on-disk type %s is no longer #[repr(C)]: its field order and padding are unspecified' % name))
        if p != c:
            diff = []
            for i, (a, b) in enumerate(zip(p['fields'], c['fields'])):
                if a != b:
                    diff.append('field %d: pinned %s@%s:%s(%s) now %s@%s:%s(%s)' % (i, a['name'], a['offset'], a['ty'], a['size'], b['name'], b['offset'], b['ty'], b['size']))
            if len(p['fields']) != len(c['fields']):
                diff.append('field count %d -> %d' % (len(p['fields']), len(c['fields'])))
            if p['size'] != c['size'] or p['align'] != c['align']:
                diff.append('size/align %s/%s -> %s/%s' % (p['size'], p['align'], c['size'], c['align']))
            res.append(bad('C15.layout', '%s | layout differs from the pinned format' % name,
                           'the byte layout of on-disk type %s differs from the pinned release: %s — files written by earlier versions would be misread' % (name, '; '.join(diff))))
        else:
            res.append(ok('C15.layout', '%s: %d fields, size %s, align %s equal the pinned layout' % (name, len(c['fields']), c['size'], c['align']), sites=len(c['fields'])))
    # consts
    for k in CONSTS:
        if cur['consts'].get(k) != pin['consts'].get(k):
            res.append(bad('C15.consts', '%s | value differs' % k, 'format constant %s is %s, the pinned release has %s' % (k, cur['consts'].get(k), pin['consts'].get(k))))
        else:
            res.append(ok('C15.consts', '%s = %s' % (k, cur['consts'].get(k)), sites=1))
    # recipes
    for k in ('Meta', 'OldMeta'):
        p, c = pin['recipes'].get(k), cur['recipes'].get(k)
        if c is None:
            res.append(unresolved('C15.checksum-recipe', k + ' checksum role'))
        elif p != c:
            res.append(bad('C15.checksum-recipe', '%s | recipe differs' % k,
                           'the checksum recipe of %s (hasher %s, sequence %s) differs from the pinned one (hasher %s, sequence %s): headers written by earlier versions would not validate'
                           % (k, c['hasher'], c['sequence'], p['hasher'], p['sequence'])))
        else:
            res.append(ok('C15.checksum-recipe', '%s: hasher %s over %d fields in pinned order and encoding' % (k, c['hasher'], len(c['sequence'])), sites=len(c['sequence'])))
    # creation image
    if cur['init_image'] != pin['init_image']:
        res.append(bad('C15.init-image', 'init_file | creation image differs', 'the constants stored by the creation function (%s) differ from the pinned creation image (%s)' % (cur['init_image'], pin['init_image'])))
    else:
        res.append(ok('C15.init-image', 'creation image constants equal the pinned ones: %s' % cur['init_image'], sites=1))
    return res


_PRIM_SIZE = {'u8': 1, 'i8': 1, 'bool': 1, 'u16': 2, 'i16': 2, 'u32': 4, 'i32': 4, 'u64': 8, 'i64': 8, 'usize': 8, 'isize': 8, 'u128': 16}


def _size_of(F, ty):
    ty = ty.strip()
    if ty in _PRIM_SIZE:
        return _PRIM_SIZE[ty]
    a = F.adt(last_seg(ty)) if '<' not in ty else None
    return a.get('size') if a else None


def _pointee(ty):
    for pre in ('*const ', '*mut ', '&mut ', '&'):
        if ty.startswith(pre):
            return ty[len(pre):]
    return None


def payload_offset(F, fn, du, operand, depth=0):
    """byte distance between the pointer in `operand` and the function's first argument (self), when it is a compile-time constant: through copies, pointer casts,
    `&(*p).a.b` (field offsets of repr(C) types) and `p.add(n)` / `p.byte_add(n)` with constant n.  None when it cannot be evaluated"""
    off = 0
    p = op_place(operand)
    while p is not None and depth < 40:
        depth += 1
        if p['pr']:
            return None
        l = p['l']
        if l == 1:
            return off
        ds = du.defs.get(l, [])
        if len(ds) != 1:
            return None
        bb, si = ds[0]
        if si is None:
            t = fn.term(bb)
            c = callee_of(t) if t['k'] == 'call' else None
            nm = last_seg(strip_generics(c['path'])) if c else None
            if nm in ('add', 'byte_add', 'offset', 'byte_offset', 'wrapping_add') and len(t['args']) == 2 and 'ptr' in c['path']:
                n = op_const_val(t['args'][1])
                q = op_place(t['args'][0])
                if n is None or q is None:
                    return None
                sz = 1 if nm.startswith('byte_') else _size_of(F, _pointee(fn.locals[q['l']]['ty']) or '')
                if sz is None:
                    return None
                off += n * sz
                p = q
                continue
            if nm in ('cast', 'cast_const', 'cast_mut', 'as_ptr', 'as_mut_ptr', 'from_ref', 'from_mut', 'addr_of') and t['args']:
                p = op_place(t['args'][0])
                continue
            return None
        st = fn.blocks[bb]['stmts'][si]
        if st['p']['pr']:
            return None
        rv = st['rv']
        if rv['k'] == 'use':
            p = op_place(rv['op'])
        elif rv['k'] == 'cast' and rv.get('ck') in ('PtrToPtr', 'MutToConstPointer', 'Transmute', 'PointerCoercion'):
            p = op_place(rv['op'])
        elif rv['k'] in ('ref', 'rawptr'):
            q = rv['p']
            pr = list(q['pr'])
            if not pr or pr[0]['k'] != 'deref':
                return None
            for e in pr[1:]:
                if e['k'] != 'field' or not e.get('adt'):
                    return None
                a = F.adt(last_seg(e['adt']))
                if not a or not a.get('repr_c'):
                    return None
                fo = a['variants'][0]['fields'][e['i']].get('offset')
                if fo is None:
                    return None
                off += fo
            p = dict(l=q['l'], pr=[])
        else:
            return None
    return None


def payload_origin(ctx, rule='C15.payload-origin'):
    """every accessor of the page header that hands out the page's payload as another on-disk type (free-list ids, leaf / branch elements, the header structs) takes it from the
    same place: the address of the header's last field, `ptr`.  The field offsets themselves are pinned by (layout); this pins the one offset that is not a field of any struct --
    where the payload starts -- for readers and writers alike (they share the accessors, so the current code stays consistent with itself whatever the offset is)"""
    res = []
    F = ctx.facts
    page = F.adt('Page')
    if page is None:
        return [unresolved(rule, 'Page')]
    want = [f0.get('offset') for f0 in page['variants'][0]['fields'] if f0['name'] == 'ptr']
    if not want or want[0] is None:
        return [unresolved(rule, 'Page.ptr offset')]
    want = want[0]
    n = 0
    for fn in sorted(F.fns, key=lambda g: g.path):
        if not (fn.self_adt and last_seg(fn.self_adt) == 'Page') or fn.argc < 1 or not fn.locals[1]['ty'].replace('&mut ', '&').startswith('&page::Page'):
            continue
        out = fn.locals[0]['ty']
        if not out.startswith('&') or 'page::Page' == out.replace('&mut ', '').replace('&', ''):
            continue
        fn = ctx.x(fn)        # a private `data_ptr()` helper shared by the accessors is part of each of them
        du = ctx.du(fn)
        ptrs = []
        for bb in fn.reachable_blocks():
            t = fn.term(bb)
            c = callee_of(t) if t['k'] == 'call' else None
            if c and last_seg(strip_generics(c['path'])) in ('from_raw_parts', 'from_raw_parts_mut') and t['args']:
                ptrs.append((bb, t['args'][0]))
        if not ptrs:
            # `&*(p as *const T)`: the returned reference is a reborrow of a raw pointer
            for bb in fn.reachable_blocks():
                for si, st in enumerate(fn.blocks[bb]['stmts']):
                    if st['k'] == 'assign' and st['rv']['k'] in ('ref',) and st['rv']['p']['pr'] and st['rv']['p']['pr'][0]['k'] == 'deref' \
                            and str(st['rv']['p']['pr'][0].get('of', '')).startswith('*') and len(st['rv']['p']['pr']) == 1:
                        ptrs.append((bb, dict(k='copy', p=dict(l=st['rv']['p']['l'], pr=[]))))
        for bb, o in ptrs:
            n += 1
            off = payload_offset(F, fn, du, o)
            if off == want:
                res.append(ok(rule, '%s: payload taken at byte %d of the page (address of Page.ptr)' % (fn.qual, want), sites=1))
            elif off is None:
                res.append(bad(rule, '%s | payload address not a constant offset from the page header' % fn.qual,
                               'the pointer that %s turns into `%s` at %s could not be evaluated to a constant distance from the page header; the pinned format puts the payload at '
                               'byte %d (the address of Page.ptr)' % (fn.qual, out, fn.loc(bb), want), where=fn.loc(bb)))
            else:
                res.append(bad(rule, '%s | payload taken at byte %d, the pinned format has it at %d' % (fn.qual, off, want),
                               '%s hands out the page payload as `%s` starting %d bytes after the page header (%s); in the pinned format it starts at byte %d, the address of '
                               'Page.ptr: files written by earlier versions are read shifted, and files written now are not readable by them' % (fn.qual, out, off, fn.loc(bb), want),
                               where=fn.loc(bb)))
    f = floor(rule, 'payload accessors of Page', n, 7)
    if f:
        res.append(f)
    return res


def direct_source(du, fn, operand, depth=0):
    """the place an operand is a plain copy of (following single-definition temporaries), or None"""
    p = op_place(operand)
    while p is not None and depth < 12:
        depth += 1
        if p['pr']:
            return p
        ds = du.defs.get(p['l'], [])
        if len(ds) != 1 or ds[0][1] is None:
            return p
        s = fn.blocks[ds[0][0]]['stmts'][ds[0][1]]
        if s['p']['pr'] or s['rv']['k'] not in ('use',):
            return p
        p = op_place(s['rv']['op'])
    return p


def _same_named(ctx, fn, du, operand, src_adt, fld, rule, what, where):
    p = direct_source(du, fn, operand)
    fs = [(last_seg(e['adt']) if e.get('adt') else None, e.get('name')) for e in (p['pr'] if p else []) if e['k'] == 'field']
    names = [n for (a, n) in fs if a == src_adt]
    if names and names[-1] == fld:
        return ok(rule, '%s: Meta.%s is a copy of the same-named field of %s' % (what, fld, src_adt), sites=1)
    return bad(rule, '%s | Meta.%s from %s' % (fn.qual, fld, '.'.join(n for a, n in fs) or 'a computed value'),
               '%s: field Meta.%s is filled from `%s` instead of the same-named field of %s' % (what, fld, '.'.join(n for a, n in fs) or 'a computed value', src_adt), where=where)


def legacy_fallback(ctx, rule='C15.legacy-fallback'):
    res = []
    try:
        hdr, vr, ovr, cs = ctx.need('DBInner::meta', 'valid-role', 'old-valid-role', 'checksum-role')
    except AnchorError as e:
        return [unresolved(rule, str(e))]
    F = ctx.facts
    fn = ctx.x(hdr)
    nv = [bb for bb, t, c in calls_to_fn(F, fn, vr)]
    ov = [bb for bb, t, c in calls_to_fn(F, fn, ovr)]
    if not ov:
        return [bad(rule, '%s | legacy validation unreachable' % fn.qual, 'header selection no longer validates the legacy (<= 0.10) header format: old files cannot be opened',
                    where='%s:%d' % (fn.file, fn.line))]
    # the new format is tried first: some new-format validity test dominates every legacy test, and a successful return exists that avoids the legacy tests
    if not nv:
        res.append(bad(rule, '%s | current format never validated' % fn.qual, 'header selection has no validity test of the current header format', where='%s:%d' % (fn.file, fn.line)))
    for b in ov:
        after = fn.reach_from(fn.succ(b))
        late = [a for a in nv if a in after]
        if late:
            res.append(bad(rule, '%s | legacy format tried first' % fn.qual, 'a validity test of the current format (%s) is reachable after the legacy test at %s: the current format must be tried first'
                           % (fn.loc(late[0]), fn.loc(b)), where=fn.loc(b)))
    rets = [b for b in fn.reach_from([0], avoid=set(ov)) if fn.term(b)['k'] == 'return']
    if not rets:
        res.append(bad(rule, '%s | current format cannot be returned without consulting the legacy format' % fn.qual, 'every return of header selection passes a legacy validity test', where='%s:%d' % (fn.file, fn.line)))
    if not any(not r.ok for r in res):
        res.append(ok(rule, 'legacy validation (%d tests) is reachable and only after the current-format tests (%d)' % (len(ov), len(nv)), sites=len(ov) + len(nv)))
    # conversion OldMeta -> Meta
    conv = [g for g in F.fns if g.trait and last_seg(g.trait) == 'From' and g.self_adt and last_seg(g.self_adt) == 'Meta' and 'OldMeta' in (g.j.get('trait_full') or '')]
    if len(conv) != 1:
        res.append(unresolved(rule, 'From<&OldMeta> for Meta'))
        return res
    g = ctx.x(conv[0])        # a constructor the conversion goes through is folded in
    du = ctx.du(g)
    aggs = aggregates_of(g, 'Meta')
    aggs = [(bb, si, s) for bb, si, s in aggs if s['rv']['adt'].endswith('meta::Meta')]
    if not aggs:
        res.append(unresolved(rule, 'Meta aggregate in the legacy conversion'))
        return res
    bb, si, s = aggs[0]
    for nme, o in zip(s['rv']['fields'], s['rv']['ops']):
        if nme == 'hash':
            continue
        res.append(_same_named(ctx, g, du, o, 'OldMeta', nme, rule, 'legacy header conversion', g.loc(bb, si)))
    seals = [x for x in stores_to_field(g, 'Meta', 'hash') if x[2]['rv']['k'] == 'use' and has_call(du.slice_operand(x[2]['rv']['op'])[1], cs.path)]
    if seals:
        res.append(ok(rule, 'the converted header is re-sealed with the current checksum', sites=1))
    else:
        res.append(bad(rule, '%s | converted header not re-sealed' % g.qual, 'the legacy conversion does not recompute Meta.hash with the current checksum', where='%s:%d' % (g.file, g.line)))
    return res


def header_image(ctx, rule='C15.header-image'):
    res = []
    import c02
    builders = c02.image_builders(ctx)
    if not builders:
        return [floor(rule, 'header-image builders in the commit trace', 0, 1)]
    F = ctx.facts
    fields = [f['name'] for f in F.adt_fields('Meta')]
    for fn in builders:
        du = ctx.du(fn)
        for fld in fields:
            st = c02.image_stores(fn, fld)
            if not st:
                res.append(bad(rule, '%s | Meta.%s not written into the header image' % (fn.qual, fld),
                               'the header image built in %s never assigns Meta.%s: the field would be left zero in the file' % (fn.qual, fld), where='%s:%d' % (fn.file, fn.line)))
                continue
            if fld in ('meta_page', 'hash'):
                res.append(ok(rule, 'Meta.%s assigned in the header image (slot computation / checksum, see C02.alternate, C12.seal-last)' % fld, sites=1))
                continue
            bb, si, s = st[0]
            if s['rv']['k'] != 'use':
                res.append(bad(rule, '%s | Meta.%s computed' % (fn.qual, fld), 'Meta.%s in the header image is not a copy of the transaction\'s field' % fld, where=fn.loc(bb, si)))
                continue
            res.append(_same_named(ctx, fn, du, s['rv']['op'], 'Meta', fld, rule, 'commit header image', fn.loc(bb, si)))
    return res


def pagesize_refusal(ctx, rule='C15.pagesize-refusal'):
    res = []
    try:
        (hdr,) = ctx.need('DBInner::meta')
    except AnchorError as e:
        return [unresolved(rule, str(e))]
    fn = ctx.x(hdr)
    du = ctx.du(fn)
    nsel = 0
    # comparisons of a header's pagesize with the configured one
    cmps = []
    for bb in sorted(fn.reachable_blocks()):
        t = fn.term(bb)
        if t['k'] != 'switch':
            continue
        locs, atoms = du.slice_operand(t['discr'])
        if not (has_field(atoms, 'DBInner', 'pagesize') and (has_field(atoms, 'Meta', 'pagesize') or has_field(atoms, 'OldMeta', 'pagesize'))):
            continue
        if not any(a[0] == 'bin' and a[1] in ('Eq', 'Ne') for a in atoms):
            continue
        handles = {du.root_of(a[3]) for a in atoms if a[0] == 'load' and a[2] == 'pagesize' and a[1] and last_seg(a[1]) in ('Meta', 'OldMeta')}
        # the mismatch edge must not return normally
        for s in fn.succ(bb):
            reach = fn.reach_from([s])
            if not any(fn.term(x)['k'] == 'return' for x in reach):
                other = [x for x in fn.succ(bb) if x != s]
                cmps.append((bb, other[0] if other else None, handles))
    for bb in sorted(fn.reachable_blocks()):
        for si, s in enumerate(fn.blocks[bb]['stmts']):
            if s['k'] != 'assign' or s['rv']['k'] != 'agg' or s['rv'].get('ak') != 'adt' or s['rv']['adt'] != 'std::option::Option' or s['rv']['variant'] != 'Some':
                continue
            l = op_local(s['rv']['ops'][0]) if s['rv']['ops'] else None
            if l is None or fn.locals[l]['ty'] not in c12.HANDLE_TYS:
                continue
            nsel += 1
            okk = True
            vedges = c12._valid_edges(ctx, fn)
            for h in du.roots_of(l):
                # paths on which this header failed its validity test cannot end in its selection (C12.select-total decides that), so they are cut as well:
                # `if valid1 { assert pagesize }` followed by the match is then recognised as a check on every feasible path
                invalid = {(vb, x) for (vb, vt, hs) in vedges if h in hs for x in fn.succ(vb) if x != vt}
                match_edges = {(cb, match_t) for (cb, match_t, hs) in cmps if h in hs and match_t is not None}
                this = bool(match_edges) and bb not in fn.reach_from([0], avoid_edges=match_edges | invalid)
                okk = okk and this
            if okk:
                res.append(ok(rule, 'header selected at %s only behind a page-size comparison whose mismatch edge does not return' % fn.loc(bb, si), sites=1))
            else:
                res.append(bad(rule, '%s | header selected without page-size check' % fn.qual,
                               'the header selected at %s is not dominated by a comparison of ITS pagesize with the configured page size that refuses a mismatch: a file would be '
                               'interpreted with the wrong page size' % fn.loc(bb, si), where=fn.loc(bb, si)))
    f = floor(rule, 'header selections', nsel, 4)
    if f:
        res.append(f)
    return res


def element_extents(ctx):
    """{accessor: sorted leaves of the sum that bounds the bytes an element accessor hands out}, e.g. LeafElement::value -> [key_size, pos, value_size]; anything that is
    not a plain sum of the element's own fields is rendered as text (and so differs from every pinned entry)"""
    F = ctx.facts
    out = {}
    for f in F.fns:
        if not (f.self_adt and last_seg(f.self_adt) in ('LeafElement', 'BranchElement')) or f.kind == 'Closure' or f.trait:
            continue
        if not f.locals[0]['ty'].startswith('&[u8]'):
            continue
        X = ctx.x(f)
        du = ctx.du(X)
        for bb in X.reachable_blocks():
            t = X.term(bb)
            c = callee_of(t) if t['k'] == 'call' else None
            if c and last_seg(strip_generics(c['path'])) in ('from_raw_parts', 'from_raw_parts_mut') and len(t['args']) == 2:
                e = du.sym(t['args'][1])
                leaves, pure = [], True
                todo = [e]
                # `from_raw_parts(start.add(pos), len)` ends where `from_raw_parts(start, pos + len)` ends: offsets added to the base pointer count towards the extent
                ptr = du.sym(t['args'][0])
                for _ in range(8):
                    if ptr[0] == 'call' and last_seg(strip_generics(ptr[1])) in ('add', 'byte_add', 'offset', 'wrapping_add') and len(ptr[2]) == 2:
                        todo.append(ptr[2][1])
                        ptr = ptr[2][0]
                    elif ptr[0] == 'call' and len(ptr[2]) == 1 and last_seg(strip_generics(ptr[1])) in ('cast', 'cast_const', 'cast_mut', 'from_ref', 'from_mut', 'as_ptr'):
                        ptr = ptr[2][0]
                    else:
                        break
                while todo:
                    x = todo.pop()
                    if x[0] == 'bin' and x[1] in ('Add', 'AddWithOverflow', 'AddUnchecked'):
                        todo += [x[2], x[3]]
                    elif x[0] == 'field' and x[1] == ('arg', 1) and len(x[2]) == 1:
                        leaves.append(x[2][0])
                    else:
                        pure = False
                out['%s::%s' % (last_seg(f.self_adt), f.name)] = sorted(leaves) if pure else ['not a sum of fields: ' + str(e)[:160]]
    return out


def element_placement(ctx, rule='C15.element-placement'):
    """where an element's key and value bytes lie relative to the element header: the extent each accessor hands out is the pinned sum of the element's own fields
    (key: pos + key_size; value: pos + key_size + value_size).  Writer, reader and size accounting of the crate can agree on any other placement (8-byte alignment of values ...)
    and every test that writes its own files passes; files of the pinned release are then read shifted"""
    res = []
    if not os.path.exists(PINNED):
        return [unresolved(rule, 'format_pinned.json')]
    pin = json.load(open(PINNED)).get('element_extents')
    if pin is None:
        return [unresolved(rule, 'element_extents in format_pinned.json')]
    cur = element_extents(ctx)
    f = floor(rule, 'element accessors handing out bytes', len(cur), 3)
    if f:
        res.append(f)
    for k in sorted(pin):
        if k not in cur:
            continue        # an accessor that no longer exists reads nothing wrongly (the readers that replace it are listed under their own names)
        if cur[k] != pin[k]:
            res.append(bad(rule, '%s | extent differs from the pinned format' % k,
                           'the bytes handed out by %s extend to %s; in the pinned format they extend to the sum of %s: keys / values of files written by the pinned release are read '
                           'at the wrong offset' % (k, ' + '.join(cur[k]), ' + '.join(pin[k]))))
        else:
            res.append(ok(rule, '%s hands out bytes up to %s as pinned' % (k, ' + '.join(cur[k])), sites=1))
    for k in sorted(set(cur) - set(pin)):
        if cur[k] and cur[k][0].startswith('not a sum'):
            res.append(bad(rule, '%s | extent is not a sum of element fields' % k, 'the new accessor %s computes its extent as %s' % (k, cur[k][0])))
    return res


def open_refusals(ctx, rule='C15.open-refusals'):
    """the conditions on which opening a file is refused are those of the pinned release: counted over everything reachable from open (helpers included, wherever they are
    moved), the explicit refusal sites -- `panic!` / `assert!` outside debug assertions, and constructions of a non-I/O value of the crate's error type -- do not grow.  A new
    refusal narrows the set of files that open, which files written by the pinned release do not know about (a length that is no multiple of a non-power-of-two page size ...)"""
    res = []
    F = ctx.facts
    try:
        op, cm = ctx.need('OpenOptions::open', 'Tx::commit')
    except AnchorError as e:
        return [unresolved(rule, str(e))]
    if not os.path.exists(PINNED):
        return [unresolved(rule, 'format_pinned.json')]
    pin = json.load(open(PINNED)).get('open_refusals')
    cur = count_open_refusals(ctx)
    if pin is None:
        return [unresolved(rule, 'open_refusals in format_pinned.json')]
    f = floor(rule, 'explicit refusal sites on the open path', cur['total'], 1)
    if f:
        res.append(f)
    if cur['total'] > pin['total']:
        new = [x for x in cur['sites'] if x not in pin['sites']]
        res.append(bad(rule, '%s | more refusal sites than the pinned release (%d > %d)' % (op.qual, cur['total'], pin['total']),
                       'opening a database can now be refused at %d explicit sites (%s), the pinned release has %d (%s); new: %s -- a file the pinned release wrote and would open '
                       'may be rejected' % (cur['total'], _fmt_sites(cur['sites']), pin['total'], _fmt_sites(pin['sites']), _fmt_sites(new) or '(same kinds, more of them)'),
                       where='%s:%d' % (op.file, op.line)))
    else:
        res.append(ok(rule, 'open refuses at %d explicit sites, the pinned release at %d' % (cur['total'], pin['total']), sites=cur['total']))
    return res


def _fmt_sites(sites):
    return ', '.join('%s x%d' % (k, n) for k, n in sorted(sites.items())) if isinstance(sites, dict) else str(sites)


def count_open_refusals(ctx):
    F = ctx.facts
    op = ctx.A.get('OpenOptions::open')
    cm = ctx.A.get('Tx::commit')
    sites = {}
    if op is None:
        return dict(total=0, sites={})
    seen = set()
    def config_only(g):
        # a function that sees nothing of the file (no File / map / header / page / DBInner / byte-slice parameter) can only refuse a CONFIGURATION: the builder's limits
        # restated in a helper (`validate_pagesize(pagesize)`) refuse no file
        tys = ' '.join(g.locals[i]['ty'] for i in range(1, g.argc + 1))
        return g.argc >= 1 and not any(m in tys for m in ('File', 'Mmap', 'DBInner', 'Meta', 'Page', '[u8]', 'OpenOptions', 'Path', 'DB'))
    for g in F.reachable_fns([op]):
        if g is cm or config_only(g):
            continue
        for bb in g.reachable_blocks():
            t = g.term(bb)
            key = None
            c = callee_of(t) if t['k'] == 'call' else None
            if c and c['path'].startswith(c12.PANIC_FNS):
                ms = [m for m in macro_of(t.get('span', {})) if m in ('panic', 'assert', 'assert_eq', 'assert_ne', 'unreachable', 'todo', 'unimplemented')]
                if ms and not in_debug_assert(t.get('span', {})):
                    loc = (t['span'].get('file'), t['span'].get('line'))
                    if loc in seen:
                        continue
                    seen.add(loc)
                    key = 'panic in ' + g.qual
            for st in g.blocks[bb]['stmts']:
                if st['k'] == 'assign' and st['rv']['k'] == 'agg' and st['rv'].get('ak') == 'adt' and st['rv']['adt'].endswith('errors::Error') and st['rv']['variant'] not in ('Io', 'IO', 'IOError'):
                    if not any(m in ('derive', 'Debug', 'PartialEq', 'Clone') for m in macro_of(st.get('span', {}))):
                        k2 = 'Error::%s in %s' % (st['rv']['variant'], g.qual)
                        sites[k2] = sites.get(k2, 0) + 1
            if key:
                sites[key] = sites.get(key, 0) + 1
    return dict(total=sum(sites.values()), sites=sites)


def run(ctx, tier):
    import c05
    results = []
    results += table_rules(ctx)
    results += payload_origin(ctx)
    results += element_placement(ctx)
    results += legacy_fallback(ctx)
    results += header_image(ctx)
    results += pagesize_refusal(ctx)
    results += open_refusals(ctx)
    import c06
    for r in c06.open_existing(ctx, rule='C15.refusal-write-free'):
        results.append(r)
    import c16
    results += c16.no_pow2_arith(ctx, rule='C15.no-pow2-arith')
    results += c05.serialiser_total(ctx, rule='C15.serialiser-total')
    results += c05.reader_writer_tables(ctx, rule='C15.reader-writer-tables')
    import c02
    results += c02.reload_rule(ctx, rule='C15.reload')
    # files written by the current code conform to the layout: the slot number stored in a header image is the slot the page is written to (computed, not copied)
    results += c02.alternate_rule(ctx, rule='C15.alternate')
    # "accepts further commits": every transaction takes its header through the selection function (new format first, then legacy), not from a format decided once at open
    import c09
    results += c09.snapshot_source(ctx, rule='C15.snapshot-source')
    results += c12.header_extent(ctx, rule='C15.header-extent')
    results += c05.freelist_order(ctx, rule='C15.freelist-order')
    results += c05.no_narrowing(ctx, rule='C15.no-narrowing')
    return dict(
        results=results, stats=dict(ctx.stats),
        explanation=(
            'The format half of the property is a table comparison and is decided exactly: layout_of (field, offset, size, type, total size/align, repr(C)) of the six on-disk '
            'structs, the evaluated format constants, the ordered checksum recipes (hasher type, field order, big-endian encoding) of the current and the legacy header, and the '
            'constants of the creation image all equal format_pinned.json (taken from the pinned release); header selection tries the current format first and still reaches the '
            'legacy validation, whose conversion copies every field from its namesake and re-seals; the commit writes every header field from its namesake; a header is only used '
            'behind a page-size comparison that refuses a mismatch, and opening an existing file is write-free (so the refusal leaves the file unmodified); element serialiser and readers agree on the fields; no mask / shift arithmetic on the page size (files at non-power-of-two page sizes such as 5000 are supported). (payload-origin) every payload accessor of the page header starts at the address of Page.ptr; (open-refusals) explicit refusal sites on the open path do not outnumber the pinned ones; (snapshot-source) each transaction takes its header through the selection function. (element-placement) element accessors hand out the pinned extents. NOT decided: that a file opens with identical logical contents.'),
        assumptions=['format_pinned.json is the format of the pinned release (generated from it once and cross-checked with layout_of)'])
