"""The writable guard: which blocks of a function execute only for writable transactions.

A *writable test* is a switch whose discriminant is (a possibly negated copy of) the transaction's writable bit:
the result of `TxLock::writable()` / `Tx::writable()` or the `writable` field of a carrier (Bucket, Cursor, Buckets)."""
from facts import callee_of, op_local, op_place, last_seg, strip_generics

CARRIERS_WITH_BIT = ('Bucket', 'Cursor', 'Buckets')


def _writable_fns(facts):
    out = set()
    # the TxLock method returning bool, and Tx methods returning bool that call it (roles, names only as tie-break)
    cg = facts.callgraph()
    for f in facts.fns:
        if f.kind == 'AssocFn' and not f.trait and f.self_adt and f.self_adt.endswith('TxLock') and f.locals[0]['ty'] == 'bool':
            out.add(f.path)
    for f in facts.fns:
        if f.kind == 'AssocFn' and not f.trait and f.self_adt and f.self_adt.endswith('::Tx') and f.locals[0]['ty'] == 'bool' and any(g.path in out for g in cg.get(f, ())):
            out.add(f.path)
    return out


def resolve_bool(facts, fn, du, l, depth=0):
    """follow single definitions of bool local l: returns (is_writable_bit, inverted) or (False, False)"""
    wf = _writable_fns(facts)
    inv = False
    seen = set()
    while l not in seen and depth < 20:
        seen.add(l)
        depth += 1
        ds = du.defs.get(l, [])
        if len(ds) != 1:
            return False, False
        bb, si = ds[0]
        if si is None:
            t = fn.term(bb)
            c = callee_of(t)
            if c and (c['path'] in wf or (c.get('resolved') or {}).get('path') in wf):
                return True, inv
            return False, False
        s = fn.blocks[bb]['stmts'][si]
        if s['p']['pr']:
            return False, False
        rv = s['rv']
        if rv['k'] == 'un' and rv['op'] == 'Not':
            inv = not inv
            l = op_local(rv['a'])
            if l is None:
                return False, False
            if rv['a']['p']['pr']:
                return _field_bit(rv['a']['p']), inv
            continue
        if rv['k'] == 'use':
            p = op_place(rv['op'])
            if p is None:
                return False, False
            if p['pr']:
                return _field_bit(p), inv
            l = p['l']
            continue
        return False, False
    return False, False


def _field_bit(p):
    fs = [e for e in p['pr'] if e['k'] == 'field']
    return bool(fs) and fs[-1].get('name') == 'writable' and fs[-1].get('adt') and last_seg(fs[-1]['adt']) in CARRIERS_WITH_BIT


def _guard_helper(facts, h):
    """index of the bool parameter p of a crate-local helper of the form `fn(p) -> Result<()> { if !p { return Err(..) } Ok(()) }` (require_writable), or None"""
    cache = getattr(facts, '_guard_helpers', None)
    if cache is None:
        cache = facts._guard_helpers = {}
    if h.path in cache:
        return cache[h.path]
    res = None
    bools = [i for i in range(1, h.argc + 1) if h.locals[i]['ty'] == 'bool']
    if len(bools) == 1 and len(h.blocks) <= 12 and h.locals[0]['ty'].startswith('std::result::Result<()'):
        from reach import pruned_blocks
        p = bools[0]

        def kinds(live):
            ks = set()
            for bb in live:
                for s in h.blocks[bb]['stmts']:
                    if s['k'] == 'assign' and s['p']['l'] == 0 and s['rv']['k'] == 'agg':
                        ks.add(s['rv'].get('variant'))
            return ks
        if kinds(pruned_blocks(h, {p: True})) == {'Ok'} and kinds(pruned_blocks(h, {p: False})) == {'Err'}:
            res = p
    cache[h.path] = res
    return res


def _self_guard_helper(facts, h, _depth=[0]):
    """is h a small `fn(&self) -> Result<()>` whose writable edge returns Ok and whose read-only edge returns Err?"""
    cache = getattr(facts, '_self_guard_helpers', None)
    if cache is None:
        cache = facts._self_guard_helpers = {}
    if h.path in cache:
        return cache[h.path]
    cache[h.path] = False
    if _depth[0] > 2 or len(h.blocks) > 14 or not h.locals[0]['ty'].startswith('std::result::Result<()') or h.argc < 1:
        return False
    from flow import DefUse
    _depth[0] += 1
    try:
        tests = writable_tests(facts, h, DefUse(facts, h))
    finally:
        _depth[0] -= 1
    if len(tests) != 1:
        return False
    tb, tt, ft = tests[0]

    def kinds(start):
        ks = set()
        for bb in h.reach_from([start]):
            for s in h.blocks[bb]['stmts']:
                if s['k'] == 'assign' and s['p']['l'] == 0 and s['rv']['k'] == 'agg':
                    ks.add(s['rv'].get('variant'))
        return ks
    res = kinds(tt) == {'Ok'} and kinds(ft) == {'Err'}
    cache[h.path] = res
    return res


def writable_tests(facts, fn, du):
    """[(switch_bb, true_target (writable), false_target (read-only))]"""
    out = []
    # a guard helper applied to the writable bit and followed by `?`:  require_writable(self.writable)?
    from flow import result_switch
    for bb in sorted(fn.reachable_blocks()):
        t = fn.term(bb)
        if t['k'] != 'call':
            continue
        c = callee_of(t)
        h = None
        if c:
            r = c.get('resolved')
            h = facts.by_path.get(r['path']) if r and r['local'] else (facts.by_path.get(c['path']) if c['local'] else None)
        if h is None:
            continue
        p = _guard_helper(facts, h)
        if p is None and _self_guard_helper(facts, h):
            # `self.writable()?` -- a method that tests the writable bit of its own receiver and returns ReadOnlyTx otherwise
            rs = result_switch(fn, bb)
            if rs and rs['ok'] is not None and rs.get('err') is not None:
                out.append((rs['switch_bb'], rs['ok'], rs['err']))
            continue
        if p is None or p - 1 >= len(t['args']):
            continue
        a = op_place(t['args'][p - 1])
        if a is None:
            continue
        if a['pr']:
            isw, inv = _field_bit(a), False
        else:
            isw, inv = resolve_bool(facts, fn, du, a['l'])
        if not isw or inv:
            continue
        rs = result_switch(fn, bb)
        if rs and rs['ok'] is not None and rs.get('err') is not None:
            out.append((rs['switch_bb'], rs['ok'], rs['err']))
    for bb in sorted(fn.reachable_blocks()):
        t = fn.term(bb)
        if t['k'] != 'switch':
            continue
        p = op_place(t['discr'])
        if p is None:
            continue
        if p['pr']:
            isw, inv = _field_bit(p), False
        else:
            isw, inv = resolve_bool(facts, fn, du, p['l'])
        if not isw:
            continue
        tg = dict((v, b) for v, b in t['targets'])
        zero = tg.get(0, t['otherwise'])
        nonzero = t['otherwise'] if 0 in tg else None
        if nonzero is None:
            continue
        if inv:
            out.append((bb, zero, nonzero))
        else:
            out.append((bb, nonzero, zero))
    return out


def writer_only_blocks(facts, fn, du):
    """blocks reachable only through the writable edge of a writable test"""
    tests = writable_tests(facts, fn, du)
    if not tests:
        return set(), tests
    avoid = {(bb, tt) for (bb, tt, ft) in tests}
    reach = fn.reach_from([0], avoid_edges=avoid)
    return set(fn.reachable_blocks()) - reach, tests
