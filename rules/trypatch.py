#!/usr/bin/env python3
"""usage: trypatch.py <patch> Cxx [Cyy ...]  -- evaluate properties on a scratch variant (developer tool / self-test)"""
import sys, os, importlib
sys.path.insert(0, os.path.dirname(os.path.abspath(__file__)))
import core, mutate


def evaluate(patch, pids):
    with mutate.variant(patch) as (F, st, msg, d):
        if F is None:
            return st, msg, {}
        out = {}
        for pid in pids:
            mod = importlib.import_module(pid.lower())
            try:
                lines, violations, known, ev, results = core.run_property(pid, mod, 'quick', facts=F, write=False)
                out[pid] = [(r.rule, r.key, r.msg, r.where) for r in violations]
            except Exception as e:
                import traceback
                traceback.print_exc()
                out[pid] = [('ERROR', str(e), '', None)]
        return st, msg, out


if __name__ == '__main__':
    st, msg, out = evaluate(sys.argv[1], sys.argv[2:])
    print('status', st, msg[-1500:] if st != 'ok' else '')
    for pid, vs in out.items():
        print(pid, '%d violation(s)' % len(vs))
        for rule, key, m, where in vs:
            print('   ', key)
            print('       ', m[:220], where)
