"""Field effects: which fields of which ADT a function writes, or passes by `&mut` to which method.

effect = (adt_path, field_name, how)   how = 'store' | '<method name>' (last path segment of the callee
that received a mutable pointer derived from the field)

Closures are folded into their owner: a closure that mutates its upvar i is charged to whatever the
owner captured in position i."""
from collections import defaultdict
from facts import callee_of, op_place, op_local, last_seg, strip_generics
from flow import DefUse, Prov

_cache = {}


def _mut_ty(ty):
    return ty.startswith('&mut') or ty.startswith('*mut')


def fn_effect_sites(facts, fn):
    """[(bb, adt, field, how)] for fn's own body (closures folded in at their creation site)"""
    fn_effects(facts, fn)
    return _sites.get((id(facts), fn.path, id(fn) if hasattr(fn, 'inlined') else 0), [])


_sites = {}


def fn_effects(facts, fn):
    """set of (adt, field, how) for fn itself including the closures it creates (transitively)"""
    key = (id(facts), fn.path, id(fn) if hasattr(fn, 'inlined') else 0)
    if key in _cache:
        return _cache[key]
    _cache[key] = set()      # recursion guard
    pv = Prov(fn)
    eff = _SiteSet()
    for bb in sorted(fn.reachable_blocks()):
        b = fn.blocks[bb]
        eff.bb = bb
        for s in b['stmts']:
            if s['k'] != 'assign':
                continue
            p = s['p']
            # direct store into a field:  (..).field = x   /  (*ptr).field = x
            fields = [(e.get('adt'), e.get('name')) for e in p['pr'] if e['k'] == 'field']
            if fields:
                eff.add((fields[-1][0], fields[-1][1], 'store'))
                for f in fields[:-1]:
                    eff.add((f[0], f[1], 'store-inner'))
            if any(e['k'] == 'deref' for e in p['pr']):
                # store through a pointer: charge the fields the pointer points into
                if _mut_ty(fn.locals[p['l']]['ty']):
                    for (adt, name) in pv.prov[p['l']]:
                        eff.add((adt, name, 'store-via-ptr'))
                    if fn.kind == 'Closure':
                        for uv in pv.upv[p['l']]:
                            eff.add(('$upvar', uv, 'store-via-ptr'))
            rv = s['rv']
            if rv['k'] == 'agg' and rv.get('ak') == 'closure':
                g = facts.by_path.get(rv['closure'])
                if g is not None:
                    for (adt, field, how) in fn_effects(facts, g):
                        if adt == '$upvar':
                            idx = field
                            if idx < len(rv['ops']):
                                fs, ups = pv.of_operand(rv['ops'][idx])
                                for (a2, n2) in fs:
                                    eff.add((a2, n2, how))
                                if fn.kind == 'Closure':
                                    for uv in ups:
                                        eff.add(('$upvar', uv, how))
                        else:
                            eff.add((adt, field, how))
        t = b['term']
        if t['k'] in ('call', 'tailcall'):
            c = callee_of(t)
            name = last_seg(strip_generics(c['path'])) if c else '?'
            for o in t['args']:
                pl = op_place(o)
                if pl is None:
                    continue
                l = pl['l']
                ty = fn.locals[l]['ty'] if not pl['pr'] else ''
                if not (_mut_ty(ty) or ("<'_" in ty and 'Mut' in ty) or 'Entry<' in ty):
                    continue
                fs, ups = pv.of_operand(o)
                for (a2, n2) in fs:
                    eff.add((a2, n2, name))
                if fn.kind == 'Closure':
                    for uv in ups:
                        eff.add(('$upvar', uv, name))
    _sites[key] = list(eff.sites)
    eff = set(eff)
    _cache[key] = eff
    return eff


class _SiteSet(set):
    def __init__(self):
        super().__init__()
        self.sites = []
        self.bb = None

    def add(self, x):
        super().add(x)
        self.sites.append((self.bb,) + tuple(x))


def effects_on(facts, fn, adt_suffix, field):
    """set of `how` strings with which fn (incl. its closures) touches adt.field"""
    return {how for (adt, f, how) in fn_effects(facts, fn) if adt and f == field and (adt == adt_suffix or adt.endswith('::' + adt_suffix))}


INSERTING = {'insert', 'push', 'entry', 'or_insert_with', 'or_insert', 'or_default', 'extend', 'append', 'push_back',
             'push_front', 'extend_from_slice', 'store', 'store-via-ptr', 'insert_entry', 'try_insert', 'resize'}
REMOVING = {'remove', 'pop', 'pop_first', 'pop_last', 'clear', 'retain', 'drain', 'truncate', 'take', 'split_off',
            'remove_entry', 'swap_remove', 'dedup', 'first_entry', 'last_entry', 'extract_if'}
