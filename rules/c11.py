"""C11 A commit that reports an I/O error neither corrupts nor half-applies (clause level)"""
from collections import deque
from core import ok, bad, unresolved, floor
from anchors import AnchorError
from facts import callee_of, op_local, op_place, last_seg, strip_generics
from flow import result_switch, FROM_RESIDUAL, TRY_BRANCH
from util import calls_to_fn, calls_named, has_field, has_call
import commit

SWALLOW = {'unwrap', 'expect', 'unwrap_or', 'unwrap_or_else', 'unwrap_or_default', 'ok', 'is_ok', 'is_err', 'err',
           'unwrap_unchecked', 'is_ok_and', 'is_err_and', 'unwrap_err', 'expect_err', 'iter', 'into_iter'}
ADAPT = {'map_err', 'map', 'and_then', 'or_else', 'or', 'and', 'inspect_err', 'inspect', 'into', 'from', 'as_ref', 'as_mut', 'clone', 'copied', 'cloned'}
# receivers whose io::Write impl cannot fail (one line of reason each)
INFALLIBLE_SINKS = {
    'bytes::buf::Writer<bytes::BytesMut>': 'in-memory growable buffer used to serialise the legacy header for hashing; write() never returns Err',
}
ERR_TYS = ('std::io::Error', 'errors::Error', 'std::sync::PoisonError', 'std::alloc::LayoutError')


def _is_result(ty):
    return ty.startswith('std::result::Result<') and any(e in ty for e in ERR_TYS)


def _kind_walk(fn, start_bb):
    """kinds of `_0` at the returns reachable from start_bb, starting with an unset `_0`"""
    seen = set()
    dq = deque([(start_bb, None)])
    kinds = set()
    diverges = False
    while dq:
        bb, k = dq.popleft()
        if (bb, k) in seen:
            continue
        seen.add((bb, k))
        b = fn.blocks[bb]
        cur = k
        for s in b['stmts']:
            if s['k'] == 'assign' and s['p']['l'] == 0 and not s['p']['pr']:
                rv = s['rv']
                if rv['k'] == 'agg' and rv.get('ak') == 'adt' and rv['adt'] == 'std::result::Result':
                    cur = 'ok' if rv['variant'] == 'Ok' else 'err'
                else:
                    cur = 'unk'
        t = b['term']
        if t['k'] == 'call' and t['dest']['l'] == 0 and not t['dest']['pr']:
            c = callee_of(t)
            cur = 'err' if (c and c['path'] == FROM_RESIDUAL) else 'unk'
        if t['k'] in ('return', 'tailcall'):
            kinds.add(cur)
        ss = fn.succ(bb)
        if not ss and t['k'] not in ('return', 'tailcall'):
            diverges = True
        for s in ss:
            dq.append((s, cur))
    return kinds, diverges


def _consumers(fn, local, start_bb):
    """how is the Result held in `local` (defined by the call ending start_bb) consumed?"""
    uses = []
    aliases = {local}
    # references to the result (`r.is_err()` takes &r): follow them one level
    for bb in sorted(fn.reachable_blocks()):
        for s in fn.blocks[bb]['stmts']:
            if s['k'] == 'assign' and s['rv']['k'] == 'ref' and s['rv']['p']['l'] == local and not s['rv']['p']['pr'] and not s['p']['pr']:
                aliases.add(s['p']['l'])
    for bb in sorted(fn.reachable_blocks()):
        b = fn.blocks[bb]
        for si, s in enumerate(b['stmts']):
            if s['k'] != 'assign':
                continue
            rv = s['rv']
            if rv['k'] == 'ref' and rv['p']['l'] == local:
                continue
            from facts import rvalue_places
            for p in rvalue_places(rv):
                if p['l'] == local:
                    uses.append(('stmt', bb, si, s))
        t = b['term']
        if t['k'] in ('call', 'tailcall'):
            for i, a in enumerate(t['args']):
                if op_local(a) in aliases:
                    uses.append(('call', bb, i, t))
        if t['k'] == 'switch' and op_local(t['discr']) == local:
            uses.append(('switch', bb, None, t))
    return uses


def propagate(ctx, rule='C11.propagate'):
    res = []
    try:
        (cm,) = ctx.need('Tx::commit')
    except AnchorError as e:
        return [unresolved(rule, str(e))]
    F = ctx.facts
    fns = sorted(F.reachable_fns([cm]), key=lambda f: f.path)
    nsites = 0
    for fn in fns:
        fn_returns_result = fn.locals[0]['ty'].startswith('std::result::Result<')
        for bb in sorted(fn.reachable_blocks()):
            t = fn.term(bb)
            if t['k'] != 'call' or t['dest']['pr']:
                continue
            d = t['dest']['l']
            ty = fn.locals[d]['ty']
            if not _is_result(ty):
                continue
            c = callee_of(t)
            cname = strip_generics(c['path']) if c else '?'
            if c and (c['path'] in (TRY_BRANCH, FROM_RESIDUAL)):
                continue
            if c and any((c.get('self_ty') or '').startswith(x) for x in INFALLIBLE_SINKS):
                continue
            if c and last_seg(cname) in ADAPT and t['args'] and _is_result(fn.locals[op_local(t['args'][0])]['ty'] if op_local(t['args'][0]) is not None else ''):
                pass   # an adapter's output is itself a Result and is checked like any other
            nsites += 1
            where = fn.loc(bb)
            key = '%s | %s' % (fn.qual, cname)
            if d == 0:
                if fn_returns_result:
                    res.append(ok(rule, 'result of %s returned to the caller at %s' % (cname, where), sites=1))
                    continue
            rs = result_switch(fn, bb)
            if rs and rs['err'] is not None:
                kinds, div = _kind_walk(fn, rs['err'])
                bad_kinds = {k for k in kinds if k in (None, 'ok')}
                if not fn_returns_result:
                    # a () function cannot report: acceptable only if it does not swallow (e.g. Drop); flag it
                    res.append(bad(rule, key + ' | error arm in a function that cannot return it',
                                   'the error of %s at %s is handled in %s, which does not return a Result: the commit cannot report it' % (cname, where, fn.qual), where=where))
                elif bad_kinds:
                    res.append(bad(rule, key + ' | error arm falls through',
                                   'the error arm of %s at %s can reach a return that is not Err(..): the I/O error is swallowed and commit may report success' % (cname, where), where=where))
                elif div and not kinds:
                    res.append(bad(rule, key + ' | error arm panics',
                                   'the error arm of %s at %s never returns (panic): commit must return the error instead of panicking' % (cname, where), where=where))
                else:
                    res.append(ok(rule, 'error of %s at %s is propagated (%s)' % (cname, where, rs['via']), sites=1))
                continue
            uses = _consumers(fn, d, bb)
            verdict = None
            for u in uses:
                if u[0] == 'call':
                    cc = callee_of(u[3])
                    n = last_seg(strip_generics(cc['path'])) if cc else '?'
                    if n in SWALLOW:
                        verdict = ('swallow', n, fn.loc(u[1]))
                        break
                    if n in ADAPT or (cc and cc['path'] == TRY_BRANCH):
                        verdict = verdict or ('adapt', n, fn.loc(u[1]))
                    else:
                        verdict = verdict or ('passed', n, fn.loc(u[1]))
                elif u[0] == 'stmt':
                    s = u[3]
                    if s['p']['l'] == 0:
                        verdict = verdict or ('returned', '', fn.loc(u[1], u[2]))
                    else:
                        verdict = verdict or ('moved', '', fn.loc(u[1], u[2]))
            if verdict is None:
                res.append(bad(rule, key + ' | result discarded',
                               'the Result of %s at %s is never inspected (`let _ =` / dropped): an I/O error during commit is ignored' % (cname, where), where=where))
            elif verdict[0] == 'swallow':
                res.append(bad(rule, key + ' | .%s()' % verdict[1],
                               'the Result of %s at %s is consumed by .%s(): the error is turned into a panic or discarded instead of being returned by commit'
                               % (cname, where, verdict[1]), where=where))
            else:
                res.append(ok(rule, 'result of %s at %s is %s' % (cname, where, verdict[0]), sites=1))
    ctx.stats['commit_reachable_fns'] = len(fns)
    ctx.stats['commit_fallible_call_sites'] = nsites
    f = floor(rule, 'fallible call sites reachable from Tx::commit', nsites, 20)
    if f:
        res.append(f)
    return res


def remap_on_success(ctx, rule='C11.remap-on-success'):
    res = []
    try:
        (rz,) = ctx.need('resize-role')
    except AnchorError as e:
        return [unresolved(rule, str(e))]
    fn = ctx.x(rz)       # the remapping may live in a private helper of the resize role
    F = ctx.facts
    E = ctx.E
    # M stores in the resize role
    Ms = []
    for bb in sorted(fn.reachable_blocks()):
        for si, s in enumerate(fn.blocks[bb]['stmts']):
            if any(e['ev'] == 'M' for e in E.classify_stmt(fn, bb, si, s)):
                Ms.append((bb, si))
    f = floor(rule, 'store of the new map in the resize role', len(Ms), 1)
    if f:
        return [f]
    # fallible predecessors: G and the map creation (direct or through a local helper that reaches MAP)
    need = []
    for bb in sorted(fn.reachable_blocks()):
        t = fn.term(bb)
        if t['k'] != 'call':
            continue
        c = callee_of(t)
        evs = E.classify(fn, bb, t, c, None)
        kinds = {e['ev'] for e in evs}
        tgt = None
        if c:
            r = c.get('resolved')
            tgt = F.by_path.get(r['path']) if r and r['local'] else (F.by_path.get(c['path']) if c['local'] else None)
        if tgt is not None:
            for g in F.reachable_fns([tgt]):
                for b2 in g.reachable_blocks():
                    t2 = g.term(b2)
                    if t2['k'] == 'call' and any(e['ev'] == 'MAP' for e in E.classify(g, b2, t2, callee_of(t2), None)):
                        kinds.add('MAP')
        if kinds & {'G', 'MAP'}:
            need.append((bb, sorted(kinds & {'G', 'MAP'})[0]))
    f = floor(rule, 'grow / map-creation calls in the resize role', len(need), 2)
    if f:
        res.append(f)
    for mb, si in Ms:
        for bb, kind in need:
            rs = result_switch(fn, bb)
            if not rs or rs['ok'] is None:
                res.append(bad(rule, '%s | result of %s not checked before the map is replaced' % (fn.qual, kind),
                               'the result of the %s call at %s is not discriminated before the shared map is replaced at %s' % (kind, fn.loc(bb), fn.loc(mb, si)), where=fn.loc(bb)))
                continue
            edge = (rs['switch_bb'], rs['ok'])
            if mb not in fn.reach_from([0], avoid_edges={edge}):
                res.append(ok(rule, 'the map is replaced at %s only behind the success of %s at %s' % (fn.loc(mb, si), kind, fn.loc(bb)), sites=1))
            else:
                res.append(bad(rule, '%s | map replaced without success of %s' % (fn.qual, kind),
                               'the shared map is replaced at %s on a path that has not passed the success edge of the %s call at %s: after a failed '
                               'growth the handle would point at a map that does not match the file' % (fn.loc(mb, si), kind, fn.loc(bb)), where=fn.loc(mb, si)))
    return res


def _eq_comparisons(e, depth=0):
    """[(lhs, rhs)] of the ==/!= comparisons inside a symbolic expression"""
    out = []
    if depth > 12 or not isinstance(e, tuple):
        return out
    if e[0] == 'bin' and e[1] in ('Eq', 'Ne'):
        out.append((e[2], e[3]))
    if e[0] == 'call' and last_seg(strip_generics(e[1])) in ('eq', 'ne') and len(e[2]) == 2:
        out.append((e[2][0], e[2][1]))
    if e[0] in ('bin', 'un'):
        for x in e[2:]:
            out += _eq_comparisons(x, depth + 1)
    return out


def _only_via_err(T, h, node):
    """is `node` unreachable from the success edge once the error edge node is removed?  (i.e. it lies on the error handling path only)"""
    if 'ok_node' not in h:
        return True
    return node not in T.reach({h['ok_node']})


def header_error_edge(ctx, rule='C11.O5e'):
    """after a FAILED header write the state is ambiguous (write(2) may have been partial and the new header may already be
    valid and visible through the map): every exit on the error edge of H must re-read the header (header-selection role)
    or publish; otherwise the shared free list can be stale."""
    res = []
    ob = commit.obligations(ctx)
    T = ob.get('trace')
    if T is None:
        return [unresolved(rule, 'commit trace')]
    H = [e for e in T.events('W') if e.get('sub') == 'H' and not e.get('summary')]
    HDR = {e['node'] for e in T.events('HDR')}
    P = {e['node'] for e in T.events('P')}
    exits = [i for i, k in T.exit_kinds()]
    for h in H:
        if 'err_node' not in h:
            continue
        reach = T.reach({h['err_node']}, avoid=HDR | P)
        offending = [x for x in exits if x in reach]
        if offending:
            res.append(bad(rule, '%s | exit=Err(H write) without re-reading the header' % T.entry.qual,
                           'when the header write at %s fails, commit returns without determining which header is now current: a short write that '
                           'completed the 104-byte header record leaves the new header valid and visible through the map while the shared free list '
                           'is still the old one' % h['loc'], where=h['loc'], path=T.describe_path(T.path({h['err_node']}, offending[0], avoid=HDR | P) or [])))
        else:
            res.append(ok(rule, 'the error edge of the header write at %s re-reads the header or publishes before leaving' % h['loc'], sites=1))
        # a publication on the error edge must be decided by "the header that is current now carries THIS transaction's id"
        hdr_fn = ctx.A.get('DBInner::meta')
        after_err = T.reach({h['err_node']})
        for pe in T.events('P'):
            if pe['node'] not in after_err or pe.get('summary'):
                continue
            n = T.nodes[pe['node']]
            # only publications that are not also reachable from the success edge count as error-edge publications
            if 'ok_node' in h and pe['node'] in T.reach({h['ok_node']}, avoid={h['err_node']}) and not _only_via_err(T, h, pe['node']):
                continue
            fn, bb = n.fn, n.bb
            decided = False
            seen_cmp = []
            # the deciding test may sit in a caller of the function that publishes: climb the trace context
            frames = [(fn, bb)] + [(c[0], c[1]) for c in reversed(n.ctx)]
            ctrl = []
            for (ffn, fbb) in frames:
                for (a, sx) in ffn.control_deps_transitive(fbb):
                    ctrl.append((ffn, a))
            for (ffn, a) in ctrl:
                at = ffn.term(a)
                if at['k'] != 'switch':
                    continue
                du = ctx.du(ffn)
                e = du.sym(at['discr'])
                for cmpx in _eq_comparisons(e):
                    l, r = cmpx
                    fl = l[2][-1] if l[0] == 'field' else None
                    fr = r[2][-1] if r[0] == 'field' else None
                    seen_cmp.append('%s == %s' % (fl, fr))
                    mentions_hdr = lambda x: hdr_fn is not None and hdr_fn.path in repr(x)
                    if fl == 'tx_id' and fr == 'tx_id' and (mentions_hdr(l) != mentions_hdr(r)):
                        decided = True
            if decided:
                res.append(ok(rule, 'publication at %s on the error edge is decided by comparing the re-read header\'s tx_id with the transaction\'s' % n.loc(), sites=1))
            else:
                res.append(bad(rule, '%s | error-edge publication not decided by the transaction id' % fn.qual,
                               'after a failed header write the free list is published at %s, but the decision is not `current header.tx_id == this transaction\'s tx_id` '
                               '(comparisons found: %s): the new free list can be published although the old header is still current, or withheld although the new one took effect'
                               % (n.loc(), ', '.join(seen_cmp) or 'none'), where=n.loc()))
    if not H:
        res.append(floor(rule, 'header writes', 0, 1))
    return res


def buffered_flush(ctx, rule='C11.buffered-flush'):
    """a buffered writer over the database file must be flushed, with the result propagated, before it goes out of scope:
    BufWriter::drop flushes but ignores errors"""
    res = []
    try:
        (cm,) = ctx.need('Tx::commit')
    except AnchorError as e:
        return [unresolved(rule, str(e))]
    F = ctx.facts
    n = 0
    for fn in sorted(F.reachable_fns([cm]), key=lambda f: f.path):
        wbs, fbs = [], []
        for bb in sorted(fn.reachable_blocks()):
            t = fn.term(bb)
            c = callee_of(t) if t['k'] == 'call' else None
            if not c:
                continue
            st = c.get('self_ty') or ''
            if not (('BufWriter<' in st or 'LineWriter<' in st) and 'std::fs::File' in st):
                continue
            nm = last_seg(strip_generics(c['path']))
            if nm in ('write', 'write_all', 'write_fmt', 'write_vectored'):
                wbs.append(bb)
            if nm in ('flush', 'into_inner'):
                rs = result_switch(fn, bb)
                if rs and rs['err'] is not None:
                    kinds, div = _kind_walk(fn, rs['err'])
                    if not ({k for k in kinds if k in (None, 'ok')}):
                        fbs.append(bb)
        for wb in wbs:
            n += 1
            reach = fn.reach_from(fn.succ(wb), avoid=set(fbs))
            rets = [b for b in reach if fn.term(b)['k'] == 'return']
            okret = False
            for b in rets:
                kinds, _ = _kind_walk(fn, wb)
            if rets and any(True for b in rets):
                res.append(bad(rule, '%s | buffered file write without a propagated flush' % fn.qual,
                               '%s writes to the database file through a buffered writer at %s and can return without a flush() whose error is propagated: the last buffered bytes are written by '
                               'the writer\'s destructor, which ignores I/O errors, so commit reports success (and writes the header) although a data page was never written' % (fn.qual, fn.loc(wb)),
                               where=fn.loc(wb)))
            else:
                res.append(ok(rule, 'buffered write at %s is followed by a propagated flush on every path' % fn.loc(wb), sites=1))
    ctx.stats['buffered_file_writes'] = n
    if n == 0:
        res.append(ok(rule, 'no buffered writer over the database file is used on the commit path (writes go to the File directly)', sites=0))
    return res


def shared_state(ctx, rule='C11.shared-state'):
    """besides the map (M) and the free list (P), whose update points are fixed by O4/O5/remap-on-success, a commit changes no state shared through DBInner
    before it can still fail: a value recorded for other transactions (a cached size, a cached header, a counter) that is updated and then followed by an
    error return describes a commit that did not happen"""
    res = []
    T = commit.commit_trace(ctx)
    SH = [e for e in T.events('SH') if not e.get('summary')]
    errs = {i for i, k in T.exit_kinds() if k == 'err'}
    for e in SH:
        n = T.nodes[e['node']]
        after = T.reach(set(T.succ.get(e['node'], ())))
        hit = sorted(after & errs)
        if hit:
            pth = T.path(set(T.succ.get(e['node'], ())), hit[0]) or []
            res.append(bad(rule, '%s | DBInner.%s changed before the commit can still fail' % (n.fn.qual, e['field']),
                           'the commit changes shared state DBInner.%s (%s at %s) and can afterwards still return an error: other transactions then see a value that '
                           'describes a commit which did not take place' % (e['field'], e.get('how'), n.loc()), where=n.loc(), path=T.describe_path(pth)))
        else:
            res.append(ok(rule, 'shared state DBInner.%s is changed at %s only where the commit can no longer fail' % (e['field'], n.loc()), sites=1))
    if not SH:
        res.append(ok(rule, 'the commit trace (%d nodes) changes no shared state besides the map and the free list' % len(T.nodes), sites=1))
    return res


def run(ctx, tier):
    ob = commit.obligations(ctx)
    results = []
    results += propagate(ctx)
    results += ob['O4'] + ob['O5']
    results += header_error_edge(ctx)
    results += remap_on_success(ctx)
    results += buffered_flush(ctx)
    results += shared_state(ctx)
    import c12, c16
    results += c12.select_total(ctx, rule='C11.select')
    results += c16.grow(ctx, rule='C11.grow')
    results += ob['O1'] + ob['O2'] + ob['O3']
    import c02
    results += c02.cow_free_set(ctx, rule='C11.cow.free-set')
    results += commit.complete_writes(ctx, rule='C11.complete-writes')
    import refcell
    results += refcell.no_reborrow(ctx, 'C11.no-reborrow')
    import c02
    results += c02.alternate_rule(ctx, rule='C11.alternate')
    import c15, c12
    results += c15.legacy_fallback(ctx, rule='C11.legacy-conversion')
    # after a torn header write the damaged page is still in the file: nothing but the validating selection may look at it
    results += c12.header_views_confined(ctx, rule='C11.header-views-confined')
    return dict(
        results=results, stats=dict(ctx.stats),
        explanation=(
            'Decides the error-discipline and publication-order clauses of commit for every fallible call at once: (propagate) every call reachable from '
            'Tx::commit that returns Result<_, io::Error|Error|PoisonError|LayoutError> has its error returned (`?`, explicit match, tail return), never '
            'unwrapped, discarded or turned into success; (O4) the shared free list is replaced only behind the success edge of the header write; (O5) every '
            'exit after a successful header write has published the free list (exception: poisoned free-list lock); (O5e) the error edge of the header write '
            'resolves which header is current; (remap-on-success) the shared map is replaced only behind successful growth and mapping; plus the C02 ordering '
            'obligations and the alternating header slot (a failed or torn header write must never hit the live header). NOT decided: short-write behaviour of write_all beyond O5e, kernel state after a failed fsync, correctness of later transactions.'),
        assumptions=['write_all/flush/sync_all/allocate/mmap report failures through their Result', 'a failed call has no effect other than possibly a partial write'])
