"""Inlined event trace ("supergraph") of an entry function.

Nodes are (context, function, block, ret-kind) tuples; crate-local callees that can (transitively) emit
an event of interest are inlined at their call sites, everything else stays a plain node.  Result kinds
are tracked across returns: a callee path that ends in `Err(..)` continues only on the error arm of the
caller's `?` / `match`, a path that ends in `Ok(..)` only on the success arm.  (Without this, moving a
`sync_all()?` into a helper function would look like a path around the sync.)

Events are attached to nodes by a classifier callback; obligations are then plain graph queries
(reachability with some nodes / edges removed)."""
from collections import defaultdict, deque
from facts import callee_of, op_local, op_const_val
from flow import result_switch, ret_kinds, FROM_RESIDUAL


class Node:
    __slots__ = ('id', 'ctx', 'fn', 'bb', 'kind', 'events', 'virt')

    def __init__(self, id, ctx, fn, bb, kind, virt=None):
        self.id = id
        self.ctx = ctx          # tuple of (caller Fn, call bb)
        self.fn = fn
        self.bb = bb
        self.kind = kind        # kind of value last stored into _0 in this activation: None/'ok'/'err'/'unk'
        self.events = []        # list of event dicts
        self.virt = virt        # None | ('ok-edge', call node id) | ('err-edge', ..) | ('summary', fn)

    def loc(self):
        if self.bb is None:
            return self.fn.file
        return self.fn.loc(self.bb)

    def describe(self):
        where = '%s bb%s @%s' % (self.fn.qual, self.bb, self.loc())
        if self.virt:
            where += ' [%s]' % self.virt[0]
        return where


def _kind_preserving(c):
    """Result adaptors whose result is Ok exactly when the receiver is: map_err, map, inspect, inspect_err"""
    p = c['path']
    return p.startswith('std::result::Result') and p.rsplit('::', 1)[-1].split('<')[0] in ('map_err', 'map', 'inspect', 'inspect_err')


class _DropSite(int):
    """block index of a drop terminator in a context frame, distinguished by the Result kind of the path that reaches it"""
    def __new__(cls, bb, kind):
        o = int.__new__(cls, bb)
        o.kind = kind
        return o

    def __eq__(self, other):
        return int(self) == int(other) and getattr(other, 'kind', self.kind) == self.kind and isinstance(other, _DropSite)

    def __ne__(self, other):
        return not self.__eq__(other)

    def __hash__(self):
        return hash((int(self), self.kind, 'drop'))


class Trace:
    def __init__(self, facts, entry, classify, relevant_fn=None, max_depth=12, const_args=None, classify_stmt=None, view=None, follow_drops=False):
        """classify(fn, bb, term, callee_record, local_target) -> list of event dicts (may be empty) for the
        terminator of block bb; classify_stmt is not needed: all events of interest are calls / drops.
        relevant_fn: set of Fn that must be inlined (those that transitively contain events); computed when None.
        const_args: {param local index: bool} constant specialisation of the entry's boolean parameters."""
        self.facts = facts
        self.follow_drops = follow_drops
        # view(fn): the body to walk for fn -- by default fn itself; rule contexts pass the folded view (private non-role helpers inlined), so that an event
        # written in a small helper is seen inside the function that the rules reason about
        self.view = view or (lambda f: f)
        self.raw_entry = entry
        self.entry = self.view(entry)
        self.classify = classify
        self.classify_stmt = classify_stmt
        self.max_depth = max_depth
        self.nodes = []
        self.succ = defaultdict(set)
        self.index = {}
        self.exits = []          # node ids of returns of the entry function (with kind)
        self.aborts = []         # node ids without successors that are not returns (panics, unreachable)
        self.summaries = []
        self._relevant = relevant_fn if relevant_fn is not None else self._compute_relevant()
        self._retk = {}
        self._rs = {}
        self.const_args = const_args or {}
        self._build()

    # ---- which functions contain events (transitively)
    def _compute_relevant(self):
        facts = self.facts
        direct = set()
        for f in facts.fns:
            for bb in f.reachable_blocks():
                if self.classify_stmt is not None:
                    for si, st in enumerate(f.blocks[bb]['stmts']):
                        if self.classify_stmt(f, bb, si, st):
                            direct.add(f)
                t = f.term(bb)
                if t['k'] in ('call', 'tailcall', 'drop'):
                    c = callee_of(t) if t['k'] != 'drop' else None
                    if self.classify(f, bb, t, c, None):
                        direct.add(f)
                        break
        cg = facts.callgraph()
        rel = set(direct)
        changed = True
        while changed:
            changed = False
            for f in facts.fns:
                if f in rel:
                    continue
                if any(g in rel for g in cg.get(f, ())):
                    rel.add(f)
                    changed = True
        return rel

    def _ret_kinds(self, fn):
        if fn not in self._retk:
            self._retk[fn] = ret_kinds(fn)
        return self._retk[fn]

    def _result_switch(self, fn, bb):
        k = (fn, bb)
        if k not in self._rs:
            self._rs[k] = result_switch(fn, bb)
        return self._rs[k]

    def _node(self, ctx, fn, bb, kind, virt=None):
        key = (ctx, fn, bb, kind, virt)
        n = self.index.get(key)
        if n is None:
            n = Node(len(self.nodes), ctx, fn, bb, kind, virt)
            self.nodes.append(n)
            self.index[key] = n
            return n, True
        return n, False

    def _kind_after(self, fn, bb, kind):
        """kind of _0 after executing block bb when it was `kind` on entry"""
        b = fn.blocks[bb]
        cur = kind
        for s in b['stmts']:
            if s['k'] == 'assign' and s['p']['l'] == 0 and not s['p']['pr']:
                rv = s['rv']
                if rv['k'] == 'agg' and rv.get('ak') == 'adt' and rv['adt'] == 'std::result::Result':
                    cur = 'ok' if rv['variant'] == 'Ok' else 'err'
                else:
                    cur = 'unk'
        t = b['term']
        if t['k'] == 'call' and t['dest']['l'] == 0 and not t['dest']['pr']:
            c = callee_of(t)
            if c and isinstance(kind, str) and kind.endswith('!') and _kind_preserving(c):
                # `_0 = inlined_call(..).map_err(f)`: the result keeps the side (Ok / Err) the inlined call returned on (see the return handler)
                return kind[:-1]
            cur = 'err' if (c and c['path'] == FROM_RESIDUAL) else 'unk'
        if isinstance(cur, str) and cur.endswith('!'):
            cur = 'unk'
        return cur

    def _build(self):
        facts = self.facts
        # work list of (node, continuation) where continuation describes where returns of this activation go:
        # cont = None for the entry, else (caller_ctx, caller_fn, call_bb, caller_kind_after, rs)
        conts = {}      # ctx -> continuation
        start, _ = self._node((), self.entry, 0, None)
        conts[()] = None
        todo = deque([start])
        const_by_ctx = {(): dict(self.const_args)}
        while todo:
            n = todo.popleft()
            fn, bb, ctx = n.fn, n.bb, n.ctx
            if n.virt is not None:
                continue
            t = fn.term(bb)
            k = t['k']
            kind_after = self._kind_after(fn, bb, n.kind)
            cal = callee_of(t) if k in ('call', 'tailcall') else None
            local_target = None
            if cal:
                r = cal.get('resolved')
                if r and r['local']:
                    local_target = facts.by_path.get(r['path'])
                if local_target is None and cal['local']:
                    local_target = facts.by_path.get(cal['path'])
            if self.classify_stmt is not None:
                for si, st in enumerate(fn.blocks[bb]['stmts']):
                    for e in self.classify_stmt(fn, bb, si, st):
                        e = dict(e)
                        e.setdefault('fn', fn.qual)
                        e.setdefault('loc', fn.loc(bb, si))
                        e['node'] = n.id
                        e['stmt'] = si
                        n.events.append(e)
            if k in ('call', 'tailcall', 'drop'):
                evs = self.classify(fn, bb, t, cal, local_target)
                for e in evs:
                    e = dict(e)
                    e.setdefault('fn', fn.qual)
                    e.setdefault('loc', fn.loc(bb))
                    e['node'] = n.id
                    n.events.append(e)

            def link(a, b_node, new):
                self.succ[a.id].add(b_node.id)
                if new:
                    todo.append(b_node)

            def go(target_bb, from_node=n, kind=kind_after):
                m, new = self._node(ctx, fn, target_bb, kind)
                link(from_node, m, new)

            if k == 'return' or k == 'tailcall':
                cont = conts[ctx]
                if cont is None:
                    self.exits.append(n.id)
                else:
                    cctx, cfn, cbb, ckind, rs = cont
                    ct = cfn.term(cbb)
                    if ct['target'] is None:
                        continue
                    rk = kind_after
                    if ct.get('dest') is not None and ct['dest']['l'] == 0 and not ct['dest']['pr']:
                        ckind = rk      # `_0 = callee(..)`: the caller's result kind is the callee's
                    elif ct.get('dest') is not None and not ct['dest']['pr'] and rk in ('ok', 'err') and ct['target'] is not None:
                        # `_0 = callee(..).map_err(f)`: the continuation block applies a side-preserving adaptor to the callee's result and stores it in `_0`
                        tt = cfn.term(ct['target'])
                        c2 = callee_of(tt) if tt['k'] == 'call' else None
                        if c2 and _kind_preserving(c2) and tt['dest']['l'] == 0 and not tt['dest']['pr'] and tt['args'] and op_local(tt['args'][0]) == ct['dest']['l'] \
                                and not cfn.blocks[ct['target']]['stmts']:
                            ckind = rk + '!'
                    if rs and rk == 'ok' and rs['ok'] is not None:
                        m, new = self._node(cctx, cfn, rs['ok'], ckind)
                        link(n, m, new)
                    elif rs and rk == 'err' and rs['err'] is not None:
                        m, new = self._node(cctx, cfn, rs['err'], ckind)
                        link(n, m, new)
                    else:
                        m, new = self._node(cctx, cfn, ct['target'], ckind)
                        link(n, m, new)
                continue
            if k == 'call':
                inline = (local_target is not None and local_target in self._relevant)
                if inline:
                    local_target = self.view(local_target)
                    depth = len(ctx)
                    # recursion / depth cut: summary node carrying every event the callee can emit
                    on_stack = [c[2] for c in ctx] + [self.entry]
                    if local_target in on_stack or depth >= self.max_depth:
                        s, new = self._node(ctx, local_target, None, None, virt=('summary', bb, fn.qual))
                        if new:
                            s.events = self._summary_events(local_target)
                            for e in s.events:
                                e['node'] = s.id
                            self.summaries.append(s.id)
                        self.succ[n.id].add(s.id)
                        # summary may repeat
                        self.succ[s.id].add(s.id)
                        if t['target'] is not None:
                            m, new2 = self._node(ctx, fn, t['target'], kind_after)
                            self.succ[s.id].add(m.id)
                            if new2:
                                todo.append(m)
                        continue
                    nctx = ctx + ((fn, bb, local_target),)
                    rs = self._result_switch(fn, bb)
                    if nctx not in conts:
                        conts[nctx] = (ctx, fn, bb, kind_after, rs)
                    # constant boolean arguments
                    consts = {}
                    for i, a in enumerate(t['args']):
                        v = op_const_val(a)
                        if v is not None and local_target.locals[i + 1]['ty'] == 'bool':
                            consts[i + 1] = bool(v)
                    const_by_ctx[nctx] = consts
                    m, new = self._node(nctx, local_target, 0, None)
                    link(n, m, new)
                    continue
                # not inlined: events with an ok/err distinction get virtual edge nodes
                rs = self._result_switch(fn, bb) if any(e.get('fallible') for e in n.events) else None
                if rs and (rs['ok'] is not None) and (rs['err'] is not None) and any(e.get('fallible') for e in n.events):
                    okn, new1 = self._node(ctx, fn, bb, kind_after, virt=('ok-edge', n.id))
                    ern, new2 = self._node(ctx, fn, bb, kind_after, virt=('err-edge', n.id))
                    self.succ[n.id].add(okn.id)
                    self.succ[n.id].add(ern.id)
                    m, new = self._node(ctx, fn, rs['ok'], kind_after)
                    self.succ[okn.id].add(m.id)
                    if new:
                        todo.append(m)
                    m, new = self._node(ctx, fn, rs['err'], kind_after)
                    self.succ[ern.id].add(m.id)
                    if new:
                        todo.append(m)
                    for e in n.events:
                        e['ok_node'] = okn.id
                        e['err_node'] = ern.id
                    continue
                if t['target'] is not None:
                    go(t['target'])
                else:
                    self.aborts.append(n.id)
                continue
            if k == 'drop' and self.follow_drops:
                impls = [g for g in self._drop_impls(t.get('ty', '')) if g in self._relevant]
                on_stack = [c[2] for c in ctx] + [self.entry]
                impls = [g for g in impls if g not in on_stack]
                if impls and len(ctx) < self.max_depth and t.get('target') is not None:
                    # drop glue: the value's own `Drop::drop` (then those of its fields) runs here; only the first relevant one is walked, the rest are summarised
                    g = impls[0]
                    # (a drop passes the Result kind of the path through unchanged, and clean-up blocks are shared by the success and the failure path: one inlined copy per kind)
                    nctx = ctx + ((fn, _DropSite(bb, kind_after), g),)
                    if nctx not in conts:
                        conts[nctx] = (ctx, fn, bb, kind_after, None)
                    const_by_ctx[nctx] = {}
                    m, new = self._node(nctx, g, 0, None)
                    link(n, m, new)
                    continue
            if k == 'switch':
                # constant specialisation of boolean parameters
                consts = const_by_ctx.get(ctx, {})
                dl = op_local(t['discr'])
                val = None
                if dl is not None:
                    src = self._param_of(fn, bb, dl)
                    if src in consts:
                        val = 1 if consts[src] else 0
                if val is not None:
                    tg = dict((v, b) for v, b in t['targets'])
                    go(tg.get(val, t['otherwise']))
                else:
                    for s in fn.succ(bb):
                        go(s)
                continue
            ss = fn.succ(bb)
            if not ss:
                self.aborts.append(n.id)
            for s in ss:
                go(s)

    def _drop_impls(self, ty, depth=0, seen=None):
        """the crate's own Drop::drop functions that dropping a value of type `ty` runs: the type's own impl first, then those of the types of its fields (through
        RefCell / Rc / Box / Option / Vec wrappers, by name)"""
        import re as _re
        seen = seen if seen is not None else set()
        out = []
        if depth > 4:
            return out
        cache = getattr(self.facts, '_drop_of_adt', None)
        if cache is None:
            cache = self.facts._drop_of_adt = {}
            for g in self.facts.fns:
                if g.trait and g.trait.endswith('Drop') and g.name == 'drop' and g.self_adt:
                    cache[g.self_adt] = g
        for a in self.facts.doc['adts']:
            pth = a['path']
            if pth in seen or not _re.search(r'(?<![A-Za-z0-9_])' + _re.escape(pth) + r'(?![A-Za-z0-9_])', ty):
                continue
            seen.add(pth)
            if pth in cache:
                out.append(cache[pth])
            for v in a['variants']:
                for f in v['fields']:
                    out.extend(self._drop_impls(f['ty'], depth + 1, seen))
        return out

    def _param_of(self, fn, bb, l):
        """if local l (used as a switch discriminant in bb) is a plain copy of parameter p (possibly negated is NOT
        followed), return p"""
        if 1 <= l <= fn.argc:
            return l
        for s in reversed(fn.blocks[bb]['stmts']):
            if s['k'] == 'assign' and s['p']['l'] == l and not s['p']['pr']:
                rv = s['rv']
                if rv['k'] == 'use':
                    sl = op_local(rv['op'])
                    if sl is not None and not rv['op']['p']['pr'] and 1 <= sl <= fn.argc:
                        return sl
                return None
        return None

    def _summary_events(self, fn):
        evs = []
        for g in self.facts.reachable_fns([fn]):
            for bb in g.reachable_blocks():
                if self.classify_stmt is not None:
                    for si, st in enumerate(g.blocks[bb]['stmts']):
                        for e in self.classify_stmt(g, bb, si, st):
                            e = dict(e)
                            e.setdefault('fn', g.qual)
                            e['summary'] = True
                            evs.append(e)
                t = g.term(bb)
                if t['k'] in ('call', 'tailcall', 'drop'):
                    c = callee_of(t) if t['k'] != 'drop' else None
                    for e in self.classify(g, bb, t, c, None):
                        e = dict(e)
                        e.setdefault('fn', g.qual)
                        e.setdefault('loc', g.loc(bb))
                        e['summary'] = True
                        evs.append(e)
        return evs

    # ---- queries
    def events(self, *kinds):
        out = []
        for n in self.nodes:
            for e in n.events:
                if not kinds or e['ev'] in kinds:
                    out.append(e)
        return out

    def event_nodes(self, *kinds):
        return {e['node'] if 'node' in e else None for e in self.events(*kinds)} - {None}

    def nodes_with(self, pred):
        return {n.id for n in self.nodes if any(pred(e) for e in n.events)}

    def reach(self, starts, avoid=frozenset()):
        """node ids reachable from `starts` (inclusive unless avoided) without entering `avoid`"""
        seen = set(s for s in starts if s not in avoid)
        dq = deque(seen)
        while dq:
            a = dq.popleft()
            for b in self.succ.get(a, ()):
                if b in seen or b in avoid:
                    continue
                seen.add(b)
                dq.append(b)
        return seen

    def path(self, starts, goal, avoid=frozenset()):
        """one shortest path (list of node ids) from any of `starts` to `goal` avoiding `avoid`"""
        starts = [s for s in starts if s not in avoid]
        prev = {s: None for s in starts}
        dq = deque(starts)
        while dq:
            a = dq.popleft()
            if a == goal:
                out = []
                while a is not None:
                    out.append(a)
                    a = prev[a]
                return out[::-1]
            for b in self.succ.get(a, ()):
                if b in prev or b in avoid:
                    continue
                prev[b] = a
                dq.append(b)
        return None

    def describe_path(self, ids, limit=14):
        out = []
        last = None
        for i in ids:
            n = self.nodes[i]
            d = '%s@%s' % (n.fn.qual, n.loc())
            if n.events:
                d += ' {' + ','.join(e['ev'] for e in n.events) + '}'
            if n.virt:
                d += ' [%s]' % n.virt[0]
            if d != last:
                out.append(d)
            last = d
        if len(out) > limit:
            out = out[:limit // 2] + ['…'] + out[-limit // 2:]
        return out

    def exit_kinds(self):
        """[(node id, kind)] for every return of the entry function"""
        return [(i, self._kind_after(self.nodes[i].fn, self.nodes[i].bb, self.nodes[i].kind)) for i in self.exits]

    def succ_nodes_of_event_ok(self, e):
        """start nodes for 'after the success of event e': its ok-edge node when the result is discriminated,
        otherwise all successors of the event node"""
        if 'ok_node' in e:
            return {e['ok_node']}
        return set(self.succ.get(e['node'], ()))
