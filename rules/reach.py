"""Call-graph reachability with constant-bool specialisation: when a call site passes literal true/false for a bool
parameter, switches on that parameter in the callee are pruned (so `get_bucket -> bucket_getter(.., false, false)` is not
charged with the create branch)."""
from collections import deque
from facts import callee_of, op_local, op_const_val, strip_generics


def pruned_blocks(fn, prune, facts=None):
    """blocks of fn reachable when parameters take the constant values in `prune` {param local: bool | ('v', variant index)}.
    Locals that are assigned one and the same constant on every reachable definition (including the result of a crate-local pure function
    applied to constants, e.g. `mode.should_create()` with `mode == OpenMode::Get`) are propagated too (fixpoint)."""
    if not prune:
        return fn.reachable_blocks()
    consts = {}
    seen = None
    for _ in range(8):
        seen = {0}
        dq = deque([0])
        while dq:
            bb = dq.popleft()
            for s in _succ(fn, bb, prune, consts):
                if s not in seen:
                    seen.add(s)
                    dq.append(s)
        new = _local_consts(fn, seen, prune, facts)
        if new == consts:
            break
        consts = new
    return seen


def _const_of_operand(fn, o, prune, consts):
    v = op_const_val(o)
    if v is not None and isinstance(v, int) and o['k'] == 'const' and o['c'].get('ty') == 'bool':
        return bool(v)
    l = op_local(o)
    if l is None or o['p']['pr']:
        return None
    if l in prune:
        return prune[l]
    return consts.get(l)


def _local_consts(fn, live, prune, facts, depth=0):
    """{local: constant} for locals whose every definition inside `live` assigns the same constant"""
    cand = {}
    bad = set()
    known = {}
    for _ in range(3):        # copies of constants of constants
        cand, bad = {}, set()
        for bb in live:
            b = fn.blocks[bb]
            for s in b['stmts']:
                if s['k'] != 'assign':
                    continue
                l = s['p']['l']
                if s['p']['pr']:
                    bad.add(l)
                    continue
                rv = s['rv']
                v = None
                if rv['k'] == 'use':
                    v = _const_of_operand(fn, rv['op'], prune, known)
                elif rv['k'] == 'agg' and rv.get('ak') == 'adt' and not rv.get('ops') and rv.get('vi') is not None:
                    v = ('v', rv['vi'])
                elif rv['k'] == 'un' and rv['op'] == 'Not':
                    x = _const_of_operand(fn, rv['a'], prune, known)
                    v = (not x) if isinstance(x, bool) else None
                if v is None:
                    bad.add(l)
                else:
                    cand.setdefault(l, set()).add(v)
            t = b['term']
            if t['k'] == 'call' and not t['dest']['pr']:
                l = t['dest']['l']
                v = None
                c0 = callee_of(t)
                if c0 and c0['path'] in ('std::cmp::PartialEq::eq', 'std::cmp::PartialEq::ne') and len(t['args']) == 2:
                    # derived `==` between two unit-like enum values whose variants are known (a parameter under specialisation, a promoted constant)
                    va = _variant_behind(fn, t['args'][0], prune, known)
                    vb = _variant_behind(fn, t['args'][1], prune, known)
                    if va is not None and vb is not None and va[0] == vb[0]:
                        v = (va[1] == vb[1]) if c0['path'].endswith('::eq') else (va[1] != vb[1])
                    if v is not None:
                        cand.setdefault(l, set()).add(v)
                        continue
                if facts is not None and depth < 3:
                    c = callee_of(t)
                    g = None
                    if c:
                        r = c.get('resolved')
                        if r and r['local']:
                            g = facts.by_path.get(r['path'])
                        if g is None and c['local']:
                            g = facts.by_path.get(c['path'])
                    if g is not None and g.kind != 'Closure' and g.argc == len(t['args']) and g.argc <= 2 and len(g.blocks) <= 40:
                        argv = [_const_of_operand(fn, a, prune, known) for a in t['args']]
                        if argv and all(x is not None for x in argv):
                            v = _eval_const_fn(facts, g, {i + 1: x for i, x in enumerate(argv)}, depth + 1)
                if v is None:
                    bad.add(l)
                else:
                    cand.setdefault(l, set()).add(v)
            elif t['k'] == 'call':
                bad.add(t['dest']['l'])
        new = {l: next(iter(vs)) for l, vs in cand.items() if l not in bad and len(vs) == 1 and not (1 <= l <= fn.argc)}
        if new == known:
            break
        known = new
    return known


def _variant_behind(fn, operand, prune, known, depth=0):
    """(adt, variant index) of the unit-like enum value an operand refers to, through `&x`, `&*p` and promoted constants; None if unknown"""
    if depth > 6:
        return None
    if operand.get('k') == 'const':
        sname = (operand.get('c') or {}).get('s') or ''
        if 'promoted[' in sname:
            try:
                i = int(sname.rsplit('promoted[', 1)[1].split(']')[0])
            except ValueError:
                return None
            for pr in (getattr(fn, 'j', {}) or {}).get('promoted', []) or []:
                if pr.get('i') == i:
                    return (pr['adt'], pr['vi'])
        return None
    p = operand.get('p')
    if p is None:
        return None
    l = p['l']
    if all(e['k'] == 'deref' for e in p['pr']):
        v = prune.get(l) if l in prune else known.get(l)
        if isinstance(v, tuple) and v[0] == 'v':
            ty = strip_generics(fn.locals[l]['ty']).lstrip('&').strip()
            return (ty, v[1])
        ps, _inv = param_source(fn, l)
        if ps is not None and isinstance(prune.get(ps), tuple):
            ty = strip_generics(fn.locals[ps]['ty']).lstrip('&').strip()
            return (ty, prune[ps][1])
    ds = _whole_defs(fn).get(l, [])
    if len(ds) == 1 and ds[0] is not None:
        rv = ds[0]
        if rv['k'] in ('ref', 'rawptr'):
            return _variant_behind(fn, {'k': 'copy', 'p': rv['p']}, prune, known, depth + 1)
        if rv['k'] == 'use':
            return _variant_behind(fn, rv['op'], prune, known, depth + 1)
        if rv['k'] == 'agg' and rv.get('ak') == 'adt' and not rv.get('ops') and rv.get('vi') is not None:
            return (rv.get('adt'), rv['vi'])
    return None


_EVAL_MEMO = {}


def _eval_const_fn(facts, g, prune, depth):
    """the constant a small crate-local function returns for constant arguments, or None"""
    key = (id(facts), g.path, tuple(sorted((k, v) for k, v in prune.items())))
    if key in _EVAL_MEMO:
        return _EVAL_MEMO[key]
    _EVAL_MEMO[key] = None
    live = pruned_blocks(g, prune, facts if depth < 3 else None)
    consts = _local_consts(g, live, prune, facts, depth)
    vals = set()
    okk = True
    for bb in live:
        b = g.blocks[bb]
        for s in b['stmts']:
            if s['k'] == 'assign' and s['p']['l'] == 0:
                v = None
                if not s['p']['pr'] and s['rv']['k'] == 'use':
                    v = _const_of_operand(g, s['rv']['op'], prune, consts)
                if v is None:
                    okk = False
                else:
                    vals.add(v)
        t = b['term']
        if t['k'] == 'call' and t['dest']['l'] == 0:
            okk = False
    out = next(iter(vals)) if okk and len(vals) == 1 else None
    _EVAL_MEMO[key] = out
    return out


def _whole_defs(fn):
    """{local: [rvalue or None]} every definition of a whole local (None = defined by a call or otherwise opaque)"""
    d = getattr(fn, '_whole_defs', None)
    if d is None:
        d = {}
        for bb in fn.reachable_blocks():
            b = fn.blocks[bb]
            for s in b['stmts']:
                if s['k'] == 'assign' and not s['p']['pr']:
                    d.setdefault(s['p']['l'], []).append(s['rv'])
            t = b['term']
            if t['k'] == 'call' and not t['dest']['pr']:
                d.setdefault(t['dest']['l'], []).append(None)
        fn._whole_defs = d
    return d


def param_source(fn, l):
    """(param index, inverted) if local l is, through a chain of single definitions anywhere in the function, a (possibly negated) copy of a parameter.
    (After helper functions are folded in, the helper's own parameter is such a copy of the caller's.)"""
    inv = False
    defs = _whole_defs(fn)
    for _ in range(12):
        if 1 <= l <= fn.argc:
            return l, inv
        ds = defs.get(l, [])
        if len(ds) != 1 or ds[0] is None:
            return None, False
        rv = ds[0]
        if rv['k'] == 'use' and op_local(rv['op']) is not None and not rv['op']['p']['pr']:
            l = op_local(rv['op'])
        elif rv['k'] == 'un' and rv['op'] == 'Not' and op_local(rv['a']) is not None and not rv['a']['p']['pr']:
            l = op_local(rv['a'])
            inv = not inv
        else:
            return None, False
    return None, False


def _param_source(fn, bb, l):
    """(param index, inverted) if local l is a (possibly negated) copy of a parameter, following definitions in block bb"""
    p, inv = param_source(fn, l)
    if p is not None:
        return p, inv
    inv = False
    for _ in range(4):
        if 1 <= l <= fn.argc:
            return l, inv
        found = False
        for s in reversed(fn.blocks[bb]['stmts']):
            if s['k'] == 'assign' and s['p']['l'] == l and not s['p']['pr']:
                rv = s['rv']
                if rv['k'] == 'use' and op_local(rv['op']) is not None and not rv['op']['p']['pr']:
                    l = op_local(rv['op'])
                    found = True
                elif rv['k'] == 'un' and rv['op'] == 'Not' and op_local(rv['a']) is not None and not rv['a']['p']['pr']:
                    l = op_local(rv['a'])
                    inv = not inv
                    found = True
                break
        if not found:
            return None, False
    return None, False


def _succ(fn, bb, prune, consts=None):
    t = fn.term(bb)
    if t['k'] == 'switch' and prune:
        dl = op_local(t['discr'])
        if dl is not None and not t['discr']['p']['pr']:
            tg = dict((v, b) for v, b in t['targets'])
            p, inv = _param_source(fn, bb, dl)
            if p in prune and isinstance(prune[p], bool):
                val = bool(prune[p]) != inv
                nxt = tg.get(1 if val else 0, t['otherwise'])
                return [nxt] if not fn.blocks[nxt]['cleanup'] else []
            if consts:
                # a local with a known constant (possibly negated / copied)
                l, inv2 = dl, False
                defs = _whole_defs(fn)
                for _ in range(8):
                    if l in consts:
                        break
                    ds = defs.get(l, [])
                    if len(ds) != 1 or ds[0] is None:
                        break
                    rv = ds[0]
                    if rv['k'] == 'use' and op_local(rv['op']) is not None and not rv['op']['p']['pr']:
                        l = op_local(rv['op'])
                    elif rv['k'] == 'un' and rv['op'] == 'Not' and op_local(rv['a']) is not None and not rv['a']['p']['pr']:
                        l = op_local(rv['a'])
                        inv2 = not inv2
                    else:
                        break
                if l in consts and isinstance(consts[l], bool):
                    val = consts[l] != inv2
                    nxt = tg.get(1 if val else 0, t['otherwise'])
                    return [nxt] if not fn.blocks[nxt]['cleanup'] else []
            # a switch on the discriminant of a value whose variant is known
            for s in fn.blocks[bb]['stmts']:
                if s['k'] == 'assign' and s['p']['l'] == dl and not s['p']['pr'] and s['rv']['k'] == 'discr':
                    pl = s['rv']['p']
                    # `match (mode, found)`: the discriminant of a field of a tuple built right here from the parameter
                    for _hop in range(3):
                        prj = [e for e in pl['pr'] if e['k'] != 'deref']
                        if not prj:
                            break
                        dsx = _whole_defs(fn).get(pl['l'], [])
                        if prj[0]['k'] == 'field' and len(dsx) == 1 and dsx[0] is not None and dsx[0]['k'] == 'agg' and dsx[0].get('ops') is not None \
                                and prj[0].get('i') is not None and prj[0]['i'] < len(dsx[0]['ops']):
                            o = dsx[0]['ops'][prj[0]['i']]
                            if o.get('k') in ('move', 'copy'):
                                pl = {'l': o['p']['l'], 'pr': list(o['p']['pr']) + prj[1:]}
                                continue
                        break
                    if [e for e in pl['pr'] if e['k'] != 'deref']:
                        continue
                    src = pl['l']
                    v = prune.get(src) if src in prune else (consts or {}).get(src)
                    if v is None:
                        ps, _inv = param_source(fn, src)
                        v = prune.get(ps) if ps is not None else None
                    if isinstance(v, tuple) and v[0] == 'v':
                        nxt = tg.get(v[1], t['otherwise'])
                        return [nxt] if not fn.blocks[nxt]['cleanup'] else []
    return fn.succ(bb)


def const_args(fn_callee, term, caller=None):
    """{param index: constant} for the arguments of a call that are literal bools, or (when the caller is given) unit-like enum values built right at the call"""
    out = {}
    for i, a in enumerate(term['args']):
        if i + 1 > fn_callee.argc:
            continue
        v = op_const_val(a)
        if v is not None and fn_callee.locals[i + 1]['ty'] == 'bool':
            out[i + 1] = bool(v)
            continue
        if caller is not None and a['k'] in ('move', 'copy') and not a['p']['pr']:
            ds = _whole_defs(caller).get(a['p']['l'], [])
            if len(ds) == 1 and ds[0] is not None:
                rv = ds[0]
                if rv['k'] == 'agg' and rv.get('ak') == 'adt' and not rv.get('ops') and rv.get('vi') is not None:
                    out[i + 1] = ('v', rv['vi'])
                elif rv['k'] == 'use' and rv['op']['k'] == 'const' and fn_callee.locals[i + 1]['ty'] == 'bool' and rv['op']['c'].get('val') is not None:
                    out[i + 1] = bool(rv['op']['c']['val'])
    return out


def reach_specialised(facts, start_fn, start_blocks=None, start_prune=None, live_out=None, prune_out=None):
    """set of (Fn, frozenset(prune items)) reachable from the given blocks of start_fn; also returns the set of Fn.
    Closures / fn items referenced as values are followed unspecialised."""
    seen = set()
    fns = set()
    todo = [(start_fn, frozenset((start_prune or {}).items()), start_blocks)]
    while todo:
        fn, pr, blocks = todo.pop()
        key = (fn, pr, None if blocks is None else frozenset(blocks))
        if key in seen:
            continue
        seen.add(key)
        fns.add(fn)
        prune = dict(pr)
        live = pruned_blocks(fn, prune, facts)
        if blocks is not None:
            live = live & set(blocks)
        if live_out is not None:
            live_out.setdefault(fn, set()).update(live)
        if prune_out is not None and prune not in prune_out.setdefault(fn, []):
            prune_out[fn].append(prune)
        for bb in live:
            t = fn.term(bb)
            if t['k'] in ('call', 'tailcall'):
                c = callee_of(t)
                target = None
                if c:
                    r = c.get('resolved')
                    if r and r['local']:
                        target = facts.by_path.get(r['path'])
                    if target is None and c['local']:
                        target = facts.by_path.get(c['path'])
                if target is not None:
                    todo.append((target, frozenset(const_args(target, t, fn).items()), None))
        for g in _fn_refs_in(facts, fn, live):
            todo.append((g, frozenset(), None))
    return fns


def _fn_refs_in(facts, fn, blocks):
    from facts import rvalue_operands, op_const
    out = set()
    for bb in blocks:
        b = fn.blocks[bb]
        ops = []
        for s in b['stmts']:
            if s['k'] == 'assign':
                rv = s['rv']
                if rv['k'] == 'agg' and rv.get('ak') == 'closure':
                    g = facts.by_path.get(rv['closure'])
                    if g:
                        out.add(g)
                ops.extend(rvalue_operands(rv))
        t = b['term']
        if t['k'] in ('call', 'tailcall'):
            ops.extend(t['args'])
        for o in ops:
            c = op_const(o)
            if c and 'fn' in c:
                rec = c['fn']
                r = rec.get('resolved')
                g = None
                if r and r['local']:
                    g = facts.by_path.get(r['path'])
                if g is None and rec['local']:
                    g = facts.by_path.get(rec['path'])
                if g:
                    out.add(g)
    return out
