"""Call-graph reachability with constant-bool specialisation: when a call site passes literal true/false for a bool
parameter, switches on that parameter in the callee are pruned (so `get_bucket -> bucket_getter(.., false, false)` is not
charged with the create branch)."""
from collections import deque
from facts import callee_of, op_local, op_const_val


def pruned_blocks(fn, prune):
    """blocks of fn reachable when bool parameters take the constant values in `prune` {param local: bool}"""
    if not prune:
        return fn.reachable_blocks()
    seen = {0}
    dq = deque([0])
    while dq:
        bb = dq.popleft()
        for s in _succ(fn, bb, prune):
            if s not in seen:
                seen.add(s)
                dq.append(s)
    return seen


def _whole_defs(fn):
    """{local: [rvalue or None]} every definition of a whole local (None = defined by a call or otherwise opaque)"""
    d = getattr(fn, '_whole_defs', None)
    if d is None:
        d = {}
        for bb in fn.reachable_blocks():
            b = fn.blocks[bb]
            for s in b['stmts']:
                if s['k'] == 'assign' and not s['p']['pr']:
                    d.setdefault(s['p']['l'], []).append(s['rv'])
            t = b['term']
            if t['k'] == 'call' and not t['dest']['pr']:
                d.setdefault(t['dest']['l'], []).append(None)
        fn._whole_defs = d
    return d


def param_source(fn, l):
    """(param index, inverted) if local l is, through a chain of single definitions anywhere in the function, a (possibly negated) copy of a parameter.
    (After helper functions are folded in, the helper's own parameter is such a copy of the caller's.)"""
    inv = False
    defs = _whole_defs(fn)
    for _ in range(12):
        if 1 <= l <= fn.argc:
            return l, inv
        ds = defs.get(l, [])
        if len(ds) != 1 or ds[0] is None:
            return None, False
        rv = ds[0]
        if rv['k'] == 'use' and op_local(rv['op']) is not None and not rv['op']['p']['pr']:
            l = op_local(rv['op'])
        elif rv['k'] == 'un' and rv['op'] == 'Not' and op_local(rv['a']) is not None and not rv['a']['p']['pr']:
            l = op_local(rv['a'])
            inv = not inv
        else:
            return None, False
    return None, False


def _param_source(fn, bb, l):
    """(param index, inverted) if local l is a (possibly negated) copy of a parameter, following definitions in block bb"""
    p, inv = param_source(fn, l)
    if p is not None:
        return p, inv
    inv = False
    for _ in range(4):
        if 1 <= l <= fn.argc:
            return l, inv
        found = False
        for s in reversed(fn.blocks[bb]['stmts']):
            if s['k'] == 'assign' and s['p']['l'] == l and not s['p']['pr']:
                rv = s['rv']
                if rv['k'] == 'use' and op_local(rv['op']) is not None and not rv['op']['p']['pr']:
                    l = op_local(rv['op'])
                    found = True
                elif rv['k'] == 'un' and rv['op'] == 'Not' and op_local(rv['a']) is not None and not rv['a']['p']['pr']:
                    l = op_local(rv['a'])
                    inv = not inv
                    found = True
                break
        if not found:
            return None, False
    return None, False


def _succ(fn, bb, prune):
    t = fn.term(bb)
    if t['k'] == 'switch' and prune:
        dl = op_local(t['discr'])
        if dl is not None and not t['discr']['p']['pr']:
            p, inv = _param_source(fn, bb, dl)
            if p in prune:
                val = bool(prune[p]) != inv
                tg = dict((v, b) for v, b in t['targets'])
                nxt = tg.get(1 if val else 0, t['otherwise'])
                return [nxt] if not fn.blocks[nxt]['cleanup'] else []
    return fn.succ(bb)


def const_args(fn_callee, term):
    out = {}
    for i, a in enumerate(term['args']):
        v = op_const_val(a)
        if v is not None and i + 1 <= fn_callee.argc and fn_callee.locals[i + 1]['ty'] == 'bool':
            out[i + 1] = bool(v)
    return out


def reach_specialised(facts, start_fn, start_blocks=None, start_prune=None, live_out=None):
    """set of (Fn, frozenset(prune items)) reachable from the given blocks of start_fn; also returns the set of Fn.
    Closures / fn items referenced as values are followed unspecialised."""
    seen = set()
    fns = set()
    todo = [(start_fn, frozenset((start_prune or {}).items()), start_blocks)]
    while todo:
        fn, pr, blocks = todo.pop()
        key = (fn, pr, None if blocks is None else frozenset(blocks))
        if key in seen:
            continue
        seen.add(key)
        fns.add(fn)
        prune = dict(pr)
        live = pruned_blocks(fn, prune)
        if blocks is not None:
            live = live & set(blocks)
        if live_out is not None:
            live_out.setdefault(fn, set()).update(live)
        for bb in live:
            t = fn.term(bb)
            if t['k'] in ('call', 'tailcall'):
                c = callee_of(t)
                target = None
                if c:
                    r = c.get('resolved')
                    if r and r['local']:
                        target = facts.by_path.get(r['path'])
                    if target is None and c['local']:
                        target = facts.by_path.get(c['path'])
                if target is not None:
                    todo.append((target, frozenset(const_args(target, t).items()), None))
        for g in _fn_refs_in(facts, fn, live):
            todo.append((g, frozenset(), None))
    return fns


def _fn_refs_in(facts, fn, blocks):
    from facts import rvalue_operands, op_const
    out = set()
    for bb in blocks:
        b = fn.blocks[bb]
        ops = []
        for s in b['stmts']:
            if s['k'] == 'assign':
                rv = s['rv']
                if rv['k'] == 'agg' and rv.get('ak') == 'closure':
                    g = facts.by_path.get(rv['closure'])
                    if g:
                        out.add(g)
                ops.extend(rvalue_operands(rv))
        t = b['term']
        if t['k'] in ('call', 'tailcall'):
            ops.extend(t['args'])
        for o in ops:
            c = op_const(o)
            if c and 'fn' in c:
                rec = c['fn']
                r = rec.get('resolved')
                g = None
                if r and r['local']:
                    g = facts.by_path.get(r['path'])
                if g is None and rec['local']:
                    g = facts.by_path.get(rec['path'])
                if g:
                    out.add(g)
    return out
