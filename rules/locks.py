"""Lockset analysis over the locks of DBInner (DESIGN.md section 3).

Lock identity = the DBInner field the `lock()/read()/write()` receiver was borrowed from; mode X (exclusive) or S (shared).
Guards are tracked as tokens flowing through moves / aggregates / by-value calls; a token is released at the `drop`
of a local holding it and "held on return" when it flows into `_0`."""
from collections import defaultdict, deque
from facts import callee_of, op_place, op_local, last_seg, strip_generics, rvalue_operands
from flow import Prov, result_switch

ACQ = {
    'std::sync::Mutex::<T>::lock': 'X', 'std::sync::Mutex::<T>::try_lock': 'X',
    'std::sync::RwLock::<T>::read': 'S', 'std::sync::RwLock::<T>::try_read': 'S',
    'std::sync::RwLock::<T>::write': 'X', 'std::sync::RwLock::<T>::try_write': 'X',
}
GUARD_MARKS = ('MutexGuard', 'RwLockReadGuard', 'RwLockWriteGuard')


def lock_fields(facts, adt_name='DBInner'):
    out = {}
    for f in facts.adt_fields(adt_name) or []:
        t = f['ty']
        if t.startswith('std::sync::Mutex<'):
            out[f['name']] = 'Mutex'
        elif t.startswith('std::sync::RwLock<'):
            out[f['name']] = 'RwLock'
    return out


def guard_carriers(facts):
    """names of local ADTs that (transitively) contain a lock guard by value"""
    carriers = set()
    changed = True
    while changed:
        changed = False
        for a in facts.doc['adts']:
            if a['name'] in carriers:
                continue
            for v in a['variants']:
                for f in v['fields']:
                    t = f['ty']
                    if t.startswith('&') or t.startswith('*'):
                        continue
                    if any(g in t for g in GUARD_MARKS) or any(_mentions(t, c) for c in carriers):
                        carriers.add(a['name'])
                        changed = True
                        break
                if a['name'] in carriers:
                    break
    return carriers


def _mentions(ty, adt_name):
    import re
    return re.search(r'(^|[^A-Za-z0-9_])%s($|[^A-Za-z0-9_])' % re.escape(adt_name), ty) is not None


class LockInfo:
    """per-function lock facts"""

    def __init__(self, facts, fn, carriers, fields, prune=None):
        self.facts = facts
        self.fn = fn
        self.carriers = carriers
        self.fields = fields
        self.prune = prune or {}        # {param local: bool}
        self.sites = []                 # (bb, lock field, mode, token index, try?)
        self.holders = []               # token -> set(locals)
        self.drops = defaultdict(set)   # bb -> tokens released there
        self._find_sites()
        self._holders()
        self._dataflow()

    def can_hold(self, l):
        ty = self.fn.locals[l]['ty']
        if ty.startswith('&') or ty.startswith('*'):
            return False
        return any(g in ty for g in GUARD_MARKS) or any(_mentions(ty, c) for c in self.carriers)

    def _find_sites(self):
        fn = self.fn
        pv = Prov(fn)
        for bb in sorted(fn.reachable_blocks()):
            t = fn.term(bb)
            if t['k'] != 'call':
                continue
            c = callee_of(t)
            if not c or c['path'] not in ACQ or not t['args']:
                continue
            fs, _ = pv.of_operand(t['args'][0])
            names = [n for (adt, n) in fs if adt and last_seg(adt) == 'DBInner' and n in self.fields]
            if len(names) != 1:
                # a lock that is not a DBInner field (or ambiguous): recorded under its type
                name = '?' + (c.get('self_ty') or '')
            else:
                name = names[0]
            self.sites.append((bb, name, ACQ[c['path']], len(self.sites), 'try' in last_seg(c['path'])))

    def _holders(self):
        fn = self.fn
        for (bb, name, mode, tok, tr) in self.sites:
            t = fn.term(bb)
            hs = set()
            if not t['dest']['pr']:
                hs.add(t['dest']['l'])
            changed = True
            while changed:
                changed = False
                for b2 in fn.reachable_blocks():
                    b = fn.blocks[b2]
                    for s in b['stmts']:
                        if s['k'] != 'assign':
                            continue
                        d = s['p']['l']
                        if d in hs or not self.can_hold(d):
                            continue
                        srcs = [op_place(o) for o in rvalue_operands(s['rv'])]
                        if any(p is not None and p['l'] in hs for p in srcs):
                            hs.add(d)
                            changed = True
                    t2 = b['term']
                    if t2['k'] == 'call' and not t2['dest']['pr']:
                        d = t2['dest']['l']
                        c2 = callee_of(t2)
                        if c2 and c2['path'] == 'std::ops::FromResidual::from_residual':
                            continue      # a residual only carries the error; the guard inside a PoisonError is dropped by the conversion
                        if d not in hs and self.can_hold(d):
                            for a in t2['args']:
                                p = op_place(a)
                                if p is not None and p['l'] in hs and a['k'] == 'move' and self.can_hold(p['l']):
                                    hs.add(d)
                                    changed = True
            self.holders.append(hs)
        for bb in fn.reachable_blocks():
            t = fn.term(bb)
            if t['k'] == 'drop':
                l = t['p']['l']
                for tok, hs in enumerate(self.holders):
                    if l in hs:
                        self.drops[bb].add(tok)
            # an explicit `drop(guard)` / mem::drop call
            if t['k'] == 'call':
                c = callee_of(t)
                if c and strip_generics(c['path']) in ('std::mem::drop', 'core::mem::drop') and t['args']:
                    l = op_local(t['args'][0])
                    for tok, hs in enumerate(self.holders):
                        if l in hs:
                            self.drops[bb].add(tok)

    def succ(self, bb):
        fn = self.fn
        t = fn.term(bb)
        if t['k'] == 'switch' and self.prune:
            dl = op_local(t['discr'])
            src = None
            if dl is not None:
                if 1 <= dl <= fn.argc and not t['discr']['p']['pr']:
                    src = dl
                else:
                    for s in reversed(fn.blocks[bb]['stmts']):
                        if s['k'] == 'assign' and s['p']['l'] == dl and not s['p']['pr']:
                            if s['rv']['k'] == 'use' and op_local(s['rv']['op']) is not None and not s['rv']['op']['p']['pr']:
                                src = op_local(s['rv']['op'])
                            elif s['rv']['k'] == 'un' and s['rv']['op'] == 'Not' and op_local(s['rv']['a']) in self.prune:
                                src = ('not', op_local(s['rv']['a']))
                            break
            val = None
            if dl is not None and not t['discr']['p']['pr'] and src not in self.prune and not (isinstance(src, tuple) and src[1] in self.prune):
                from reach import param_source
                ps, inv = param_source(fn, dl)
                if ps in self.prune:
                    src = ('not', ps) if inv else ps
            if src in self.prune:
                val = 1 if self.prune[src] else 0
            elif isinstance(src, tuple) and src[1] in self.prune:
                val = 0 if self.prune[src[1]] else 1
            if val is not None:
                tg = dict((v, b) for v, b in t['targets'])
                nxt = tg.get(val, t['otherwise'])
                return [nxt] if not fn.blocks[nxt]['cleanup'] else []
        return fn.succ(bb)

    def _dataflow(self):
        fn = self.fn
        gen = defaultdict(set)
        for (bb, name, mode, tok, tr) in self.sites:
            gen[bb].add(tok)
        reach = set()
        dq = deque([0])
        reach.add(0)
        while dq:
            b = dq.popleft()
            for s in self.succ(b):
                if s not in reach:
                    reach.add(s)
                    dq.append(s)
        self.reach = reach
        alltok = set(range(len(self.sites)))
        may_in = {b: set() for b in reach}
        must_in = {b: set(alltok) for b in reach}
        must_in[0] = set()
        preds = defaultdict(list)
        for b in reach:
            for s in self.succ(b):
                preds[s].append(b)

        def out(b, inn):
            return (inn - self.drops.get(b, set())) | gen.get(b, set())
        changed = True
        while changed:
            changed = False
            for b in sorted(reach):
                if b != 0:
                    ps = preds[b]
                    nm = set()
                    for p in ps:
                        nm |= out(p, may_in[p])
                    if ps:
                        nmu = set.intersection(*[out(p, must_in[p]) for p in ps])
                    else:
                        nmu = set()
                    if nm != may_in[b] or nmu != must_in[b]:
                        may_in[b], must_in[b] = nm, nmu
                        changed = True
        self.may_in, self.must_in = may_in, must_in
        self.out = out

    def names(self, toks):
        return sorted({(self.sites[t][1], self.sites[t][2]) for t in toks})

    def held_must_at(self, bb):
        """locks certainly held when block bb starts executing"""
        return self.names(self.must_in.get(bb, set()))

    def held_may_at(self, bb):
        return self.names(self.may_in.get(bb, set()))

    def held_on_return(self):
        """locks whose guard flows into the return value and is still live at a reachable return"""
        live = set()
        for b in self.reach:
            if self.fn.term(b)['k'] in ('return', 'tailcall'):
                live |= self.out(b, self.may_in[b])
        out = set()
        for tok, hs in enumerate(self.holders):
            if 0 in hs and tok in live:
                out.add(tok)
        return self.names(out)


class Locks:
    def __init__(self, facts):
        self.facts = facts
        self.fields = lock_fields(facts)
        self.carriers = guard_carriers(facts)
        self._info = {}

    def info(self, fn, prune=None):
        key = (fn.path, id(fn) if hasattr(fn, 'inlined') else 0, tuple(sorted((prune or {}).items())))
        if key not in self._info:
            self._info[key] = LockInfo(self.facts, fn, self.carriers, self.fields, prune)
        return self._info[key]

    def acquired_transitively(self, fn, _seen=None):
        """{(lock, mode)} acquired by fn or anything it may call (crate-local)"""
        out = set()
        for g in self.facts.reachable_fns([fn]):
            for (bb, name, mode, tok, tr) in self.info(g).sites:
                out.add((name, mode))
        return out

    def order_edges(self, entries_with_initial, writer_only=None):
        """lock-order edges {(held (lock,mode), acquired (lock,mode)): [site strings]} collected from every function reachable
        from the entries; `entries_with_initial` = [(fn, initial held set of (lock,mode), reader?)]. Initial held sets propagate
        to callees.  For reader entries, blocks that execute only for writable transactions (writer_only(fn) -> set of blocks)
        are skipped: a read-only transaction returns ReadOnlyTx before reaching them."""
        edges = defaultdict(list)
        seen = set()
        todo = [(f, frozenset(h), bool(r)) for f, h, r in entries_with_initial]
        while todo:
            fn, init, reader = todo.pop()
            if (fn.path, init, reader) in seen:
                continue
            seen.add((fn.path, init, reader))
            li = self.info(fn)
            skip = writer_only(fn) if (reader and writer_only) else set()
            for (bb, name, mode, tok, tr) in li.sites:
                if bb in skip:
                    continue
                held = set(li.names(li.may_in.get(bb, set()))) | set(init)
                for h in held:
                    edges[(h, (name, mode))].append('%s@%s' % (fn.qual, fn.loc(bb)))
            for bb, t, target, c in self.facts.call_sites(fn):
                if target is None or bb not in li.may_in or bb in skip:
                    continue
                held = frozenset(set(li.names(li.may_in.get(bb, set()))) | set(init))
                todo.append((target, held, reader))
            for g in self.facts.fn_refs(fn):
                todo.append((g, init, reader))
        return edges
