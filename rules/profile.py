"""profile independence: the rules read the MIR of a debug build; a release build drops the bodies of `debug_assert!` (and of every other
`if cfg!(..)` block), so the verdicts carry over only if those bodies change no state."""
from core import ok, bad, floor
from facts import callee_of, op_place, strip_generics, last_seg
from effects import fn_effects, INSERTING, REMOVING


def cfg_regions(fn):
    """[(switch block, region blocks)] for every switch that tests the result of `cfg!(..)`"""
    out = []
    for a in sorted(fn.reachable_blocks()):
        t = fn.term(a)
        if t['k'] != 'switch':
            continue
        exp = (t.get('span') or {}).get('exp') or []
        if not exp or exp[0] != 'macro:$crate::cfg':
            continue
        tg = dict((v, x) for v, x in t['targets'])
        if 0 not in tg:
            continue
        on, off = t['otherwise'], tg[0]
        region = fn.reach_from([on], avoid={a}) - fn.reach_from([off], avoid={a})
        out.append((a, exp, region))
    return out


def _borrows_region_temp(ctx, fn, l, region):
    """is local l (a `&mut`) a borrow of a plain local that is itself only defined inside the region?"""
    du = ctx.du(fn)
    ds = du.defs.get(l, [])
    if len(ds) != 1 or ds[0][1] is None:
        return False
    st = fn.blocks[ds[0][0]]['stmts'][ds[0][1]]
    rv = st['rv']
    if rv['k'] != 'ref' or rv['p']['pr']:
        return False
    tds = du.defs.get(rv['p']['l'], [])
    return bool(tds) and all(b in region for b, _ in tds) and rv['p']['l'] > fn.argc


def debug_pure(ctx, rule):
    res = []
    F = ctx.facts
    n = 0
    for fn in sorted(F.fns, key=lambda f: f.path):
        for a, exp, region in cfg_regions(fn):
            n += 1
            what = last_seg(exp[-1].replace('macro:', '')) if exp else 'cfg!'
            impure = []
            for bb in sorted(region):
                t = fn.term(bb)
                for si, st in enumerate(fn.blocks[bb]['stmts']):
                    if st['k'] == 'assign' and any(e['k'] == 'deref' for e in st['p']['pr']) and not (st.get('span') or {}).get('exp'):
                        impure.append((fn.loc(bb, si), 'store through a reference'))
                if t['k'] != 'call':
                    continue
                c = callee_of(t)
                if not c:
                    continue
                if (t.get('span') or {}).get('exp'):
                    continue        # the macro's own panic / formatting machinery
                muts = []
                for arg in t['args']:
                    pl = op_place(arg)
                    if pl is not None and not pl['pr'] and fn.locals[pl['l']]['ty'].startswith('&mut '):
                        if _borrows_region_temp(ctx, fn, pl['l'], region):
                            continue        # `iter.all(..)`: the mutable borrow of a temporary built inside the assertion itself
                        muts.append(fn.locals[pl['l']]['ty'])
                tgt = None
                r = c.get('resolved')
                if r and r['local']:
                    tgt = F.by_path.get(r['path'])
                elif c['local']:
                    tgt = F.by_path.get(c['path'])
                if tgt is not None and not muts:
                    hows = {how for (adt, fld, how) in fn_effects(F, tgt) if adt and adt != '$upvar'} & ((INSERTING | REMOVING) - {'store'})
                    if hows:
                        impure.append((fn.loc(bb), 'call of %s, which changes state (%s)' % (tgt.qual, ','.join(sorted(hows)))))
                elif muts:
                    impure.append((fn.loc(bb), 'call of %s with a mutable borrow (%s)' % (strip_generics(c['path']), muts[0])))
            if impure:
                res.append(bad(rule, '%s | state changed inside %s' % (fn.qual, what),
                               'the body of `%s!` in %s does more than test: %s at %s. A release build compiles that body out, so the state change happens in debug builds '
                               '(the ones the test suite and this analysis see) and not in release builds' % (what, fn.qual, impure[0][1], impure[0][0]), where=impure[0][0]))
            else:
                res.append(ok(rule, '%s: the `%s!` at %s only reads' % (fn.qual, what, fn.loc(a)), sites=1))
    f = floor(rule, 'blocks compiled only under cfg!(debug_assertions)', n, 3)
    if f:
        res.append(f)
    return res
