"""Commit-path obligations O1..O6 (DESIGN.md section 2) evaluated on the inlined event trace of Tx::commit,
plus the creation path of OpenOptions::open.  Shared by C02, C04, C10, C11, C16."""
from core import R, ok, bad, unresolved, floor
from anchors import AnchorError
from facts import callee_of, strip_generics, last_seg, op_local
from flow import result_switch


def _evs(T, kind, **kw):
    out = []
    for e in T.events(kind):
        if all(e.get(k) == v for k, v in kw.items()):
            out.append(e)
    return out


def _nodes(evs):
    return {e['node'] for e in evs if 'node' in e}


def _ok_starts(T, e):
    return T.succ_nodes_of_event_ok(e)


RESULT_PRESERVING = {'map_err', 'or_else', 'into', 'from', 'map_err_into'}


def _tail_returned(fn, bb):
    """is the Result of the call in block bb handed back as the function's own result, only passed through error-mapping adaptors
    (`file.sync_all().map_err(Error::Io)` as the tail expression)?  Then the function succeeds exactly when the call did."""
    from flow import DefUse
    t = fn.term(bb)
    if t['k'] != 'call' or t['dest']['pr']:
        return False
    want = t['dest']['l']
    du = getattr(fn, '_du_tail', None)
    if du is None:
        du = DefUse(None, fn)
        fn._du_tail = du
    l = 0
    for _ in range(10):
        l, path = du.trace_root(l)
        if path:
            return False
        if l == want:
            return True
        ds = du._success_defs(l)
        if len(ds) != 1 or ds[0][1] is not None:
            return False
        ct = fn.term(ds[0][0])
        c = callee_of(ct)
        if not c or last_seg(strip_generics(c['path'])) not in RESULT_PRESERVING or not ct['args'] or op_local(ct['args'][0]) is None:
            return False
        l = op_local(ct['args'][0])
    return False


def _S_ok_nodes(T):
    """a sync only counts when its result is discriminated and the error arm leaves (the 'ok-edge' virtual node), or when its Result is handed back
    unchanged as the result of the enclosing function (whose caller discriminates it)"""
    out = {e['ok_node'] for e in T.events('S') if 'ok_node' in e}
    for e in T.events('S'):
        if 'ok_node' not in e and not e.get('summary'):
            n = T.nodes[e['node']]
            if n.bb is not None and _tail_returned(n.fn, n.bb):
                out.add(e['node'])
    return out


def commit_trace(ctx):
    commit = ctx.need('Tx::commit')[0]
    return ctx.trace(commit)


def obligations(ctx):
    """returns dict rule-id -> list[R]"""
    out = {}
    try:
        T = commit_trace(ctx)
    except AnchorError as e:
        u = unresolved('commit-trace', str(e))
        return {k: [u] for k in ('O0', 'O1', 'O2', 'O3', 'O4', 'O5', 'O6')}
    H = _evs(T, 'W', sub='H')
    D = _evs(T, 'W', sub='D')
    G = _evs(T, 'G')
    M = _evs(T, 'M')
    S = T.events('S')
    P = T.events('P')
    K = T.events('K')
    A = T.events('A')
    Sok = _S_ok_nodes(T)
    summary_evs = [e for e in T.events() if e.get('summary') and e['ev'] in ('W', 'G', 'S', 'M', 'P', 'K')]
    ctx.stats.update(commit_trace_nodes=len(T.nodes), commit_events=dict(H=len(H), D=len(D), G=len(G), M=len(M), S=len(S), P=len(P), K=len(K), A=len(A)))

    def fl(rule, evs, what, minimum=1):
        return floor(rule, what, len(evs), minimum)

    # file events must not hide inside a recursion summary (the order inside a summary is unknown)
    pre = []
    for e in summary_evs:
        pre.append(bad('commit-trace', 'event inside recursion summary | %s | %s' % (e['fn'], e['ev']),
                       'event %s at %s sits inside a recursive call cycle; its order cannot be decided' % (e['ev'], e['loc']), where=e['loc']))

    # ---------------- O1: at every H, every D/G before it is followed by a propagated S on every path
    res = list(pre)
    f = fl('C02.O1', H, 'header writes (H) in the commit trace') or fl('C02.O1', D, 'data-page writes (D) in the commit trace')
    if f:
        res.append(f)
    for h in H:
        dirty = _nodes(D) | _nodes(G)
        # forward from the *success or failure* of a dirtying write (a failed write may have written part)
        reach = T.reach(set().union(*[T.succ.get(n, set()) for n in dirty]) if dirty else set(), avoid=Sok)
        if h['node'] in reach:
            src = None
            for d in D + G:
                p = T.path(T.succ.get(d['node'], ()), h['node'], avoid=Sok)
                if p:
                    src = (d, p)
                    break
            d, p = src
            res.append(bad('C02.O1', '%s | H=%s after %s=%s without sync' % (T.entry.qual, h['callee'], d['ev'], d['callee']),
                           'header write at %s is reachable from the %s write at %s with no propagated sync in between: '
                           'a power loss can persist the header but not the page it points to' % (h['loc'], 'data' if d['ev'] == 'W' else 'grow', d['loc']),
                           where=h['loc'], path=T.describe_path([d['node']] + p)))
        else:
            res.append(ok('C02.O1', 'every D/G before the header write at %s is followed by a propagated sync' % h['loc'], sites=len(D) + len(G)))
    out['O1'] = res

    # ---------------- O2: after an H no further D, G or H
    res = list(pre)
    for h in H:
        after = T.reach(T.succ.get(h['node'], set()))
        offenders = [e for e in D + G + H if e['node'] in after and e is not h]
        if offenders:
            o = offenders[0]
            p = T.path(T.succ.get(h['node'], ()), o['node'])
            res.append(bad('C02.O2', '%s | %s=%s after H' % (T.entry.qual, o['ev'] + o.get('sub', ''), o['callee']),
                           'file %s at %s is reachable after the header write at %s' % ('write' if o['ev'] == 'W' else 'grow', o['loc'], h['loc']),
                           where=o['loc'], path=T.describe_path([h['node']] + (p or []))))
        else:
            res.append(ok('C02.O2', 'nothing is written to the file after the header write at %s' % h['loc'], sites=1))
    if not H:
        res.append(fl('C02.O2', H, 'header writes (H) in the commit trace'))
    out['O2'] = res

    # ---------------- O3: every ret Ok after an H passes a propagated S after that H
    res = list(pre)
    exits = T.exit_kinds()
    ok_exits = [i for i, k in exits if k in ('ok', 'unk', None)]
    for h in H:
        starts = _ok_starts(T, h)
        reach = T.reach(starts, avoid=Sok)
        offending = [x for x in ok_exits if x in reach]
        if offending:
            p = T.path(starts, offending[0], avoid=Sok)
            res.append(bad('C02.O3', '%s | ret Ok without sync after H=%s' % (T.entry.qual, h['callee']),
                           'commit can return success after the header write at %s without a propagated sync: '
                           '"commit returned" would not imply durable' % h['loc'], where=h['loc'], path=T.describe_path(p or [])))
        else:
            res.append(ok('C02.O3', 'every successful return after the header write at %s passes a propagated sync' % h['loc'], sites=len(ok_exits)))
    f = fl('C02.O3', ok_exits, 'successful returns of commit') or fl('C02.O3', H, 'header writes')
    if f:
        res.append(f)
    out['O3'] = res

    # ---------------- O4: P only behind the success edge of H
    res = list(pre)
    f = fl('C11.O4', P, 'publications of the shared free list (P) in the commit trace')
    if f:
        res.append(f)
    hs_ok = set()
    for h in H:
        if 'ok_node' in h:
            hs_ok.add(h['ok_node'])
    start = {T.nodes[0].id}
    # also accepted: behind the ERROR edge of the header write when the header is re-read first (the write may have been
    # partial; the publication is then conditional on which header is current)
    hdr_after_err = set()
    HDRn = {e['node'] for e in T.events('HDR')}
    for h in H:
        if 'err_node' in h:
            hdr_after_err |= (T.reach({h['err_node']}) & HDRn)
    reach_wo = T.reach(start, avoid=hs_ok | hdr_after_err) if hs_ok else T.reach(start)
    for p in P:
        if p['node'] in reach_wo:
            pth = T.path(start, p['node'], avoid=hs_ok | hdr_after_err)
            res.append(bad('C11.O4', '%s | P=%s before H success' % (T.entry.qual, p.get('how')),
                           'the shared free list is replaced at %s on a path that has not passed the success edge of the header write: '
                           'if the header write then fails (or is never reached) the visible snapshot is still the old one while the '
                           'shared free list already belongs to the new one' % p['loc'], where=p['loc'], path=T.describe_path(pth or [])))
        else:
            res.append(ok('C11.O4', 'publication at %s is only reachable through the success edge of the header write' % p['loc'], sites=1))
    out['O4'] = res

    # ---------------- O5: every exit reachable from the success edge of H passes P
    #   exception: the exit caused by the poisoned free-list lock itself (error arm of the lock acquisition that precedes P)
    res = list(pre)
    Pn = _nodes(P)
    lock_err = set()
    for n in T.nodes:
        if n.virt is None and n.bb is not None:
            t = n.fn.term(n.bb)
            c = callee_of(t) if t['k'] == 'call' else None
            if c and c['path'] in ('std::sync::Mutex::<T>::lock', 'std::sync::Mutex::lock') and 'freelist::Freelist' in (c.get('self_ty') or ''):
                rs = result_switch(n.fn, n.bb)
                if rs and rs['err'] is not None:
                    key = (n.ctx, n.fn, rs['err'], n.kind, None)
                    # error arm block of the free-list lock acquisition
                    for m in T.nodes:
                        if m.ctx == n.ctx and m.fn is n.fn and m.bb == rs['err'] and m.virt is None:
                            lock_err.add(m.id)
    all_exits = [i for i, k in exits]
    for h in H:
        starts = _ok_starts(T, h)
        reach = T.reach(starts, avoid=Pn | lock_err)
        offending = [x for x in all_exits if x in reach]
        if offending:
            avoid = Pn | lock_err
            reported = False
            # name each offending exit by the fallible call whose error arm leads to it
            for i in sorted(reach):
                n = T.nodes[i]
                if n.virt is not None or n.bb is None:
                    continue
                t = n.fn.term(n.bb)
                if t['k'] != 'call':
                    continue
                rs = result_switch(n.fn, n.bb)
                if not rs or rs['err'] is None:
                    continue
                if callee_of(t) and callee_of(t)['path'] in ('std::ops::Try::branch',):
                    continue
                errs = [m.id for m in T.nodes if m.ctx == n.ctx and m.fn is n.fn and m.bb == rs['err'] and m.virt is None]
                for en in errs:
                    if en in reach and any(x in T.reach({en}, avoid=avoid) for x in all_exits):
                        c = callee_of(t)
                        name = strip_generics(c['path']) if c else '?'
                        pth = T.path(starts, en, avoid=avoid) or []
                        res.append(bad('C11.O5', '%s | exit=Err(%s) after H' % (T.entry.qual, name),
                                       'after the header write at %s succeeded, an error from %s at %s makes commit return without publishing '
                                       'the new free list: the map already shows the new header while the shared free list is still the old one'
                                       % (h['loc'], name, n.loc()), where=n.loc(), path=T.describe_path(pth)))
                        reported = True
            okx = [x for x in offending if dict(exits).get(x) in ('ok', 'unk', None)]
            if okx:
                pth = T.path(starts, okx[0], avoid=avoid) or []
                res.append(bad('C11.O5', '%s | exit=Ok after H without P' % T.entry.qual,
                               'commit can return success after the header write at %s without publishing the new free list '
                               '(everything the transaction freed is leaked and the next writer reuses pages of the new tree)' % h['loc'],
                               where=h['loc'], path=T.describe_path(pth)))
                reported = True
            if not reported:
                pth = T.path(starts, offending[0], avoid=avoid) or []
                res.append(bad('C11.O5', '%s | exit after H without P' % T.entry.qual,
                               'an exit is reachable after the successful header write at %s without publishing the free list' % h['loc'],
                               where=h['loc'], path=T.describe_path(pth)))
        else:
            res.append(ok('C11.O5', 'every exit after the successful header write at %s passes the publication of the free list' % h['loc'], sites=len(all_exits)))
    out['O5'] = res
    out['lock_err_exception_sites'] = len(lock_err)

    # ---------------- O6: strict check placement: no D after K, no H before K, G/M (if any) dominate K
    res = list(pre)
    f = fl('C16.O6', K, 'strict-mode check call (K) in the commit trace')
    if f:
        res.append(f)
    for k in K:
        after = T.reach(T.succ.get(k['node'], set()))
        late = [e for e in D + G + M if e['node'] in after]
        before_h = [h for h in H if k['node'] in T.reach(T.succ.get(h['node'], set()))]
        if late:
            o = late[0]
            res.append(bad('C16.O6', '%s | %s after K' % (T.entry.qual, o['ev']),
                           'the strict-mode check at %s runs before the %s at %s: it would inspect stale or unmapped pages' % (k['loc'], o['ev'], o['loc']),
                           where=k['loc'], path=T.describe_path(T.path(T.succ.get(k['node'], ()), o['node']) or [])))
        elif before_h:
            res.append(bad('C16.O6', '%s | K after H' % T.entry.qual,
                           'the strict-mode check at %s runs after the header write at %s: a rejected commit is already published' % (k['loc'], before_h[0]['loc']),
                           where=k['loc']))
        else:
            res.append(ok('C16.O6', 'strict check at %s: all data writes, growth and remap precede it and the header write follows it' % k['loc'], sites=len(D) + len(G) + len(M)))
        # K must be guarded by the strict_mode flag and its result propagated
    out['O6'] = res

    # ---------------- O0: a commit reports success only after it has written a header (a commit that skips its header also skips the alternation:
    #                  the other slot then keeps a state two commits old, which is what a damaged newest header falls back to)
    res = list(pre)
    hn = _nodes(H)
    if hn:
        reach = T.reach({T.nodes[0].id}, avoid=hn)
        offending = [x for x in ok_exits if x in reach]
        if offending:
            p = T.path({T.nodes[0].id}, offending[0], avoid=hn)
            res.append(bad('C12.O0', '%s | ret Ok without a header write' % T.entry.qual,
                           'commit can return success at %s without having written a header page: the two header slots then no longer hold the last two commits, and a damaged newest '
                           'header falls back to a state older than the previous commit' % T.nodes[offending[0]].loc(), where=T.nodes[offending[0]].loc(), path=T.describe_path(p or [])))
        else:
            res.append(ok('C12.O0', 'every successful return of commit passes a header write', sites=len(ok_exits)))
    f = fl('C12.O0', ok_exits, 'successful returns of commit') or fl('C12.O0', H, 'header writes')
    if f:
        res.append(f)
    out['O0'] = res
    out['trace'] = T
    return out


def complete_writes(ctx, rule='C02.complete-writes', traces=None):
    """every write of the commit (and of file creation) is complete: `write_all` / `write_all_at`, or a `write` whose returned count is looked at.  `write(2)` may transfer
    fewer bytes than asked without an error; a discarded count leaves a page of which only a prefix reached the file behind a commit that reports success"""
    from core import ok, bad, floor
    from facts import callee_of, op_place, strip_generics, last_seg
    res = []
    n = 0
    if traces is None:
        traces = [commit_trace(ctx)]
        try:
            (op,) = ctx.need('OpenOptions::open')
            traces.append(ctx.trace(op))
        except Exception:
            pass
    seen = set()
    for T in traces:
        for e in T.events('W'):
            if e.get('summary') or e.get('buffered'):
                continue
            nd = T.nodes[e['node']]
            fn, bb = nd.fn, nd.bb
            if (fn.path, bb) in seen:
                continue
            seen.add((fn.path, bb))
            n += 1
            t = fn.term(bb)
            nm = last_seg(strip_generics((callee_of(t) or {}).get('path', '')))
            if 'all' in nm or nm == 'write_fmt':
                res.append(ok(rule, '%s at %s writes the whole buffer or fails' % (nm, fn.loc(bb)), sites=1))
                continue
            # forward data flow from the call's result: is the count ever an operand of arithmetic / a comparison / another call?
            derived = {t['dest']['l']}
            used = False
            for _ in range(6):
                grew = False
                for b2 in fn.reachable_blocks():
                    for st in fn.blocks[b2]['stmts']:
                        if st['k'] != 'assign':
                            continue
                        rv = st['rv']
                        ops = [rv.get('op'), rv.get('a'), rv.get('b')] + list(rv.get('ops') or [])
                        pls = [op_place(o) for o in ops if isinstance(o, dict) and o.get('k') in ('move', 'copy')]
                        if rv['k'] in ('ref', 'rawptr', 'discr'):
                            pls.append(rv['p'])
                        if any(pl is not None and pl['l'] in derived for pl in pls):
                            # arithmetic, a comparison, or a range / tuple built from the count (`&buf[n..]`)
                            if rv['k'] in ('bin', 'agg') and any(pl is not None and pl['l'] in derived and not pl['pr'] and fn.locals[pl['l']]['ty'] == 'usize' for pl in pls):
                                used = True
                            if st['p']['l'] not in derived:
                                derived.add(st['p']['l'])
                                grew = True
                    t2 = fn.term(b2)
                    if t2['k'] == 'call' and b2 != bb:
                        for a in t2['args']:
                            pl = op_place(a)
                            if pl is not None and pl['l'] in derived:
                                c2 = callee_of(t2)
                                nm2 = last_seg(strip_generics(c2['path'])) if c2 else ''
                                if fn.locals[pl['l']]['ty'] == 'usize' and nm2 not in ('branch', 'from_residual'):
                                    used = True
                                if t2['dest']['l'] not in derived:
                                    derived.add(t2['dest']['l'])
                                    grew = True
                if not grew:
                    break
            # ... and a short count is answered by writing the rest: the write sits in a loop.  A single `write` / `write_vectored` whose short count is turned into an error
            # makes commits fail on what is not an I/O error (a vectored write is cut at IOV_MAX buffers, a pipe or a signal shortens any write)
            in_loop = bb in fn.reach_from(fn.succ(bb))
            if not in_loop:
                # the write may sit in a helper that the caller loops around
                for (cfn, cbb, tgt) in reversed([c[:3] for c in nd.ctx]):
                    if cbb in cfn.reach_from(cfn.succ(cbb)):
                        in_loop = True
                        break
            if used and not in_loop:
                res.append(bad(rule, '%s | short write not continued (%s)' % (fn.qual, nm),
                               '%s looks at the count returned by `%s` at %s but does not write the remainder (the call is not in a loop): a short write, which is not an error, makes the '
                               'commit fail or leaves the tail unwritten' % (fn.qual, nm, fn.loc(bb)), where=fn.loc(bb)))
            elif used:
                res.append(ok(rule, '%s at %s: the returned count is examined' % (nm, fn.loc(bb)), sites=1))
            else:
                res.append(bad(rule, '%s | partial write not handled (%s)' % (fn.qual, nm),
                               '%s writes with `%s` at %s and never looks at the number of bytes it reports: a short write (no error) leaves only a prefix of the page in the file, and the '
                               'commit goes on to publish it' % (fn.qual, nm, fn.loc(bb)), where=fn.loc(bb)))
    f = floor(rule, 'file writes in the commit and creation traces', n, 2)
    if f:
        res.append(f)
    return res


def climb_atoms(ctx, fn, operand, callers, depth=0):
    """atoms of the backward slice of `operand` in fn, continued through fn's parameters into the arguments of the call sites on the trace context
    (callers = the context tuple of the trace node: ((caller fn, call block, callee), ...)): an event written in a small helper `write_at(file, offset, buf)` is
    judged by where the caller's arguments come from"""
    _, atoms = ctx.du(fn).slice_operand(operand)
    out = set(atoms)
    if not callers or depth > 4:
        return out
    cfn, cbb = callers[-1][0], callers[-1][1]
    ct = cfn.term(cbb)
    if 'args' not in ct:
        return out        # a drop-glue frame
    for a in atoms:
        if a[0] == 'arg' and 1 <= a[1] <= len(ct['args']):
            out |= climb_atoms(ctx, cfn, ct['args'][a[1] - 1], list(callers[:-1]), depth + 1)
    return out
