"""Checker self-test support: apply a patch to a scratch copy of the *current* /repo tree (outside /repo and
/verif, removed afterwards), export facts for the variant and evaluate rules on it.  Nothing here ever
prints a VIOLATION line for the tree under check."""
import os, shutil, subprocess, tempfile, json, sys
from facts import REPO, VERIF, WORK, Facts, load_facts

SCRATCH_BASE = os.environ.get('JAMMVERIF_SCRATCH', '/var/tmp')


def scratch_copy(repo=REPO):
    d = tempfile.mkdtemp(prefix='jammverif.', dir=SCRATCH_BASE)
    for name in ('src', 'Cargo.toml', 'Cargo.lock', 'build.rs'):
        p = os.path.join(repo, name)
        if os.path.isdir(p):
            shutil.copytree(p, os.path.join(d, name))
        elif os.path.exists(p):
            shutil.copy2(p, os.path.join(d, name))
    return d


def apply_patch(d, patch):
    r = subprocess.run(['patch', '-p1', '--no-backup-if-mismatch', '-s', '-f', '-i', os.path.abspath(patch)], cwd=d,
                       capture_output=True, text=True)
    return r.returncode == 0, (r.stdout + r.stderr)[-2000:]


def facts_of_variant(patch, repo=REPO):
    """returns (Facts or None, status) ; status in 'ok' | 'stale-patch' | 'does-not-compile'"""
    d = scratch_copy(repo)
    try:
        okp, msg = apply_patch(d, patch)
        if not okp:
            return None, 'stale-patch', msg
        out = os.path.join(d, 'facts.json')
        r = subprocess.run(['sh', os.path.join(VERIF, 'jammlint', 'run.sh'), d, out], capture_output=True, text=True)
        if r.returncode != 0 or not os.path.exists(out):
            return None, 'does-not-compile', (r.stdout + r.stderr)[-3000:]
        f = load_facts(out)
        f.src_hash = 'variant:' + os.path.basename(patch)
        return f, 'ok', ''
    finally:
        shutil.rmtree(d, ignore_errors=True)


import contextlib


@contextlib.contextmanager
def variant(patch, repo=REPO):
    """context manager: yields (Facts or None, status, message, scratch dir); the scratch copy lives until the block ends"""
    d = scratch_copy(repo)
    try:
        okp, msg = apply_patch(d, patch)
        if not okp:
            yield None, 'stale-patch', msg, d
            return
        out = os.path.join(d, 'facts.json')
        r = subprocess.run(['sh', os.path.join(VERIF, 'jammlint', 'run.sh'), d, out], capture_output=True, text=True)
        if r.returncode != 0 or not os.path.exists(out):
            yield None, 'does-not-compile', (r.stdout + r.stderr)[-3000:], d
            return
        f = load_facts(out)
        f.src_hash = 'variant:' + os.path.basename(patch)
        f.repo_dir = d
        yield f, 'ok', '', d
    finally:
        shutil.rmtree(d, ignore_errors=True)
