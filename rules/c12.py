"""C12 Damage to one header page falls back to the other (clause level)"""
from core import ok, bad, unresolved, floor
from anchors import AnchorError
from facts import callee_of, op_local, op_place, last_seg, strip_generics
from util import calls_to_fn, calls_named, has_field, has_call, stores_to_field, aggregates_of, macro_of
import c02
import commit

ONDISK = ('Page', 'Meta', 'OldMeta', 'BucketMeta')
HANDLE_TYS = ('&page::Page', '&meta::Meta', '&meta::OldMeta', '&mut page::Page', '&mut meta::Meta')
BENIGN_ASSERTS = ('MisalignedPointerDereference', 'NullPointerDereference')
PANIC_FNS = ('core::panicking::', 'std::rt::panic_fmt', 'std::rt::begin_panic', 'std::panicking::begin_panic')


def leaf_fields(facts, adt_name, prefix=''):
    out = []
    for f in facts.adt_fields(adt_name) or []:
        t = f['tree']
        if t.get('k') == 'adt' and t.get('local') and facts.adts.get(t['path']) and facts.adts[t['path']]['kind'] == 'Struct' and not t['args']:
            out += leaf_fields(facts, last_seg(t['path']), prefix + f['name'] + '.')
        else:
            out.append(prefix + f['name'])
    return out


def _is_put_int(c):
    """bytes::BufMut::put_u32 / put_u64 / ... (big-endian), put_*_le / put_*_ne: fixed-width integer writers"""
    import re
    return bool(re.match(r'put_[ui](8|16|32|64|128)(_le|_ne)?$', last_seg(strip_generics(c['path']))))


def checksum_total(ctx, rule='C12.checksum-total'):
    res = []
    F = ctx.facts
    for role, adt, writer_names, valid_role, feeder in (('checksum-role', 'Meta', ('write',), 'valid-role', None),
                                                           ('old-checksum-role', 'OldMeta', ('write', 'write_all', 'put_slice', 'update'), 'old-valid-role', 'old-bytes-role')):
        try:
            cs, vr = ctx.need(role, valid_role)
        except AnchorError as e:
            res.append(unresolved(rule, str(e)))
            continue
        fn = ctx.A.get(feeder) if feeder else cs
        if fn is None:
            res.append(unresolved(rule, feeder))
            continue
        fn = ctx.x(fn)       # a nested `feed(&mut hasher, bytes)` helper is part of the checksum function
        du = ctx.du(fn)
        fed = set()
        nwrites = 0
        for bb in sorted(fn.reachable_blocks()):
            t = fn.term(bb)
            if t['k'] != 'call':
                continue
            c = callee_of(t)
            if not c or not (last_seg(strip_generics(c['path'])) in writer_names or (feeder and _is_put_int(c))):
                continue
            nwrites += 1
            for a in t['args'][1:]:
                _, atoms = du.slice_operand(a)
                for at in atoms:
                    if at[0] == 'field' and at[1] and last_seg(at[1]) in (adt, 'BucketMeta'):
                        fed.add((last_seg(at[1]), at[2]))
        want = leaf_fields(F, adt)
        missing = []
        for lf in want:
            parts = lf.split('.')
            if parts[0] == 'hash':
                continue
            if len(parts) == 1:
                if (adt, parts[0]) not in fed:
                    missing.append(lf)
            else:
                if (adt, parts[0]) not in fed or ('BucketMeta', parts[1]) not in fed:
                    missing.append(lf)
        if missing:
            for m in missing:
                res.append(bad(rule, '%s | field %s not hashed' % (fn.qual, m),
                               'the header checksum computed by %s does not cover field %s.%s: that field can be damaged and the header is still trusted'
                               % (fn.qual, adt, m), where='%s:%d' % (fn.file, fn.line)))
        else:
            res.append(ok(rule, '%s feeds all %d leaf fields of %s except `hash` to the hasher (%d hasher writes)' % (fn.qual, len(want) - 1, adt, nwrites),
                          sites=nwrites))
        f = floor(rule, 'hasher writes in %s' % fn.qual, nwrites, len(want) - 1)
        if f:
            res.append(f)
        # the validity test compares the stored hash with the recomputed one
        dv = ctx.du(vr)
        _, atoms = dv.slice_local(0)
        if has_field(atoms, adt, 'hash') and has_call(atoms, cs.path):
            res.append(ok(rule, '%s compares the stored hash with %s' % (vr.qual, cs.qual), sites=1))
        else:
            res.append(bad(rule, '%s | validity test does not compare hash with checksum' % vr.qual,
                           '%s does not depend on both the stored `hash` field and %s' % (vr.qual, cs.qual), where='%s:%d' % (vr.file, vr.line)))
    return res


def _only_counts(e, depth=0):
    """is the (fully resolved) expression built from constants and element counts (`len()`, `capacity()`, `remaining()`) only?"""
    if depth > 20 or not isinstance(e, tuple):
        return False
    k = e[0]
    if k == 'const':
        return True
    if k == 'call':
        return last_seg(strip_generics(e[1])) in ('len', 'capacity', 'remaining', 'remaining_mut', 'is_empty', 'size_of')
    if k in ('bin',):
        return _only_counts(e[2], depth + 1) and _only_counts(e[3], depth + 1)
    if k == 'un':
        return _only_counts(e[2], depth + 1)
    return False


def _is_panic_call(t):
    c = callee_of(t)
    if not c:
        return False
    p = c['path']
    return any(p.startswith(x) for x in PANIC_FNS)


def _valid_edges(ctx, fn):
    """[(switch_bb, true_target, set(root handle locals validated))] : switches whose discriminant data-depends on a
    validity-role call; the handle is the root of that call's receiver"""
    vr = [ctx.A.get('valid-role'), ctx.A.get('old-valid-role')]
    vpaths = {v.path for v in vr if v is not None}
    du = ctx.du(fn)
    out = []
    for bb in sorted(fn.reachable_blocks()):
        t = fn.term(bb)
        if t['k'] != 'switch':
            continue
        _, atoms = du.slice_operand(t['discr'])
        handles = set()
        for a in atoms:
            if a[0] == 'call' and a[2] in vpaths:
                ct = fn.term(a[1])
                l = op_local(ct['args'][0])
                if l is not None:
                    handles.add(du.root_of(l))
        if handles:
            tg = dict((v, b) for v, b in t['targets'])
            true_t = t['otherwise'] if 0 in tg else None
            if true_t is not None:
                out.append((bb, true_t, handles))
    return out


def _behind_edge(fn, b, edge):
    """every path entry -> b uses edge"""
    return b not in fn.reach_from([0], avoid_edges={edge})


def _validated_at(fn, b, vedges):
    """handles whose validity test has succeeded on EVERY path to block b.  A compiled `match (valid1, valid2)` tests the same bit in several
    switch blocks (one per branch of the decision tree), so the success edges are grouped per handle: b is behind the group when it is unreachable
    once all of them are cut."""
    groups = {}
    for (vb, vt, hs) in vedges:
        for h in hs:
            groups.setdefault(h, set()).add((vb, vt))
    out = set()
    for h, edges in groups.items():
        if b not in fn.reach_from([0], avoid_edges=edges):
            out.add(h)
    return out


def validate_before_trust(ctx, rule='C12.validate-before-trust'):
    res = []
    try:
        (hdr,) = ctx.need('DBInner::meta')
        ctx.need('valid-role', 'old-valid-role')
    except AnchorError as e:
        return [unresolved(rule, str(e))]
    F = ctx.facts
    fns = sorted(F.reachable_fns([hdr]), key=lambda f: f.path)
    npanic = 0
    ntainted = 0
    for fn in fns:
        du = ctx.du(fn)
        vedges = _valid_edges(ctx, fn)
        for bb in sorted(fn.reachable_blocks()):
            t = fn.term(bb)
            is_panic = False
            what = None
            if t['k'] == 'assert' and t['msg'] not in BENIGN_ASSERTS:
                is_panic, what = True, 'assert(%s)' % t['msg']
            elif t['k'] == 'call' and _is_panic_call(t):
                is_panic, what = True, 'panic'
            if not is_panic:
                continue
            npanic += 1
            # conditions the panic depends on: its own assert condition + transitive control dependence
            conds = []
            if t['k'] == 'assert':
                conds.append((bb, t['cond']))
            for (a, s) in fn.control_deps_transitive(bb):
                at = fn.term(a)
                if at['k'] == 'switch':
                    conds.append((a, at['discr']))
                elif at['k'] == 'assert':
                    conds.append((a, at['cond']))
            # every branch that influences this panic and reads header bytes must itself sit behind the successful
            # validity test of the header(s) it reads
            offending = []
            tainted_any = False
            for cb, op in conds:
                locs, atoms = du.slice_operand(op)
                fields = {(last_seg(a[1]), a[2]) for a in atoms if a[0] == 'field' and a[1] and last_seg(a[1]) in ONDISK}
                if not fields:
                    continue
                if _only_counts(du.sym(op)):
                    continue      # `buf.len() == 68`: the length of a buffer the fields were written into does not depend on their values
                tainted_any = True
                handles = {du.root_of(a[3]) for a in atoms if a[0] == 'load' and a[1] and last_seg(a[1]) in ONDISK}
                validated = _validated_at(fn, cb, vedges)
                if not handles or not handles <= validated:
                    offending.append((cb, fields))
            if not tainted_any:
                continue
            ntainted += 1
            if offending:
                cb, fields = offending[0]
                res.append(bad(rule, '%s | %s on unvalidated header bytes (%s)' % (fn.qual, what, ','.join(sorted('%s.%s' % f for f in fields))),
                               '%s at %s in %s (reached from header selection) is controlled by a branch at %s on header bytes %s that have not passed the '
                               'checksum test for that header: damage to one header page makes open panic instead of falling back to the other'
                               % (what, fn.loc(bb), fn.qual, fn.loc(cb), sorted('%s.%s' % f for f in fields)), where=fn.loc(cb)))
            else:
                res.append(ok(rule, '%s at %s depends on header fields only behind a successful validation of the same header' % (what, fn.loc(bb)), sites=1))
    ctx.stats['header_trace_fns'] = len(fns)
    ctx.stats['header_trace_panic_sites'] = npanic
    f = floor(rule, 'panic sites in the header-selection trace', npanic, 3)
    if f:
        res.append(f)
    if not any(not r.ok for r in res):
        res.append(ok(rule, '%d panic sites in %d functions of the header-selection trace; %d depend on header bytes, all behind validation' % (npanic, len(fns), ntainted), sites=npanic))
    return res


def selection_always_validates(ctx, rule='C12.selection-validates'):
    """the functions that hold the validity tests of header selection are never called in a mode that switches the tests off: with the constant arguments of every call site
    propagated into the callee (`read_meta(false)`), each call of the checksum test stays reachable.  A "the headers were checked at open" fast path trusts a header that was
    found damaged at open and is still in the file"""
    from reach import pruned_blocks, const_args
    res = []
    F = ctx.facts
    try:
        vr, ovr = ctx.need('valid-role', 'old-valid-role')
    except AnchorError as e:
        return [unresolved(rule, str(e))]
    holders = [f for f in F.fns if f.kind != 'Closure' and (calls_to_fn(F, f, vr) or calls_to_fn(F, f, ovr)) and 'meta::Meta' in f.locals[0]['ty']]
    f0 = floor(rule, 'functions holding the validity tests of header selection', len(holders), 1)
    if f0:
        return [f0]
    n = 0
    for h in holders:
        tests = {bb for bb, t, c in calls_to_fn(F, h, vr) + calls_to_fn(F, h, ovr)}
        for caller in F.fns:
            for bb, t, c in calls_to_fn(F, caller, h):
                n += 1
                consts = const_args(h, t, caller)
                if not consts:
                    continue
                live = pruned_blocks(h, consts, F)
                gone = sorted(tests - set(live))
                if gone:
                    res.append(bad(rule, '%s | calls %s with the validity tests switched off' % (caller.qual, h.qual),
                                   '%s calls %s at %s with constant arguments %s under which the checksum test at %s is unreachable: the header it returns has not been validated'
                                   % (caller.qual, h.qual, caller.loc(bb), {h.local_name(k): v for k, v in consts.items()}, h.loc(gone[0])), where=caller.loc(bb)))
    if not any(not r.ok for r in res):
        res.append(ok(rule, 'no call of %s switches the validity tests off (%d call sites)' % (', '.join(h.qual for h in holders), n), sites=max(n, 1)))
    return res


def header_views_confined(ctx, rule='C12.header-views-confined'):
    """the bytes of a header page are looked at as a header struct only by header selection (which validates them) and by the code that BUILDS header images (creation,
    commit): any other reader -- a sanity assertion in begin that peeks at the "other" header, a statistics function -- reads a page that may be torn or damaged, and acts on
    what it finds there"""
    res = []
    F = ctx.facts
    try:
        (hdr,) = ctx.need('DBInner::meta')
    except AnchorError as e:
        return [unresolved(rule, str(e))]
    views = [g for g in F.fns if g.self_adt and last_seg(g.self_adt) == 'Page' and g.kind != 'Closure' and
             any(t in g.locals[0]['ty'] for t in ('meta::Meta', 'meta::OldMeta')) and g.locals[0]['ty'].startswith('&')]
    f0 = floor(rule, 'accessors that view a page as a header struct', len(views), 2)
    if f0:
        return [f0]
    import c02, c03
    builders = set(c02.image_builders(ctx))
    init = ctx.A.get('init_file')
    allowed = {hdr} | set(getattr(ctx.A, 'hdr_helpers', ())) | builders | ({init} if init is not None else set())
    allowed |= {g for g in F.reachable_fns([hdr]) if g is not hdr and c03._only_via(F, g, hdr)}
    if init is not None:
        allowed |= {g for g in F.reachable_fns([init]) if g is not init and c03._only_via(F, g, init)}
    # (judged on the paths of transactions: begin, commit, open, destructors; a diagnostic dump of raw headers is nobody's snapshot)
    roots = [x for x in (ctx.A.get('begin-role'), ctx.A.get('Tx::commit'), ctx.A.get('OpenOptions::open'), F.fn('DB::tx')) if x is not None]
    roots += [g for g in F.fns if g.trait and g.trait.endswith('Drop') and g.name == 'drop']
    on_path = set()
    for r in roots:
        on_path |= set(F.reachable_fns([r]))
    n = 0
    for fn in sorted(F.fns, key=lambda g: g.path):
        owner = (fn.owner or fn) if fn.kind == 'Closure' else fn
        if owner not in on_path:
            continue
        for v in views:
            for bb, t, c in calls_to_fn(F, fn, v):
                n += 1
                if owner in allowed or owner in views:
                    continue
                res.append(bad(rule, '%s | reads a header page outside header selection (%s)' % (fn.qual, v.qual),
                               '%s views a page as a header through %s at %s without being the validating selection or a builder of header images: the page it looks at may be the '
                               'damaged or half-written one, and whatever it decides (an assertion, a comparison of transaction ids) is decided on unvalidated bytes' % (fn.qual, v.qual, fn.loc(bb)),
                               where=fn.loc(bb)))
    # ... nor is a header PAGE looked at as a plain page (its page-header fields are not covered by the checksum): no page view whose id is the slot number
    mv = ctx.A.get('map-view')
    import c16
    for fn in sorted(F.fns, key=lambda g: g.path):
        owner = (fn.owner or fn) if fn.kind == 'Closure' else fn
        if owner not in on_path or owner in allowed:
            continue
        du = None
        for bb in sorted(fn.reachable_blocks()):
            t = fn.term(bb)
            c = callee_of(t) if t['k'] == 'call' else None
            if not c or len(t['args']) < 2:
                continue
            tgt = F.by_path.get((c.get('resolved') or {}).get('path') or c['path'])
            if tgt is None or not (tgt is mv or (tgt.self_adt and last_seg(tgt.self_adt) == 'Page' and tgt.name == 'from_buf')):
                continue
            du = du or ctx.du(fn)
            e = du.sym(t['args'][1])
            if c16._tree_has(e, lambda x: x[0] == 'field' and x[2] and x[2][-1] == 'meta_page'):
                n += 1
                res.append(bad(rule, '%s | views a header page as a plain page' % fn.qual,
                               '%s looks at the page whose id is the header slot number (%s at %s): the page-header fields of a header page (count, overflow ...) are not covered '
                               'by the checksum, so a value kept there is trusted although a single changed byte leaves the header "valid"' % (fn.qual, c16._fmt(e)[:50], fn.loc(bb)),
                               where=fn.loc(bb)))
    if not any(not r.ok for r in res):
        res.append(ok(rule, 'header structs are viewed at %d sites, all in header selection, creation and the commit\'s image builder' % n, sites=n))
    return res


def select_total(ctx, rule='C12.select-total'):
    """a header is returned only where its own validity test succeeded; each validated header is returned on some path;
    when both are valid the transaction ids are compared"""
    res = []
    try:
        (hdr,) = ctx.need('DBInner::meta')
        vr, ovr = ctx.need('valid-role', 'old-valid-role')
    except AnchorError as e:
        return [unresolved(rule, str(e))]
    fn = ctx.x(hdr)        # with private helpers folded in (`meta_in(&map, pagesize)`)
    du = ctx.du(fn)
    vedges = _valid_edges(ctx, fn)
    vcalls = calls_to_fn(ctx.facts, fn, vr)
    ocalls = calls_to_fn(ctx.facts, fn, ovr)
    f = floor(rule, 'validity tests of the current header format in header selection', len(vcalls), 2) or \
        floor(rule, 'validity tests of the legacy header format in header selection', len(ocalls), 2)
    if f:
        res.append(f)
    handles = set()
    for bb, t, c in vcalls + ocalls:
        l = op_local(t['args'][0])
        if l is not None:
            handles.add(du.root_of(l))
    returned = set()
    unconditional = set()
    id_tests = None
    # selections: `Some(handle)` aggregates
    nsel = 0
    for bb in sorted(fn.reachable_blocks()):
        for si, s in enumerate(fn.blocks[bb]['stmts']):
            if s['k'] != 'assign' or s['rv']['k'] != 'agg' or s['rv'].get('ak') != 'adt':
                continue
            if s['rv']['adt'] != 'std::option::Option' or s['rv']['variant'] != 'Some' or not s['rv']['ops']:
                continue
            l = op_local(s['rv']['ops'][0])
            if l is None or fn.locals[l]['ty'] not in HANDLE_TYS:
                continue
            hs_sel = du.roots_of(l)
            nsel += 1
            returned |= hs_sel
            # is this selection unconditional with respect to the transaction ids?  (needed below: a header that is the only valid one must be selected
            # whatever the ids say)
            if id_tests is None:
                id_tests = set()
                for a in fn.reachable_blocks():
                    at = fn.term(a)
                    if at['k'] != 'switch':
                        continue
                    _, da = du.slice_operand(at['discr'])
                    if (has_field(da, 'Meta', 'tx_id') or has_field(da, 'OldMeta', 'tx_id')) and any(x[0] == 'bin' and x[1] in ('Gt', 'Lt', 'Ge', 'Le') for x in da):
                        id_tests.add(a)
            # reachable on some path that performs no transaction-id comparison (an or-pattern arm can be entered both ways)
            if bb in fn.reach_from([0], avoid=id_tests):
                unconditional |= hs_sel
            validated = _validated_at(fn, bb, vedges)
            if hs_sel <= validated:
                res.append(ok(rule, 'header selected at %s only behind its own successful validity test' % fn.loc(bb, si), sites=1))
            else:
                res.append(bad(rule, '%s | header selected without its own validation' % fn.qual,
                               'header selection returns a header at %s on a path where the validity test of THAT header has not succeeded' % fn.loc(bb, si),
                               where=fn.loc(bb, si)))
    for h in handles - returned:
        res.append(bad(rule, '%s | a validated header is never selected' % fn.qual,
                       'one of the two headers is validated but never returned: when only that header is intact, open cannot fall back to it',
                       where='%s:%d' % (fn.file, fn.line)))
    for h in (handles & returned) - unconditional:
        res.append(bad(rule, '%s | a header is selected only under a transaction-id comparison' % fn.qual,
                       'one of the headers is returned only on paths that compare transaction ids: when it is the only valid header (the other one is damaged but still carries a '
                       'higher id) it is not selected, and open / the commit error path finds no valid header', where='%s:%d' % (fn.file, fn.line)))
    f = floor(rule, 'header selections (Some(header))', nsel, 4)
    if f:
        res.append(f)
    # both valid: tx ids of two different headers are compared
    cmp_ok = 0
    for bb in sorted(fn.reachable_blocks()):
        for si, s in enumerate(fn.blocks[bb]['stmts']):
            if s['k'] == 'assign' and s['rv']['k'] == 'bin' and s['rv']['op'] in ('Gt', 'Lt', 'Ge', 'Le'):
                la, aa = du.slice_operand(s['rv']['a'])
                lb, ab = du.slice_operand(s['rv']['b'])
                if (has_field(aa, 'Meta', 'tx_id') or has_field(aa, 'OldMeta', 'tx_id')) and (has_field(ab, 'Meta', 'tx_id') or has_field(ab, 'OldMeta', 'tx_id')):
                    ha = {du.root_of(l) for l in la if fn.locals[l]['ty'] in HANDLE_TYS}
                    hb = {du.root_of(l) for l in lb if fn.locals[l]['ty'] in HANDLE_TYS}
                    if ha and hb and ha != hb:
                        cmp_ok += 1
    if cmp_ok >= 2:
        res.append(ok(rule, 'when both headers are valid their transaction ids are compared (%d comparisons)' % cmp_ok, sites=cmp_ok))
    else:
        res.append(bad(rule, '%s | tx ids of the two headers not compared' % fn.qual,
                       'header selection does not compare the transaction ids of the two headers for both formats (found %d comparison(s)): '
                       'with both headers valid the older one could be chosen' % cmp_ok, where='%s:%d' % (fn.file, fn.line)))
    return res


def kind_exact(ctx, rule='C12.kind-exact'):
    """the checksum does not cover the page-kind byte, so the kind test in header selection is the only thing that notices damage to it: it must compare
    the whole byte for equality with the header kind; a mask / range test lets damaged values through"""
    import c16
    res = []
    try:
        (hdr,) = ctx.need('DBInner::meta')
    except AnchorError as e:
        return [unresolved(rule, str(e))]
    X = ctx.x(hdr)
    du = ctx.du(X)
    want = ctx.facts.const_val('Page::TYPE_META')
    n = 0
    for bb in sorted(X.reachable_blocks()):
        for si, st in enumerate(X.blocks[bb]['stmts']):
            if st['k'] != 'assign' or st['rv']['k'] != 'bin':
                continue
            e = du.sym_local(st['p']['l']) if False else ('bin', st['rv']['op'], du.sym(st['rv']['a']), du.sym(st['rv']['b']))
            kind_ops = [x for x in (e[2], e[3]) if c16._tree_has(x, lambda y: y[0] == 'field' and y[2] and y[2][-1] == 'page_type')]
            if not kind_ops:
                continue
            n += 1
            op = e[1]
            direct = [x for x in (e[2], e[3]) if x[0] == 'field' and x[2] and x[2][-1] == 'page_type']
            consts = [x[1] for x in (e[2], e[3]) if x[0] == 'const']
            if op in ('Eq', 'Ne') and direct and (want is None or consts == [want] or not consts):
                res.append(ok(rule, 'page kind compared for equality at %s' % X.loc(bb, si), sites=1))
            else:
                res.append(bad(rule, '%s | page kind not tested by exact comparison (%s)' % (hdr.qual, op),
                               'header selection tests the page-kind byte at %s with `%s` (%s) instead of comparing the whole byte with the header kind: a damaged kind byte '
                               'that keeps the tested bits is accepted, and the damaged header is trusted' % (X.loc(bb, si), op, c16._fmt(e)[:100]), where=X.loc(bb, si)))
    f = floor(rule, 'tests of the page-kind byte in header selection', n, 2)
    if f:
        res.append(f)
    return res


def seal_last(ctx, rule='C12.seal-last'):
    """wherever a header image is sealed (hash := checksum-role(image)), no other field of that image is stored afterwards"""
    res = []
    try:
        (cs,) = ctx.need('checksum-role')
    except AnchorError as e:
        return [unresolved(rule, str(e))]
    F = ctx.facts
    n = 0
    for fn in F.fns:
        seals = stores_to_field(fn, 'Meta', 'hash')
        du = None
        for bb, si, s in seals:
            du = du or ctx.du(fn)
            if s['rv']['k'] != 'use':
                continue
            _, atoms = du.slice_operand(s['rv']['op'])
            if not has_call(atoms, cs.path):
                continue
            n += 1
            # stores into other Meta fields after the seal that are not followed by a new seal on every path
            late = []
            after = fn.reach_from(fn.succ(bb))
            for fld in [f['name'] for f in F.adt_fields('Meta')]:
                if fld == 'hash':
                    continue
                for b2, s2, st in stores_to_field(fn, 'Meta', fld):
                    if ((b2 in after) or (b2 == bb and s2 > si)) and not _resealed(fn, b2, s2, seals):
                        late.append((fld, b2, s2))
            if late:
                fld, b2, s2 = late[0]
                res.append(bad(rule, '%s | Meta.%s stored after the checksum' % (fn.qual, fld),
                               '%s stores Meta.%s at %s after the image was sealed at %s: the stored checksum no longer matches the header, '
                               'which is then invalid from the start' % (fn.qual, fld, fn.loc(b2, s2), fn.loc(bb, si)), where=fn.loc(b2, s2)))
            else:
                res.append(ok(rule, 'header image sealed at %s after all other fields were stored' % fn.loc(bb, si), sites=1))
    f = floor(rule, 'header images sealed with the checksum', n, 3)
    if f:
        res.append(f)
    return res


def _resealed(fn, b2, s2, seals):
    """is the store at (b2,s2) followed on every path to an exit by a (new) seal?"""
    if any(bb == b2 and si > s2 for bb, si, s in seals):
        return True
    seal_blocks = {bb for bb, si, s in seals if bb != b2}
    reach = fn.reach_from(fn.succ(b2), avoid=seal_blocks)
    if not fn.succ(b2):
        return False
    return not any(not fn.succ(x) for x in reach)


def _subst(e, args):
    if not isinstance(e, tuple):
        return e
    if e[0] == 'arg' and 1 <= e[1] <= len(args):
        return args[e[1] - 1]
    return tuple(_subst(x, args) if isinstance(x, tuple) else ([_subst(y, args) for y in x] if isinstance(x, list) else x) for x in e)


def _buffer_len(e, depth=0, ctx=None):
    """length expression of a byte buffer given the expression tree of the slice handed to write: vec![x; N].as_slice() -> N; None if it cannot be told"""
    if depth > 8 or not isinstance(e, tuple):
        return None
    # the buffer comes out of a crate-local helper (`build_header(..).1`): look at what the helper returns, with its parameters replaced by the arguments
    if ctx is not None:
        call, fields = (e[1], e[2]) if e[0] == 'field' and isinstance(e[1], tuple) and e[1][0] == 'call' else ((e, ()) if e[0] == 'call' else (None, ()))
        g = ctx.facts.by_path.get(call[1]) if call else None
        if g is not None:
            pr = [{'k': 'field', 'i': int(f), 'name': int(f)} if str(f).isdigit() else {'k': 'field', 'name': f} for f in fields]
            inner = ctx.du(g).sym_place({'l': 0, 'pr': pr})
            return _buffer_len(_subst(inner, call[2]), depth + 1, ctx)
    if e[0] == 'call':
        nm = last_seg(strip_generics(e[1]))
        if nm == 'from_elem' and len(e[2]) == 2:
            return e[2][1]
        if nm in ('as_slice', 'as_mut_slice', 'deref', 'deref_mut', 'as_ref', 'as_mut', 'borrow', 'borrow_mut', 'into_boxed_slice', 'to_vec', 'clone') and e[2]:
            return _buffer_len(e[2][0], depth + 1, ctx)
    if e[0] == 'ref' and len(e) > 1:
        return _buffer_len(e[1], depth + 1, ctx)
    return None


def header_extent(ctx, rule='C12.header-extent'):
    """the header write covers exactly one page: the two header pages are adjacent, so a longer write reaches into the other header (or the first data page) and a
    torn one damages both; the length of the written buffer must be the page size itself"""
    res = []
    T = commit.commit_trace(ctx)
    H = [e for e in T.events('W') if e.get('sub') == 'H' and not e.get('summary')]
    if not H:
        return [floor(rule, 'header writes in the commit trace', 0, 1)]
    import c16
    for h in H:
        n = T.nodes[h['node']]
        fn = n.fn
        t = fn.term(n.bb)
        e = ctx.du(fn).sym(t['args'][1]) if len(t['args']) > 1 else ('?',)
        ln = _buffer_len(e, ctx=ctx)
        # (`usize::try_from(pagesize).expect(..)`, `pagesize as usize`, `.into()`: the same number)
        for _ in range(6):
            if ln is not None and ln[0] == 'call' and ln[2] and last_seg(strip_generics(ln[1])) in ('expect', 'unwrap', 'try_from', 'try_into', 'from', 'into', 'unwrap_or_default'):
                ln = ln[2][0]
            elif ln is not None and ln[0] == 'un' and ln[1] in ('cast', 'Cast'):
                ln = ln[2]
            else:
                break
        if ln is None:
            res.append(unresolved(rule, 'length of the header buffer written at %s (%s)' % (fn.loc(n.bb), c16._fmt(e)[:120])))
            continue
        is_ps = (ln[0] == 'field' and ln[2] and ln[2][-1] == 'pagesize') or (ln[0] == 'arg' and fn.local_name(ln[1]) in ('pagesize', 'page_size'))
        if is_ps:
            res.append(ok(rule, 'the header buffer written at %s is exactly one page long (%s)' % (fn.loc(n.bb), c16._fmt(ln)), sites=1))
        else:
            res.append(bad(rule, '%s | header write is not one page long' % fn.qual,
                           'the buffer written as the header at %s has length `%s`, not the page size: for a page size it does not equal, the write runs past the header page into '
                           'its neighbour -- the other header -- so one commit can damage both' % (fn.loc(n.bb), c16._fmt(ln)[:160]), where=fn.loc(n.bb)))
    return res


def run(ctx, tier):
    results = []
    results += checksum_total(ctx)
    results += validate_before_trust(ctx)
    results += select_total(ctx)
    results += selection_always_validates(ctx)
    results += header_views_confined(ctx)
    import c05
    results += c05.no_narrowing(ctx, rule='C12.no-narrowing')
    results += seal_last(ctx)
    results += kind_exact(ctx)
    results += header_extent(ctx)
    import c15
    results += c15.legacy_fallback(ctx, rule='C12.legacy-conversion')
    results += c02.alternate_rule(ctx, rule='C12.alternate')
    results += commit.obligations(ctx)['O0']
    from core import renamed
    results += renamed(c02.cow_write_set(ctx), 'C02', 'C12')
    results += c02.cow_free_set(ctx, rule='C12.fallback-kept')
    results += c02.pending_key(ctx, rule='C12.fallback-kept.key')
    import c06
    results += c06.open_existing(ctx, rule='C12.open-existing')
    # a refusal added to open in front of header selection looks at one header before the other has had its chance
    results += c15.open_refusals(ctx, rule='C12.open-refusals')
    results += c06.shared_freelist(ctx, rule='C12.shared-freelist')
    import c03
    results += c03.release_sites(ctx, rule='C12.release-site')
    return dict(
        results=results, stats=dict(ctx.stats),
        explanation=(
            'Decides the structural clauses that make fallback possible: (checksum-total) every header field except the stored hash is fed to the hasher, for '
            'the current and the legacy format, and validity compares stored and recomputed hash; (validate-before-trust) in the header-selection trace no '
            'panic/assert depends on header bytes that have not passed the checksum test of the same header; (select-total) a header is returned only behind '
            'its own validity test, each of the two headers can be returned, and two valid headers are compared by transaction id; (seal-last) header images '
            'are sealed after all fields are stored; (alternate) commits alternate between the two header slots, so the other header is always the previous commit; (fallback-kept) pages of the previous snapshot are filed as pending, never as free; (open-existing) open writes only into files it has just created, so an intact header is never overwritten on open; (header-extent) the header write is exactly one page long, so it cannot reach the other header. (O0) every successful return of commit passes a header write; (cow.write-set) data pages go only to pages the transaction allocated. (selection-validates) no call site switches the validity tests off through a constant argument; (open-refusals) refusal sites on the open path do not grow. (header-views-confined) pages are viewed as header structs only by selection, creation and the image builder. NOT decided: '
            'collision resistance of the checksum, behaviour of the rest of open on the fallback snapshot.'),
        assumptions=['damage is confined to one header page', 'FNV-1a / SHA3 detect the damage (no collision)'])
