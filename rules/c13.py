"""C13 Only one process at a time has the database open (in-process half: where the lock is taken and how long it lives)"""
from core import ok, bad, unresolved, floor
from anchors import AnchorError
from facts import callee_of, op_local, op_place, last_seg, strip_generics
from flow import Prov, result_switch
from util import calls_named, aggregates_of

FORBIDDEN = ('FileExt::unlock', 'File::try_clone', 'IntoRawFd::into_raw_fd', 'FromRawFd::from_raw_fd', 'File::unlock', 'FileExt::unlock_async')


def _moved_into_dbinner(ctx, fn, root):
    """is local `root` (a File) passed by value to a local function that stores that parameter in DBInner.file?"""
    F = ctx.facts
    du = ctx.du(fn)
    for bb, t, target, c in F.call_sites(fn):
        if target is None:
            continue
        for i, a in enumerate(t['args']):
            l = op_local(a)
            if l is None or a['k'] != 'move' or du.root_of(l, through_calls=False) != root:
                continue
            dg = ctx.du(target)
            for b2, si, s in aggregates_of(target, 'DBInner'):
                for nme, o in zip(s['rv']['fields'], s['rv']['ops']):
                    if nme == 'file' and op_local(o) is not None:
                        locs, _ = dg.slice_local(op_local(o))
                        if (i + 1) in locs:
                            return True
    return False


def _derives_from_metadata(ctx, fn, operand, callers, depth=0):
    """does the operand data-depend on File::metadata / Metadata::len, looking through the parameters of the functions on the trace context?"""
    du = ctx.du(fn)
    _, atoms = du.slice_operand(operand)
    if any(a[0] == 'call' and a[2] in ('std::fs::File::metadata', 'std::fs::Metadata::len') for a in atoms):
        return True
    if not callers or depth > 4:
        return False
    cfn, cbb = callers[-1][0], callers[-1][1]
    ct = cfn.term(cbb)
    for a in atoms:
        if a[0] == 'arg' and a[1] - 1 < len(ct['args']):
            if _derives_from_metadata(ctx, cfn, ct['args'][a[1] - 1], callers[:-1], depth + 1):
                return True
    return False


def _strip_wraps(s):
    """the value inside constructor-like wrappers and borrows: Mutex::new(x), Arc::new(x), &x, *x"""
    while True:
        if s[0] == 'call' and len(s[2]) == 1 and last_seg(strip_generics(s[1])) in ('new', 'from', 'into'):
            s = s[2][0]
        elif s[0] == 'un' and s[1] in ('ref', 'deref', 'copy', 'move'):
            s = s[2]
        elif s[0] in ('ref', 'deref') and len(s) == 2:
            s = s[1]
        else:
            return s


def _short(s):
    return 'chosen between several values' if s[0] == 'phi' else 'the result of %s' % last_seg(strip_generics(s[1])) if s[0] == 'call' else str(s)[:60]


def run(ctx, tier):
    results = []
    F = ctx.facts
    try:
        op, dbopen = ctx.need('OpenOptions::open', 'DBInner::open')
    except AnchorError as e:
        results.append(unresolved('C13.lock-before-use', str(e)))
        return dict(results=results, stats={}, explanation='anchor unresolved', assumptions=[])
    T = ctx.trace(op)
    Ls = [e for e in T.events('L') if not e.get('summary')]
    good = [e for e in Ls if e.get('method') == 'lock_exclusive' and 'ok_node' in e]
    rule = 'C13.lock-before-use'
    if not Ls:
        results.append(bad(rule, '%s | no advisory lock taken' % op.qual, 'opening a database never takes the exclusive advisory file lock: two processes can be inside the same file',
                           where='%s:%d' % (op.file, op.line)))
    for e in Ls:
        if e.get('method') != 'lock_exclusive':
            results.append(bad(rule, '%s | %s instead of a blocking exclusive lock' % (e['fn'], e.get('method')),
                               'the file lock at %s is taken with `%s`: only the blocking exclusive lock makes a second opener wait' % (e['loc'], e.get('method')), where=e['loc']))
        elif 'ok_node' not in e:
            results.append(bad(rule, '%s | result of lock_exclusive ignored' % e['fn'], 'the result of lock_exclusive at %s is not checked: a failed lock would be treated as held' % e['loc'], where=e['loc']))
    start = {T.nodes[0].id}
    okn = {e['ok_node'] for e in good}
    reach_wo = T.reach(start, avoid=okn) if okn else T.reach(start)
    uses = [e for e in T.events('MAP', 'HDR') if not e.get('summary')]
    f = floor(rule, 'map creations and header reads in the open trace', len(uses), 2)
    if f:
        results.append(f)
    for u in uses:
        if u['node'] in reach_wo:
            p = T.path(start, u['node'], avoid=okn)
            results.append(bad(rule, '%s | %s before the lock' % (op.qual, u['ev']),
                               'the %s at %s can be reached without having acquired the exclusive file lock: a second process could map / read the file while the first is inside'
                               % ('memory map' if u['ev'] == 'MAP' else 'header read', u['loc']), where=u['loc'], path=T.describe_path(p or [])))
        else:
            results.append(ok(rule, '%s at %s is dominated by a successful lock_exclusive' % (u['ev'], u['loc']), sites=1))
    # ---- lock-before-write
    rule = 'C13.lock-before-write'
    Ws = [e for e in T.events('W', 'G') if not e.get('summary')]
    f = floor(rule, 'file writes / growth in the open trace', len(Ws), 2)
    if f:
        results.append(f)
    import c06
    nth = {}
    for w in sorted(Ws, key=lambda e: e['loc']):
        if w['node'] in reach_wo:
            p = T.path(start, w['node'], avoid=okn)
            # how was the file obtained?  (exclusive creation makes the early write harmless to an existing database)
            n = T.nodes[w['node']]
            excl = bool(c06.created_exclusively(ctx, n.fn, n.fn.term(n.bb)['args'][0], list(n.ctx)))
            how = '' if excl else ' on a file not created exclusively'
            # (the key names the kind of operation, not the callee: `write_all` rewritten as a loop over `write` is the same finding)
            nth[(w['ev'], how)] = nth.get((w['ev'], how), 0) + 1
            k = nth[(w['ev'], how)]
            results.append(bad(rule, '%s | %s before the lock%s%s' % (op.qual, w['ev'], how, '' if k == 1 else ' (#%d)' % k),
                               'the file %s at %s (creation branch of open) happens before the exclusive file lock is taken: a second process that finds the path existing locks first '
                               'and maps a short or uninitialised file' % ('growth' if w['ev'] == 'G' else 'write', w['loc']), where=w['loc'], path=T.describe_path(p or [])))
        else:
            results.append(ok(rule, '%s at %s is dominated by a successful lock_exclusive' % (w['ev'], w['loc']), sites=1))
    # once the image is on disk the file is a valid database that another process may lock and enter: the unlocked creator must not touch it again
    pre = [w for w in Ws if w['node'] in reach_wo]
    late = []
    for w in pre:
        if w['ev'] != 'W':
            continue
        after = T.reach({w['node']}, avoid=okn)
        for g in pre:
            if g['ev'] == 'G' and g['node'] in after and g['node'] != w['node'] and w['node'] not in T.reach({g['node']}, avoid=okn):
                late.append((w, g))
    for w, g in late[:1]:
        results.append(bad(rule, '%s | G after the image is written, before the lock' % op.qual,
                           'the creation branch of open sizes the file at %s after it has written the initial pages at %s and before it holds the lock: in between the file is a valid '
                           'database that a second process can lock, map and commit into; the creator then changes its length underneath that process' % (g['loc'], w['loc']), where=g['loc']))
    if pre and not late:
        results.append(ok(rule, 'no growth of the new file follows its image write before the lock', sites=len(pre)))
    results += c06.open_existing(ctx, rule='C13.open-existing')
    # the opener that waited gets in: open refuses nothing the pinned tree does not refuse (a file length that is no multiple of the page size ...)
    import c15
    results += c15.open_refusals(ctx, rule='C13.open-refusals')
    # ---- observe-after-lock: what open learns about the file (its length, its bytes) must be learnt while the lock is held
    rule = 'C13.observe-after-lock'
    Os = [e for e in T.events('O') if not e.get('summary')]
    for o in Os:
        if o['node'] in reach_wo:
            p = T.path(start, o['node'], avoid=okn)
            results.append(bad(rule, '%s | %s before the lock' % (op.qual, last_seg(o['callee'])),
                               'open reads the state of the file (%s at %s) before it holds the exclusive lock: the process that holds the database can still grow or rewrite the file, '
                               'so what was read is stale by the time the lock is granted' % (o['callee'], o['loc']), where=o['loc'], path=T.describe_path(p or [])))
        else:
            results.append(ok(rule, '%s at %s happens under the lock' % (o['callee'], o['loc']), sites=1))
    # an explicit map length must come from such an observation (the default -- memmap2 stats the file at map time -- is fresh by construction)
    nlen = 0
    for n in T.nodes:
        if n.bb is None or n.virt:
            continue
        t = n.fn.term(n.bb)
        c = callee_of(t) if t['k'] == 'call' else None
        if not c or strip_generics(c['path']) not in ('memmap2::MmapOptions::len', 'memmap2::MmapOptions::offset'):
            continue
        nlen += 1
        fresh = _derives_from_metadata(ctx, n.fn, t['args'][-1], list(n.ctx))
        if not fresh or any(o['node'] in reach_wo for o in Os):
            results.append(bad(rule, '%s | map length not read under the lock' % n.fn.qual,
                               'the memory map created while opening gets an explicit %s at %s that is not read from the file after the lock was acquired (a value computed earlier, '
                               'or from the options): if another process grew the file meanwhile, the map is too short' % (last_seg(c['path']), n.loc()), where=n.loc()))
    if not any(not r.ok for r in results if r.rule == rule):
        results.append(ok(rule, 'open observes the file only under the lock (%d observations) and passes no explicit length to the map (%d)' % (len(Os), nlen), sites=len(Os) + 1))
    # ---- lock-lives
    rule = 'C13.lock-lives'
    # judged inside DBInner::open with its private helpers folded in (lock_file(..), from_parts(..) ...)
    XO = ctx.x(dbopen)
    xsites = [(XO, bb) for bb, t, c in calls_named(F, XO, 'FileExt::lock_exclusive', 'File::lock')]
    lock_sites = xsites if xsites else [(T.nodes[e['node']].fn, T.nodes[e['node']].bb) for e in good]
    loc_of = {}
    for e, (fn, lbb) in zip(good + good, lock_sites):
        loc_of[(id(fn), lbb)] = fn.loc(lbb)
    for (fn, lbb) in lock_sites:
        e = dict(loc=fn.loc(lbb))
        du = ctx.du(fn)
        t = fn.term(lbb)
        l = op_local(t['args'][0])
        root = du.root_of(l) if l is not None else None
        kept = set()
        for bb, si, s in aggregates_of(fn, 'DBInner'):
            for nme, o in zip(s['rv']['fields'], s['rv']['ops']):
                if nme == 'file' and op_local(o) is not None:
                    locs, _ = du.slice_local(op_local(o))
                    kept |= locs
        # ... and it is the only value that can be stored there: `if direct { reopen(path)? } else { file }` keeps the lock on a handle that is dropped
        other = []
        if root is not None and root in kept:
            recv = _strip_wraps(du.sym(t['args'][0]))
            for bb, si, s in aggregates_of(fn, 'DBInner'):
                for nme, o in zip(s['rv']['fields'], s['rv']['ops']):
                    if nme == 'file':
                        st = _strip_wraps(du.sym(o))
                        if st != recv and st[0] in ('phi', 'call'):
                            other.append((st, fn.loc(bb)))
        if other:
            results.append(bad(rule, '%s | DBInner.file may hold another File than the locked one' % fn.qual,
                               'the File stored in DBInner.file at %s is not always the one on which lock_exclusive was called at %s (it is %s): on that path the lock lives on a handle '
                               'that is dropped when open returns, and later remaps through the stored handle release it' % (other[0][1], e['loc'], _short(other[0][0])), where=other[0][1]))
        elif root is not None and root in kept:
            results.append(ok(rule, 'the File locked at %s is the value stored in DBInner.file' % e['loc'], sites=1))
        elif root is not None and _moved_into_dbinner(ctx, fn, root):
            results.append(ok(rule, 'the File locked at %s is moved into the function that stores it in DBInner.file' % e['loc'], sites=1))
        else:
            results.append(bad(rule, '%s | locked File is not the one kept in DBInner.file' % fn.qual,
                               'the File on which lock_exclusive is called at %s is not the value stored in DBInner.file: the lock would be released when the temporary handle is dropped'
                               % e['loc'], where=e['loc']))
    # nothing on the open path removes or replaces the file at the database path: whoever created it may be inside (and holds its lock on that inode)
    PATH_OPS = ('std::fs::remove_file', 'std::fs::rename', 'std::fs::remove_dir_all', 'std::fs::hard_link', 'std::fs::copy')
    npath = 0
    for n in T.nodes:
        if n.bb is None or n.virt:
            continue
        t = n.fn.term(n.bb)
        c = callee_of(t) if t['k'] == 'call' else None
        if c and strip_generics(c['path']) in PATH_OPS:
            npath += 1
            results.append(bad(rule, '%s | %s on the open path' % (n.fn.qual, last_seg(strip_generics(c['path']))),
                               '%s calls %s at %s while opening: the file at the database path may belong to a process that created it a moment ago and is inside holding the '
                               'lock on that inode; removing or replacing the path lets the next opener create and lock a different file' % (n.fn.qual, strip_generics(c['path']), n.loc()),
                               where=n.loc()))
    nforb = 0
    for fn in F.fns:
        for bb, t, c in calls_named(F, fn, *FORBIDDEN):
            nforb += 1
            results.append(bad(rule, '%s | %s' % (fn.qual, last_seg(strip_generics(c['path']))),
                               '%s calls %s at %s: the advisory lock could be released or shared while the database is open' % (fn.qual, strip_generics(c['path']), fn.loc(bb)), where=fn.loc(bb)))
    # positive control of the matcher used for the zero-expected rule: it must find the lock_exclusive call
    ctl = sum(len(calls_named(F, fn, 'FileExt::lock_exclusive', 'File::lock')) for fn in F.fns)
    f = floor(rule, 'positive control: matcher finds FileExt::lock_exclusive', ctl, 1)
    if f:
        results.append(f)
    # DBInner is owned only through the Arc in DB and built only in DBInner::open
    dbt = F.adt('DB')
    okarc = dbt and any(f['ty'] == 'std::sync::Arc<db::DBInner>' for f in dbt['variants'][0]['fields'])
    byval = [a['name'] + '.' + f['name'] for a in F.doc['adts'] for v in a['variants'] for f in v['fields'] if f['ty'] == 'db::DBInner']
    folded = set(getattr(XO, 'inlined', ()))
    import c03
    builders = sorted({dbopen.qual if (fn.qual in folded and c03._only_via(F, fn, dbopen)) else fn.qual for fn in F.fns if aggregates_of(fn, 'DBInner')})
    if okarc and not byval and builders == [dbopen.qual]:
        results.append(ok(rule, 'DBInner (holding the locked File) is built only in DBInner::open and owned only through DB\'s Arc; no unlock / try_clone / raw-fd escape (%d forbidden calls)' % nforb, sites=1))
    else:
        results.append(bad(rule, 'DBInner ownership', 'DBInner is not exclusively owned through DB\'s Arc (arc=%s, by-value fields=%s, builders=%s)' % (okarc, byval, builders)))
    ctx.stats['open_trace_nodes'] = len(T.nodes)
    ctx.stats['lock_calls'] = len(Ls)
    return dict(
        results=results, stats=dict(ctx.stats),
        explanation=(
            'Decides where the advisory lock is taken and how long it lives: (lock-before-use) a blocking lock_exclusive with checked result dominates every memory-map creation and '
            'header read in the trace of OpenOptions::open; (lock-before-write) it also dominates every write/growth of the creation branch; (lock-lives) the locked File is the value '
            'stored in DBInner.file, DBInner is built only in DBInner::open and owned only through the Arc in DB, and the crate never calls unlock / try_clone / raw-fd conversions. '
            '(lock-lives) the File stored in DBInner.file is on every path the locked one; (lock-before-write) after the image write the creation branch does not size the file again before the lock; (open-existing) open writes only into files it created. NOT decided: flock semantics between processes, the exists/create race itself, waiting behaviour.'),
        assumptions=['flock(LOCK_EX) on an open file description excludes other openers until the description is closed'])


def file_lock_clauses(ctx, prefix):
    """the lock-before-use and lock-lives clauses of C13 under another property's name (they are necessary wherever "one opener at a time" is relied upon);
    the creation-branch known finding (lock-before-write) stays with C13"""
    from core import R
    out = []
    for r in run(ctx, 'quick')['results']:
        if r.rule in ('C13.lock-before-use', 'C13.lock-lives'):
            nr = prefix + '.file-' + r.rule.split('.', 1)[1]
            out.append(R(nr, r.ok, key=r.key.replace(r.rule, nr, 1), msg=r.msg, where=r.where, path=r.path, sites=r.sites, detail=r.detail))
    return out
