import os
"""Rule framework: contexts, results, known findings, evidence."""
import json, os, sys, time, re
from facts import build_facts, load_facts, VERIF, WORK, REPO, last_seg, strip_generics
from anchors import Anchors, AnchorError
from events import Events
from flow import DefUse
from trace import Trace

EVIDENCE_DIR = os.path.join(VERIF, 'evidence')
REPLAY_DIR = os.path.join(EVIDENCE_DIR, 'replay')
KNOWN = os.path.join(VERIF, 'known_findings.txt')


class R:
    """one evaluated rule instance"""

    def __init__(self, rule, ok, key=None, msg='', where=None, path=None, sites=0, detail=None):
        self.rule = rule          # e.g. 'C02.O1'
        self.ok = ok              # True holds / False violated
        self.key = key or rule    # line-free identity of the violation
        self.msg = msg
        self.where = where        # file:line of the offending construct
        self.path = path or []
        self.sites = sites        # number of sites / instances matched by this rule
        self.detail = detail or {}

    def to_json(self):
        return dict(rule=self.rule, holds=self.ok, key=self.key, msg=self.msg, where=self.where, path=self.path,
                    sites=self.sites, detail=self.detail)


def ok(rule, msg='', sites=0, **detail):
    return R(rule, True, msg=msg, sites=sites, detail=detail)


def bad(rule, key, msg, where=None, path=None, **detail):
    return R(rule, False, key='%s | %s' % (rule, key), msg=msg, where=where, path=path, detail=detail)


def unresolved(rule, what):
    return R(rule, False, key='%s | anchor unresolved | %s' % (rule, what), msg='anchor/role unresolved: %s (fails closed)' % what)


def floor(rule, what, count, minimum):
    """vacuity guard: a rule that matched fewer sites than were confirmed by hand fails closed"""
    if count < minimum:
        return R(rule, False, key='%s | floor | %s' % (rule, what),
                 msg='vacuity guard: %s matched %d site(s), expected at least %d (rule would pass vacuously)' % (what, count, minimum))
    return None


class Ctx:
    def __init__(self, facts):
        self.raw_facts = facts
        if os.environ.get('JL_NORMALISE', '0') == '1':
            # fold private helper functions into their callers (rules/inline.py): the rules then see the same body whether
            # or not a maintainer has extracted part of a role function into a helper
            import inline
            A0 = Anchors(facts)
            keep = set()
            for v in A0.roles.values():
                if hasattr(v, 'blocks'):
                    keep.add(v)
            for f in facts.fns:
                if f.eff_pub or f.trait or f.kind == 'Closure':
                    keep.add(f)
            facts = inline.normalise(facts, keep)
        self.facts = facts
        self.A = Anchors(facts)
        self.E = Events(facts, self.A)
        self._du = {}
        self._traces = {}
        self.stats = {}

    def trace(self, entry, const_args=None):
        key = (entry.path, tuple(sorted((const_args or {}).items())))
        if key not in self._traces:
            # walking the folded views instead of the functions as written was tried (JL_TRACE_VIEWS=1) and rejected: in a merged commit body the flow-insensitive slice of a
            # written buffer reaches the checksum call, data writes are classified as header writes, and 60 obligations fail on the unchanged tree
            self._traces[key] = Trace(self.facts, entry, self.E.classify, classify_stmt=self.E.classify_stmt,
                                      const_args=const_args, view=(self.x if os.environ.get('JL_TRACE_VIEWS', '0') == '1' else None),
                                      follow_drops=os.environ.get('JL_FOLLOW_DROPS', '1') == '1')
            self._reclassify_writes(self._traces[key])
        return self._traces[key]

    def _reclassify_writes(self, T):
        """a file write that sits in a small helper (`write_fully(file, buf)`, `write_at(file, offset, buf)`) is a header write where the caller hands it a sealed header
        image: the buffer parameter is followed into the arguments of the call sites on the trace context"""
        cs = self.A.roles.get('checksum-role')
        if cs is None:
            return
        import commit
        sealers = self.E._sealers()
        for n in T.nodes:
            if n.bb is None or n.virt or not n.ctx:
                continue
            for e in n.events:
                if e.get('ev') == 'W' and e.get('sub') == 'D' and not e.get('buffered'):
                    t = n.fn.term(n.bb)
                    if t['k'] != 'call' or len(t.get('args', [])) < 2:
                        continue
                    # only where the written buffer IS a byte-slice parameter of the helper (possibly re-sliced: `&buf[done..]`)
                    tr = self.du(n.fn).sym(t['args'][1])
                    for _ in range(6):
                        if tr[0] == 'call' and tr[2] and last_seg(strip_generics(tr[1])) in ('index', 'deref', 'as_slice', 'as_ref', 'get_unchecked', 'split_at', 'borrow'):
                            tr = tr[2][0]
                        elif tr[0] in ('un', 'ref') and len(tr) >= 2:
                            tr = tr[-1]
                        else:
                            break
                    if not (tr[0] == 'arg' and 1 <= tr[1] <= n.fn.argc and 'u8' in n.fn.locals[tr[1]]['ty']) and not (tr[0] == 'phi' and any(
                            'u8' in n.fn.locals[i]['ty'] and n.fn.locals[i]['ty'].startswith('&') for i in range(1, n.fn.argc + 1))):
                        continue
                    # follow the parameter up, frame by frame, for as long as the buffer is handed through as a plain parameter; the first frame that builds the buffer
                    # decides (going further up reaches whole-transaction state, where a flow-insensitive slice sees everything)
                    bytes_params = [i for i in range(1, n.fn.argc + 1) if n.fn.locals[i]['ty'].startswith('&') and 'u8' in n.fn.locals[i]['ty']]
                    k = tr[1] if tr[0] == 'arg' else (bytes_params[0] if len(bytes_params) == 1 else None)      # (`buf = &buf[n..]` in a loop is a phi of the one byte-slice parameter)
                    frames = list(n.ctx)
                    while frames and k is not None:
                        cfn, cbb = frames[-1][0], frames[-1][1]
                        ct = cfn.term(cbb)
                        frames = frames[:-1]
                        if 'args' not in ct or k - 1 >= len(ct['args']):
                            break
                        arg = ct['args'][k - 1]
                        tr2 = self.du(cfn).sym(arg)
                        for _ in range(6):
                            if tr2[0] == 'call' and tr2[2] and last_seg(strip_generics(tr2[1])) in ('index', 'deref', 'as_slice', 'as_ref', 'borrow'):
                                tr2 = tr2[2][0]
                            else:
                                break
                        if tr2[0] == 'arg' and 1 <= tr2[1] <= cfn.argc and 'u8' in cfn.locals[tr2[1]]['ty']:
                            k = tr2[1]
                            continue
                        _, up = self.du(cfn).slice_operand(arg)
                        if any(a[0] == 'call' and (a[2] == cs.path or a[2] in sealers) for a in up):
                            e['sub'] = 'H'
                        break

    def need(self, *names):
        return self.A.need(*names)

    def keep_set(self):
        """functions that are never inlined into a scope view: role-identified functions, the public API, trait methods"""
        if not hasattr(self, '_keep'):
            keep = set()
            for v in self.A.roles.values():
                if hasattr(v, 'blocks'):
                    keep.add(v)
            for f in self.facts.fns:
                if f.eff_pub or f.trait or f.kind == 'Closure':
                    keep.add(f)
            keep |= set(getattr(self.A, 'hdr_helpers', ()))     # a helper that holds the header selection stays a call (it is a header read wherever it is called)
            self._keep = keep
        return self._keep

    def x(self, fn, keep_adts=()):
        """expanded view of a scope function: private, non-role helper functions it calls are inlined (rules/inline.py); methods of the types named in
        keep_adts stay calls (a rule that looks for `Freelist::pages()` / `size()` calls wants them kept)"""
        if fn is None:
            return None
        if not hasattr(self, '_views'):
            self._views = {}
        key = (fn.path, tuple(sorted(keep_adts)))
        if key not in self._views:
            import inline
            keep = self.keep_set() - {fn}
            if fn is self.A.get('DBInner::meta'):
                keep = keep - set(getattr(self.A, 'hdr_helpers', ()))      # ... except inside header selection itself, which is judged with it folded in
            if keep_adts:
                from facts import last_seg
                keep = keep | {g for g in self.facts.fns if g.self_adt and last_seg(g.self_adt) in keep_adts}
            self._views[key] = inline.expand(self.facts, fn, keep)
        return self._views[key]

    def units(self):
        """analysis units for whole-crate scans of rules that reason inside one body: every kept function (public API, trait methods, roles, closures) with
        its private helpers folded in, plus the helpers themselves as they stand (a helper is also looked at on its own; rules that count sites use
        `origin` to count each source block once)"""
        if not hasattr(self, '_units'):
            keep = self.keep_set()
            self._units = [self.x(f) if f in keep else f for f in self.facts.fns]
        return self._units

    @staticmethod
    def origin(fn, bb):
        """(path of the function the block was written in, its block index there)"""
        o = getattr(fn, 'origin', None)
        return tuple(o[bb]) if o else (fn.path, bb)

    def du(self, fn):
        key = (fn.path, id(fn))
        if key not in self._du:
            self._du[key] = DefUse(self.facts, fn)
        return self._du[key]


# ------------------------------------------------------------------ known findings

def load_known():
    """known_findings.txt lines:
         known: property=C13 key=<exact violation key> :: <what fails>
         fixed: property=C02 <commit> <what failed>           (documentation only, suppresses nothing)"""
    known = {}
    if os.path.exists(KNOWN):
        for line in open(KNOWN):
            line = line.rstrip('\n')
            m = re.match(r'^known:\s+property=(C\d+)\s+key=(.*?)\s+::\s+(.*)$', line)
            if m:
                known[(m.group(1), m.group(2).strip())] = m.group(3).strip()
    return known


# ------------------------------------------------------------------ running a property

def run_property(pid, module, tier, facts=None, write=True, replay=None):
    t0 = time.time()
    seed = int(os.environ.get('VERIF_SEED', '0') or 0)
    if facts is None:
        facts = build_facts()
    ctx = Ctx(facts)
    out = module.run(ctx, tier)
    results = out['results']
    known = load_known()
    violations = []
    known_hits = []
    for r in results:
        if r.ok:
            continue
        if (pid, r.key) in known:
            known_hits.append((r, known[(pid, r.key)]))
        else:
            violations.append(r)
    lines = []
    if replay:
        want = json.load(open(replay)).get('key')
        for r in results:
            if r.key == want:
                lines.append('REPLAY %s: %s' % ('still violated' if not r.ok else 'now holds', r.key))
                lines.append('  ' + r.msg)
                if r.where:
                    lines.append('  at ' + r.where)
                for p in r.path:
                    lines.append('    ' + str(p))
        if not lines:
            lines.append('REPLAY: rule instance %s no longer produced (holds, or construct is gone)' % want)
    for r, what in known_hits:
        lines.append('KNOWN-FINDING: property=%s %s [%s]' % (pid, what, r.key))
    if not write:
        return lines, violations, known_hits, None, results
    os.makedirs(REPLAY_DIR, exist_ok=True)
    # stale replay files of this property are removed so the directory reflects this run
    for f in os.listdir(REPLAY_DIR):
        if f.startswith(pid + '-'):
            try:
                os.remove(os.path.join(REPLAY_DIR, f))
            except OSError:
                pass
    for i, r in enumerate(violations):
        name = '%s-%s-%d.json' % (pid, re.sub(r'[^A-Za-z0-9.]+', '_', r.rule), i)
        path = os.path.join(REPLAY_DIR, name)
        with open(path, 'w') as fh:
            json.dump(dict(property=pid, **r.to_json(), tree=facts.src_hash), fh, indent=1)
        lines.append('VIOLATION property=%s replay=%s' % (pid, path))
        lines.append('  rule %s: %s' % (r.rule, r.msg))
        if r.where:
            lines.append('  at %s' % r.where)
        for p in r.path[:16]:
            lines.append('    %s' % p)
    wall = time.time() - t0
    obligations = len(results)
    discharged = sum(1 for r in results if r.ok)
    samples = []
    for r in results[:400]:
        samples.append(dict(rule=r.rule, holds=r.ok, sites=r.sites, note=r.msg[:300], where=r.where,
                            **({'known_finding': True} if (pid, r.key) in known and not r.ok else {})))
    cov = dict(
        explanation=out['explanation'],
        obligations=obligations,
        discharged=discharged,
        known_findings=len(known_hits),
        rule=('each obligation is one rule instance evaluated over the MIR facts of the current /repo tree; '
              'distinct_nontrivial counts the distinct rule instances that matched at least one construct (site)'),
        evaluations=obligations,
        distinct_nontrivial=len({r.key for r in results if r.sites > 0 or not r.ok}),
        samples=samples,
        checker_cmd='./check %s --tier %s' % (pid, tier),
        trusted_base=['nightly rustc type checking / borrow checking / MIR construction (mir-opt-level=0)',
                      'jammlint exporter (/verif/jammlint)', 'anchor & role resolution (/verif/rules/anchors.py)',
                      'necessity arguments in DESIGN.md section 5'],
        analysed=dict(functions=len(facts.fns), adts=len(facts.adts), consts=len(facts.consts), tree=facts.src_hash,
                      **out.get('stats', {})),
        exhaustive=True,
    )
    if tier == 'thorough' and write:
        # checker self-test: mutants / seeded changes that target this property must be caught on a scratch copy of the
        # CURRENT tree, benign edits must stay silent.  Never produces a VIOLATION line.
        try:
            import selftest
            base = {pid: {r.key for r in results if not r.ok}}
            rows = selftest.run([pid], base)
            st = selftest.summarise(rows, pid)
            cov['selftest'] = st
            cov['evaluations'] = obligations + st['mutants_applied'] + st['benign_applied']
            lines.append('SELFTEST %s: %d/%d broken variants caught, %d/%d benign edits silent, %d stale, survivors=%s noisy=%s' % (
                pid, st['mutants_killed'], st['mutants_applied'], st['benign_applied'] - len(st['benign_noisy']), st['benign_applied'],
                len(st['stale_patches']), st['survivors'], st['benign_noisy']))
        except Exception as e:
            cov['selftest'] = dict(error=repr(e)[:300])
            lines.append('SELFTEST %s could not run: %r' % (pid, e))
        if hasattr(module, 'thorough'):
            try:
                extra = module.thorough(ctx)
                cov['thorough'] = extra.get('stats', {})
                for r in extra.get('results', []):
                    results.append(r)
                    if not r.ok and (pid, r.key) not in known:
                        violations.append(r)
                        name = '%s-%s-%d.json' % (pid, re.sub(r'[^A-Za-z0-9.]+', '_', r.rule), len(violations))
                        path = os.path.join(REPLAY_DIR, name)
                        with open(path, 'w') as fh:
                            json.dump(dict(property=pid, **r.to_json(), tree=facts.src_hash), fh, indent=1)
                        lines.append('VIOLATION property=%s replay=%s' % (pid, path))
                        lines.append('  rule %s: %s' % (r.rule, r.msg))
                cov['obligations'] = len(results)
                cov['discharged'] = sum(1 for r in results if r.ok)
            except Exception as e:
                cov['thorough'] = dict(error=repr(e)[:300])
                lines.append('thorough extras of %s could not run: %r' % (pid, e))
        wall = time.time() - t0
    ev = dict(property_id=pid, tier=tier, seed=seed, level='other', coverage=cov,
              assumptions=out.get('assumptions', []), wall_s=round(time.time() - t0, 3), violations=len(violations))
    if write:
        os.makedirs(EVIDENCE_DIR, exist_ok=True)
        with open(os.path.join(EVIDENCE_DIR, pid + '.json'), 'w') as fh:
            json.dump(ev, fh, indent=1)
    return lines, violations, known_hits, ev, results


def renamed(results, frm, to):
    """results of another property's rule functions under property `to`'s name"""
    out = []
    for r in results:
        nr = to + '.' + r.rule.split('.', 1)[1] if r.rule.startswith(frm + '.') else r.rule
        out.append(R(nr, r.ok, key=r.key.replace(r.rule, nr, 1), msg=r.msg, where=r.where, path=r.path, sites=r.sites, detail=r.detail))
    return out
