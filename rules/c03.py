"""C03 A read-only transaction sees one frozen snapshot for its whole life (clause level)"""
from core import ok, bad, unresolved, floor
from anchors import AnchorError
from facts import callee_of, op_local, op_place, last_seg, strip_generics
from flow import Prov
from locks import Locks
from guards import writable_tests
from util import calls_to_fn, calls_named, aggregates_of, has_field, has_call, stores_to_field
import c02
import c09
from core import renamed

REGISTRY_LOCK = 'open_ro_txs'
ALLOWED_MUTATORS = {'push', 'insert', 'remove', 'sort', 'sort_unstable', 'sort_by', 'sort_unstable_by', 'sort_by_key', 'sort_unstable_by_key',
                    'deref_mut', 'index_mut', 'as_mut_slice', 'as_mut', 'iter_mut', 'binary_search', 'get_mut', 'first_mut', 'last_mut', 'swap'}
SORTS = {'sort', 'sort_unstable', 'sort_by', 'sort_unstable_by', 'sort_by_key', 'sort_unstable_by_key'}
READS_CONTENT = {'index', 'first', 'get', 'iter', 'min', 'into_iter', 'last', 'get_unchecked', 'as_slice', 'deref'}


def registry_scope(ctx):
    """(function, index of its writable flag parameter): the begin role with its private helpers folded in (the function that takes the reader-registry lock
    may be such a helper)"""
    if hasattr(ctx, '_reg_scope'):
        return ctx._reg_scope
    bf = c09.begin_fn(ctx)
    ctx._reg_scope = (bf, c09.writable_param(bf) if bf is not None else None)
    return ctx._reg_scope


def ok_return_blocks(fn, blocks=None):
    """blocks that put a success value into the return slot (directly, or as the result of a folded-in helper)"""
    out = []
    for bb in (blocks if blocks is not None else fn.reachable_blocks()):
        for s in fn.blocks[bb]['stmts']:
            if s['k'] == 'assign' and s['p']['l'] == 0 and not s['p']['pr'] and \
                    ((s['rv']['k'] == 'agg' and s['rv'].get('variant') == 'Ok') or tuple(s.get('ret_kind') or ()) == ('v', 'Ok')):
                out.append(bb)
    return out


def registry_holders(ctx, fn, prune=None):
    """locals of fn that hold the guard of the reader registry"""
    L = c09.locks_of(ctx)
    li = L.info(fn, prune)
    hs = set()
    toks = []
    for (bb, name, mode, tok, tr) in li.sites:
        if name == REGISTRY_LOCK:
            hs |= li.holders[tok]
            toks.append((bb, tok))
    return li, hs, toks


def registry_calls(ctx, fn, hs):
    """[(bb, term, method name, mutable?)] calls whose receiver is derived from the registry guard"""
    du = ctx.du(fn)
    out = []
    for bb in sorted(fn.reachable_blocks()):
        t = fn.term(bb)
        if t['k'] != 'call' or not t['args']:
            continue
        l = op_local(t['args'][0])
        if l is None:
            continue
        ty = fn.locals[l]['ty']
        if not (ty.startswith('&') or ty.startswith('*')):
            continue
        locs, _ = du.slice_local(l)
        if not (locs & hs):
            continue
        # must really point into the registry (Vec<u64> / [u64] / the guard itself)
        if not ('Vec<u64>' in ty or '[u64]' in ty or 'MutexGuard' in ty):
            continue
        c = callee_of(t)
        name = last_seg(strip_generics(c['path'])) if c else '?'
        out.append((bb, t, name, ty.startswith('&mut') or ty.startswith('*mut')))
    return out


def _release_sites_from_begin(ctx, li, bf, rel):
    """[(bb in begin, kind, helper fn or None)]: calls on the (pruned) begin path that are, or reach, the release role"""
    F = ctx.facts
    out = []
    for bb, t, target, c in F.call_sites(bf):
        if bb not in li.reach or target is None:
            continue
        if target is rel:
            out.append((bb, t, None))
        elif rel in F.reachable_fns([target]):
            out.append((bb, t, target))
    return out


def release_bound(ctx, rule='C03.release-bound'):
    res = []
    try:
        (rel,) = ctx.need('release-role')
    except AnchorError as e:
        return [unresolved(rule, str(e))]
    F = ctx.facts
    bf, wp = registry_scope(ctx)
    li, hs, toks = registry_holders(ctx, bf, {wp: True} if wp else None)
    if not hs:
        return [unresolved(rule, 'reader registry guard in ' + bf.qual)]
    du = ctx.du(bf)
    sites = _release_sites_from_begin(ctx, li, bf, rel)
    f = floor(rule, 'release calls on the writer begin path', len(sites), 1)
    if f:
        return [f]

    def reg_dep(fn, d, operand, regset):
        locs, atoms = d.slice_operand(operand)
        return bool(locs & regset)
    rows = []
    for bb, t, helper in sites:
        if helper is None:
            dep = reg_dep(bf, du, t['args'][1], hs)
            cdep = False
            for (a, s2) in bf.control_deps_transitive(bb):
                at = bf.term(a)
                if at['k'] == 'switch' and (du.slice_operand(at['discr'])[0] & hs):
                    cdep = True
            rows.append((bb, dep, cdep, bf.loc(bb)))
        else:
            # the helper receives (something derived from) the registry as a parameter: which parameters are registry-derived here?
            regparams = {i + 1 for i, a in enumerate(t['args']) if op_place(a) is not None and (du.slice_operand(a)[0] & hs)}
            dh = ctx.du(helper)
            inner = [(b2, t2) for b2, t2, c2 in calls_to_fn(F, helper, rel)]
            if not inner:
                rows.append((bb, bool(regparams), False, bf.loc(bb)))     # deeper nesting: judged at the call site only
            for b2, t2 in inner:
                dep = reg_dep(helper, dh, t2['args'][1], regparams)
                cdep = False
                for (a, s2) in helper.control_deps_transitive(b2):
                    at = helper.term(a)
                    if at['k'] == 'switch' and (dh.slice_operand(at['discr'])[0] & regparams):
                        cdep = True
                rows.append((bb, dep, cdep, helper.loc(b2)))
    any_dep = any(dep for _, dep, _, _ in rows)
    for bb, dep, cdep, where in rows:
        if dep or (cdep and any_dep):
            res.append(ok(rule, 'release bound at %s %s the reader registry' % (where, 'is read from' if dep else 'is chosen under a test of'), sites=1))
        else:
            res.append(bad(rule, '%s | release bound ignores the reader registry' % bf.qual,
                           'the writer releases pending pages at %s with a bound that depends neither on the contents of the open-reader registry nor on a test of it: '
                           'pages of a snapshot an open reader still uses can be reused' % where, where=where))
    # (the release itself need not sit inside the registry critical section: a reader that registers after the bound was read pins the newest committed state, and
    # nothing pending belongs to that state; what matters is that the bound is read under the registry lock -- it is, it comes through the guard -- and only after the
    # writer owns the writer lock, which `writer-reads-after-lock` decides)
    return res


OLDEST = {'first', 'min', 'min_by', 'min_by_key'}
NOT_OLDEST = {'last', 'max', 'max_by', 'max_by_key', 'pop', 'last_mut', 'nth', 'nth_back', 'next_back', 'rev'}


def _only_via(F, fn, gate):
    """is fn reachable from public entry points / Drop impls only through `gate`?"""
    for e in F.fns:
        if e.kind == 'Closure' or e is gate:
            continue
        if not (e.eff_pub or (e.trait and last_seg(e.trait) == 'Drop')):
            continue
        if fn in F.reachable_fns([e], stop={gate}):
            return False
    return True


def release_sites(ctx, rule='C03.release-site'):
    """every call of the release role, anywhere in the crate: only when a writer begins, inside the registry critical section, with the
    OLDEST registered reader as the bound"""
    res = []
    try:
        (rel,) = ctx.need('release-role')
    except AnchorError as e:
        return [unresolved(rule, str(e))]
    F = ctx.facts
    bf = c09.begin_fn(ctx)
    L = c09.locks_of(ctx)
    sites = [(fn, bb, t) for fn in [bf] + [g for g in F.fns if not c09.part_of(ctx, g, bf)] for bb, t, c in calls_to_fn(F, fn, rel)]
    f = floor(rule, 'calls of the release role', len(sites), 1)
    if f:
        res.append(f)
    for fn, bb, t in sites:
        owner = fn.owner if fn.kind == 'Closure' and fn.owner is not None else fn
        if owner is not bf and not _only_via(F, owner, getattr(bf, 'raw', bf)):
            res.append(bad(rule, '%s | releases pending pages outside transaction begin' % fn.qual,
                           '%s calls the release role at %s. Pending pages may only be released when a writer begins: the decision must be taken atomically with the reader registry, and the pages '
                           'freed by a commit must stay pending until the next writer begins so that the previous header\'s tree stays intact (fallback) and no reader that starts during the commit '
                           'loses its snapshot' % (fn.qual, fn.loc(bb)), where=fn.loc(bb)))
            continue
        li = L.info(fn)
        _, hs, _ = registry_holders(ctx, fn)
        du = ctx.du(fn)
        locs, atoms = du.slice_operand(t['args'][1])
        if not (locs & hs):
            continue          # bound not read from the registry: judged by release-bound (other branch)
        names = set()
        idx_consts = set()
        for a in atoms:
            if a[0] != 'call':
                continue
            ct = fn.term(a[1])
            if not ct['args']:
                continue
            l0 = op_local(ct['args'][0])
            if l0 is None or not (du.slice_local(l0)[0] & hs):
                continue
            n = last_seg(strip_generics(a[2]))
            names.add(n)
            if n == 'index' and len(ct['args']) > 1:
                from facts import op_const_val
                idx_consts.add(op_const_val(ct['args'][1]))
        # `regs[0]` on a plain slice is a MIR index projection, not a call: follow the bound back through copies to such a load
        bl = op_local(t['args'][1])
        for _ in range(8):
            if bl is None:
                break
            ds = du.defs.get(bl, [])
            if len(ds) != 1 or ds[0][1] is None:
                break
            s0 = fn.blocks[ds[0][0]]['stmts'][ds[0][1]]
            p0 = op_place(s0['rv']['op']) if s0['rv']['k'] == 'use' else None
            if p0 is None or s0['p']['pr']:
                break
            ix = [e for e in p0['pr'] if e['k'] == 'index']
            if ix:
                if du.slice_local(p0['l'])[0] & hs:
                    ids = du.defs.get(ix[0]['l'], [])
                    val = None
                    if len(ids) == 1 and ids[0][1] is not None:
                        si0 = fn.blocks[ids[0][0]]['stmts'][ids[0][1]]
                        if si0['rv']['k'] == 'use':
                            from facts import op_const_val
                            val = op_const_val(si0['rv']['op'])
                    idx_consts.add(val)
                    names.add('index')
                break
            if p0['pr']:
                break
            bl = p0['l']
        names -= {'push', 'sort', 'sort_unstable', 'insert', 'remove', 'binary_search'} if (names & OLDEST or idx_consts) else set()
        oldest = bool(names & OLDEST) or (idx_consts == {0})
        wrong = bool(names & NOT_OLDEST) or bool(idx_consts - {0})
        if oldest and not wrong:
            res.append(ok(rule, 'release at %s is bounded by the oldest registered reader (%s)' % (fn.loc(bb), ', '.join(sorted(names & (OLDEST | {'index'})))), sites=1))
        else:
            res.append(bad(rule, '%s | release bound is not the oldest reader (%s)' % (fn.qual, ','.join(sorted(names - {'deref', 'deref_mut'}))),
                           'the release at %s takes its bound from the reader registry with `%s`, which is not the first / minimum element of the ascending registry: pages still needed by an '
                           'older open reader are released and reused' % (fn.loc(bb), ', '.join(sorted(names - {'deref', 'deref_mut'}))), where=fn.loc(bb)))
    return res


def register(ctx, rule='C03.register'):
    res = []
    bf, wp = registry_scope(ctx)
    li, hs, toks = registry_holders(ctx, bf, {wp: False} if wp else None)
    liw, _, _ = registry_holders(ctx, bf, {wp: True} if wp else None)
    if not hs:
        return [unresolved(rule, 'reader registry guard in ' + bf.qual)]
    du = ctx.du(bf)
    calls = registry_calls(ctx, bf, hs)
    ins = [(bb, t, n) for bb, t, n, m in calls if n in ('push', 'insert') and m]
    ins_r = [(bb, t, n) for bb, t, n in ins if bb in li.reach]
    if not ins_r:
        return [bad(rule, '%s | reader never registers' % bf.qual, 'the read-only begin path never inserts into the open-reader registry: nothing stops a writer from reusing '
                    'the pages of an open reader\'s snapshot', where='%s:%d' % (bf.file, bf.line))]
    # every Ok return of the reader path passes an insertion
    ok_blocks = ok_return_blocks(bf, li.reach)
    avoid = {bb for bb, t, n in ins_r}
    seen = set([0]) - avoid
    todo = list(seen)
    while todo:
        b = todo.pop()
        for s in li.succ(b):
            if s not in seen and s not in avoid:
                seen.add(s)
                todo.append(s)
    leak = [b for b in ok_blocks if b in seen]
    if leak:
        res.append(bad(rule, '%s | Ok return without registration' % bf.qual,
                       'a read-only transaction can be returned at %s without having been registered' % bf.loc(leak[0]), where=bf.loc(leak[0])))
    else:
        res.append(ok(rule, 'every successful reader begin passes the registration at %s' % bf.loc(ins_r[0][0]), sites=len(ins_r)))
    f = floor(rule, 'successful returns of the begin function', len(ok_blocks), 1)
    if f:
        res.append(f)
    # the writer path performs no insertion
    for bb, t, n in ins:
        if bb in liw.reach:
            res.append(bad(rule, '%s | writer registers as reader' % bf.qual, 'the writer path reaches the registry insertion at %s' % bf.loc(bb), where=bf.loc(bb)))
    # registered id == id of the snapshot the transaction keeps
    for bb, t, n in ins_r:
        val = t['args'][-1]
        locs, atoms = du.slice_operand(val)
        loads = [a for a in atoms if a[0] in ('field',) and a[2] == 'tx_id']
        has_arith = any(a[0] == 'bin' and a[1].startswith(('Add', 'Sub', 'Mul')) for a in atoms)
        src = op_place(val)
        # the place the registered value was loaded from: <some Meta>.tx_id, followed back through copies, helper parameters and wrappers
        root = None
        if src is not None:
            rl, rpath = du.trace_root(src['l'], tuple(str(e.get('name', e.get('i'))) for e in src['pr'] if e['k'] == 'field'), within=li.reach)
            if rpath and rpath[-1] == 'tx_id':
                root = (rl, rpath[:-1])
        # the Meta stored in the returned TxInner
        kept = set()
        for b2, si, s in aggregates_of(bf, 'TxInner'):
            for nme, o in zip(s['rv']['fields'], s['rv']['ops']):
                if nme == 'meta' and op_place(o) is not None:
                    po = op_place(o)
                    kept.add(du.trace_root(po['l'], tuple(str(e.get('name', e.get('i'))) for e in po['pr'] if e['k'] == 'field'), within=li.reach))
        same_tree = False
        if root is None or not kept or root not in kept:
            # the same relation on expression trees: registered == <E>.tx_id and kept == <E> (the header passed to a folded helper by reference)
            tv = du.sym(val)
            for b2, si, s in aggregates_of(bf, 'TxInner'):
                for nme, o in zip(s['rv']['fields'], s['rv']['ops']):
                    if nme == 'meta':
                        tk = du.sym(o)
                        if tv[0] == 'field' and tv[2] and tv[2][-1] == 'tx_id' and (
                                (tk[0] == 'field' and tk[1] == tv[1] and tuple(tk[2]) == tuple(tv[2][:-1])) or (len(tv[2]) == 1 and tk == tv[1])):
                            same_tree = True
        if same_tree:
            res.append(ok(rule, 'registered id at %s is the tx_id of the header the transaction keeps (same expression)' % bf.loc(bb), sites=1))
        elif root is None or not kept or root not in kept:
            res.append(bad(rule, '%s | registered id is not the snapshot id' % bf.qual,
                           'the value inserted into the registry at %s is not a plain copy of the tx_id of the Meta the transaction keeps (source local %s, kept %s): '
                           'the reader would pin a different snapshot than the one it reads' % (bf.loc(bb), root, sorted(kept)), where=bf.loc(bb)))
        else:
            # no store into that Meta's tx_id on the reader path
            bad_store = [(b3, s3) for b3, s3, st in stores_to_field(bf, 'Meta', 'tx_id') if b3 in li.reach and st['p']['l'] == root[0]]
            if bad_store:
                res.append(bad(rule, '%s | snapshot id modified on the reader path' % bf.qual,
                               'Meta.tx_id is modified at %s on the read-only path' % bf.loc(*bad_store[0]), where=bf.loc(*bad_store[0])))
            else:
                res.append(ok(rule, 'registered id at %s is the tx_id of the Meta kept by the transaction' % bf.loc(bb), sites=1))
    return res


def sorted_registry(ctx, rule='C03.sorted-registry'):
    """the release bound reads the first element as the minimum, so every insertion must leave the registry sorted:
    a push is followed by a sort before the guard is released; removals keep the order (remove, not swap_remove)"""
    res = []
    F = ctx.facts
    L = c09.locks_of(ctx)
    n = 0
    nmut = 0
    seen_sites = set()
    for fn in ctx.units():
        li = L.info(fn)
        hs = set()
        for (bb, name, mode, tok, tr) in li.sites:
            if name == REGISTRY_LOCK:
                hs |= li.holders[tok]
        if not hs:
            continue
        calls = registry_calls(ctx, fn, hs)
        drops = [bb for bb in fn.reachable_blocks() if fn.term(bb)['k'] == 'drop' and fn.term(bb)['p']['l'] in hs]
        for bb, t, name, mut in calls:
            if not mut:
                continue
            if ctx.origin(fn, bb) not in seen_sites:
                seen_sites.add(ctx.origin(fn, bb))
                nmut += 1
            if name not in ALLOWED_MUTATORS:
                res.append(bad(rule, '%s | registry mutated with %s' % (fn.qual, name),
                               '%s applies `%s` to the open-reader registry at %s; only order-preserving single-element operations (push+sort, insert, remove) are allowed: '
                               'bulk or order-breaking mutation un-pins readers or breaks the "first element is the oldest reader" assumption of the writer'
                               % (fn.qual, name, fn.loc(bb)), where=fn.loc(bb)))
            if name in ('push', 'index_mut', 'iter_mut', 'as_mut_slice', 'as_mut', 'get_mut', 'first_mut', 'last_mut', 'swap'):
                # an element written in place (`registry[i] = id`) needs the same re-sort as an appended one
                n += 1
                sorts = {b2 for b2, t2, n2, m2 in calls if n2 in SORTS}
                # every path from the push to a release of the guard passes a sort
                reach = fn.reach_from(fn.succ(bb), avoid=sorts)
                leak = [d for d in drops if d in reach] + [x for x in reach if not fn.succ(x)]
                if leak:
                    res.append(bad(rule, '%s | %s without sort' % (fn.qual, 'push' if name == 'push' else 'in-place write'),
                                   'the registry insertion at %s can reach the release of the registry guard at %s without sorting: writers read the first element as the oldest reader'
                                   % (fn.loc(bb), fn.loc(leak[0])), where=fn.loc(bb)))
                else:
                    res.append(ok(rule, 'push at %s is followed by a sort before the guard is released' % fn.loc(bb), sites=1))
    f = floor(rule, 'mutating calls on the reader registry', nmut, 3)
    if f:
        res.append(f)
    if not any(not r.ok for r in res) and n == 0:
        res.append(ok(rule, 'registry is only mutated by order-preserving operations (%d mutating calls)' % nmut, sites=nmut))
    return res


def deregister_only_own(ctx, rule='C03.deregister-only-own'):
    res = []
    try:
        (dr,) = ctx.need('<TxInner as Drop>::drop')
    except AnchorError as e:
        return [unresolved(rule, str(e))]
    dr = ctx.x(dr)
    li, hs, toks = registry_holders(ctx, dr)
    if not hs:
        return [bad(rule, '%s | reader never deregisters' % dr.qual, 'dropping a transaction never touches the open-reader registry: a closed reader pins its snapshot forever',
                    where='%s:%d' % (dr.file, dr.line))]
    du = ctx.du(dr)
    calls = registry_calls(ctx, dr, hs)
    rem = [(bb, t, n) for bb, t, n, m in calls if m and n in ('remove', 'swap_remove', 'retain', 'clear', 'drain', 'truncate', 'dedup', 'pop')]
    if not rem:
        return [bad(rule, '%s | reader never deregisters' % dr.qual, 'the Drop impl takes the registry lock but removes nothing', where='%s:%d' % (dr.file, dr.line))]
    tests = writable_tests(ctx.facts, dr, du)
    for bb, t, n in rem:
        if n != 'remove':
            continue     # reported by sorted-registry's allow list
        # (a) only for read-only transactions: unreachable when the read-only edges of the writable tests are cut
        ro_edges = {(tb, ft) for (tb, tt, ft) in tests}
        if not tests or bb in dr.reach_from([0], avoid_edges=ro_edges):
            res.append(bad(rule, '%s | removal not restricted to read-only transactions' % dr.qual,
                           'the registry removal at %s also runs for writable transactions (a writer shares its id with no registered reader, or removes one)' % dr.loc(bb), where=dr.loc(bb)))
        # (b) the index comes from a search for the transaction's own id
        locs, atoms = du.slice_operand(t['args'][1])
        searched = any(a[0] == 'call' and last_seg(strip_generics(a[2])) in ('binary_search', 'position', 'binary_search_by', 'binary_search_by_key', 'partition_point') for a in atoms)
        own = has_field(atoms, 'Meta', 'tx_id')
        if searched and own:
            res.append(ok(rule, 'removal at %s uses the index found by searching for the transaction\'s own id' % dr.loc(bb), sites=1))
        else:
            res.append(bad(rule, '%s | removal index not from a search for the own id' % dr.qual,
                           'the registry removal at %s does not use an index obtained by searching for self.meta.tx_id (search=%s, own id=%s)' % (dr.loc(bb), searched, own), where=dr.loc(bb)))
    # (c) nobody else takes entries out: a second way to deregister (an explicit close / rollback / refresh) removes an entry that Drop removes again, or removes another
    # reader's entry of the same snapshot
    raw_dr = getattr(dr, 'raw', None) or ctx.A.get('<TxInner as Drop>::drop')
    nfn = 0
    for g in sorted(ctx.facts.fns, key=lambda f: f.path):
        if g is raw_dr or c09.part_of(ctx, g, dr):
            continue
        try:
            li2, hs2, toks2 = registry_holders(ctx, g)
        except Exception:
            continue
        if not hs2:
            continue
        nfn += 1
        for bb, t, n, m in registry_calls(ctx, g, hs2):
            if m and n in ('remove', 'swap_remove', 'retain', 'clear', 'drain', 'truncate', 'pop', 'take', 'split_off'):
                res.append(bad(rule, '%s | removes registry entries outside Drop' % g.qual,
                               '%s takes entries out of the open-reader registry (%s at %s): only dropping a read-only transaction may do that, once; a second path double-removes '
                               '(unpinning another reader of the same snapshot) or unpins a snapshot that handles still use' % (g.qual, n, g.loc(bb)), where=g.loc(bb)))
    if not any(not r.ok and 'outside Drop' in r.key for r in res):
        res.append(ok(rule, 'no function other than the Drop of a transaction removes registry entries (%d other functions take the registry lock)' % nfn, sites=nfn))
    return res


def _only_measured(fn, l, depth=0, seen=None):
    """is the value in local l (a view of the map) used for nothing but taking its length -- directly, or through further derefs / reborrows / copies?"""
    from facts import rvalue_places
    seen = seen if seen is not None else set()
    if l in seen or depth > 6:
        return True
    seen.add(l)
    for b3 in fn.reachable_blocks():
        t3 = fn.term(b3)
        if t3['k'] == 'call' and any(op_local(x) == l for x in t3['args']):
            c3 = callee_of(t3)
            nm = last_seg(strip_generics(c3['path'])) if c3 else ''
            if nm in ('len', 'is_empty'):
                continue
            if nm in ('deref', 'as_ref', 'borrow') and _only_measured(fn, t3['dest']['l'], depth + 1, seen):
                continue
            return False
        if t3['k'] == 'drop':
            continue
        for st3 in fn.blocks[b3]['stmts']:
            if st3['k'] != 'assign' or l not in {p_['l'] for p_ in rvalue_places(st3['rv'])}:
                continue
            k = st3['rv']['k']
            if k in ('len',) or (k == 'un' and st3['rv'].get('op') == 'PtrMetadata'):
                continue
            if k in ('use', 'ref', 'rawptr', 'cast') and not st3['p']['pr'] and _only_measured(fn, st3['p']['l'], depth + 1, seen):
                continue
            return False
    return True


def map_bytes_via_view(ctx, rule='C03.map-bytes-via-view'):
    """the mapped bytes are looked at page by page, through the page view of the transaction that pinned them; only header selection and open look at the map directly (the two
    header pages are the only pages rewritten in place).  A bulk copy of "the first num_pages pages of my map" carries whatever headers are current when it runs, not the
    snapshot of the transaction that makes it"""
    res = []
    F = ctx.facts
    try:
        hdr, dbopen, mv = ctx.need('DBInner::meta', 'DBInner::open', 'map-view')
    except AnchorError as e:
        return [unresolved(rule, str(e))]
    allowed = {hdr, dbopen, mv} | set(getattr(ctx.A, 'hdr_helpers', ()))
    for root in (hdr, dbopen, mv):
        allowed |= {g for g in F.reachable_fns([root]) if g is not root and _only_via(F, g, root)}
    # (judged on what a transaction's handles can reach: a DB-level diagnostic that dumps raw headers is nobody's snapshot)
    import c06
    on_path = set()
    for e0 in F.fns:
        if e0.kind != 'Closure' and e0.self_adt and last_seg(e0.self_adt) in c06.CARRIERS:
            on_path |= set(F.reachable_fns([e0]))
    n = 0
    for fn in sorted(F.fns, key=lambda g: g.path):
        owner = (fn.owner or fn) if fn.kind == 'Closure' else fn
        if owner not in on_path and owner not in allowed:
            continue
        for bb in sorted(fn.reachable_blocks()):
            t = fn.term(bb)
            c = callee_of(t) if t['k'] == 'call' else None
            if not c or c['path'] not in ('std::ops::Deref::deref', 'std::ops::Index::index', 'std::convert::AsRef::as_ref', 'std::borrow::Borrow::borrow'):
                continue
            if (c.get('self_ty') or '') != 'memmap2::Mmap':
                continue
            n += 1
            if owner in allowed or _only_measured(fn, t['dest']['l']):
                continue
            res.append(bad(rule, '%s | reads the mapped bytes directly' % fn.qual,
                           '%s takes the bytes of the map at %s instead of going through the page view: header pages are rewritten in place by every commit, so what it reads there '
                           'belongs to whichever commit came last, not to the snapshot of the transaction it runs in' % (fn.qual, fn.loc(bb)), where=fn.loc(bb)))
    f = floor(rule, 'places where the map is dereferenced to bytes', n, 3)
    if f:
        res.append(f)
    if not any(not r.ok for r in res):
        res.append(ok(rule, 'the mapped bytes are dereferenced at %d sites: the page view, header selection, open, or only to be measured' % n, sites=n))
    return res


def private_map(ctx, rule='C03.private-map'):
    res = []
    F = ctx.facts
    pages = F.adt('Pages')
    txi = F.adt('TxInner')
    if not pages or not txi:
        return [unresolved(rule, 'type Pages / TxInner')]
    fields = {f['name']: f['ty'] for f in pages['variants'][0]['fields']}
    arc = [n for n, t in fields.items() if t == 'std::sync::Arc<memmap2::Mmap>']
    if arc:
        res.append(ok(rule, 'Pages.%s owns an Arc<Mmap> (each transaction keeps its own reference to the map)' % arc[0], sites=1))
    else:
        res.append(bad(rule, 'Pages | no owned Arc<Mmap>', 'Pages no longer owns an `Arc<memmap2::Mmap>` (fields: %s): a transaction could observe a map replaced by a later commit' % fields))
    if not any(f['ty'] == 'page::Pages' for f in txi['variants'][0]['fields']):
        res.append(bad(rule, 'TxInner | no Pages field', 'TxInner does not own a Pages value'))
    # no mutable map type anywhere
    mm = []
    for a in F.doc['adts']:
        for v in a['variants']:
            for f in v['fields']:
                if 'MmapMut' in f['ty'] or 'MmapRaw' in f['ty']:
                    mm.append('%s.%s' % (a['name'], f['name']))
    for fn in F.fns:
        for i, l in enumerate(fn.locals):
            if 'memmap2::MmapMut' in l['ty']:
                mm.append('%s:_%d' % (fn.qual, i))
    if mm:
        res.append(bad(rule, 'MmapMut | ' + mm[0], 'a writable memory map type is used (%s): committed pages could change under an open reader through memory' % mm[:3]))
    else:
        res.append(ok(rule, 'no MmapMut / MmapRaw anywhere in the crate', sites=1))
    # the begin function clones the Arc under the map lock on every Ok path
    bf = c09.begin_fn(ctx)
    L = c09.locks_of(ctx)
    li = L.info(bf)
    du = ctx.du(bf)
    clones = []
    for bb, t, c in calls_named(F, bf, 'Clone::clone'):
        if 'Arc<memmap2::Mmap>' in (c.get('self_ty') or ''):
            held = li.held_must_at(bb)
            clones.append((bb, ('data', 'X') in held))
    if not clones:
        res.append(bad(rule, '%s | map not cloned' % bf.qual, 'transaction begin does not clone the shared Arc<Mmap>', where='%s:%d' % (bf.file, bf.line)))
    for bb, under in clones:
        if under:
            res.append(ok(rule, 'Arc<Mmap> cloned at %s while the map lock is held' % bf.loc(bb), sites=1))
        else:
            res.append(bad(rule, '%s | map cloned outside the map lock' % bf.qual, 'the Arc<Mmap> is cloned at %s without holding DBInner.data' % bf.loc(bb), where=bf.loc(bb)))
    # no pointer derived from the mapped bytes is cast to *mut / &mut
    ncast = 0
    for fn in F.fns:
        du2 = None
        for bb in fn.reachable_blocks():
            for si, s in enumerate(fn.blocks[bb]['stmts']):
                if s['k'] != 'assign' or s['rv']['k'] != 'cast':
                    continue
                to = s['rv']['to']
                if not (to.startswith('*mut') or to.startswith('&mut')):
                    continue
                ncast += 1
                du2 = du2 or ctx.du(fn)
                _, atoms = du2.slice_operand(s['rv']['op'])
                for a in atoms:
                    if a[0] == 'call' and a[2] in ('std::ops::Deref::deref', 'std::ops::Index::index'):
                        ct = fn.term(a[1])
                        cc = callee_of(ct)
                        if cc and ('memmap2::Mmap' in (cc.get('self_ty') or '')):
                            # a view of the map that is only measured (`self.pages.data.len()`) is no pointer into it: the flow-insensitive slice of a cast elsewhere in
                            # the function picks the call up all the same
                            only_len = _only_measured(fn, ct['dest']['l'])
                            if only_len:
                                continue
                            res.append(bad(rule, '%s | mutable pointer into the map' % fn.qual,
                                           'a pointer derived from the mapped file is cast to `%s` at %s: mapped pages must never be written through memory' % (to, fn.loc(bb, si)),
                                           where=fn.loc(bb, si)))
    ctx.stats['mut_pointer_casts'] = ncast
    if not any(not r.ok and 'mutable pointer' in r.key for r in res):
        res.append(ok(rule, 'none of the %d casts to *mut/&mut takes a pointer derived from the mapped file' % ncast, sites=ncast))
    return res


def snapshot_fixed(ctx, rule='C03.snapshot-fixed'):
    """what a transaction pins -- its header copy, root view, map and free-list copy (the fields of TxInner) -- is set when the transaction is built and replaced only by
    the commit, which consumes the transaction: any other function that stores into those fields moves a live transaction (and every handle or byte slice borrowed
    from it) to another snapshot"""
    res = []
    F = ctx.facts
    try:
        (commit_fn,) = ctx.need('Tx::commit')
    except AnchorError as e:
        return [unresolved(rule, str(e))]
    if not (commit_fn.locals[1]['ty'].startswith('tx::Tx<') if commit_fn.argc >= 1 else False):
        res.append(bad(rule, '%s | commit does not consume the transaction' % commit_fn.qual,
                       'Tx::commit takes `%s`, not the transaction by value: handles borrowed from it survive a commit that replaces its snapshot' % commit_fn.locals[1]['ty'],
                       where='%s:%d' % (commit_fn.file, commit_fn.line)))
    allowed = set(F.reachable_fns([commit_fn]))
    n = 0
    for fn in sorted(F.fns, key=lambda f: f.path):
        hits = []
        for bb in sorted(fn.reachable_blocks()):
            for si, st in enumerate(fn.blocks[bb]['stmts']):
                if st['k'] != 'assign':
                    continue
                fs = [e for e in st['p']['pr'] if e['k'] == 'field']
                if fs and fs[0].get('adt') and last_seg(fs[0]['adt']) == 'TxInner':
                    hits.append((fn.loc(bb, si), '.'.join(str(e.get('name')) for e in fs)))
        if not hits:
            continue
        n += len(hits)
        root = fn
        while root.kind == 'Closure' and root.owner is not None:
            root = root.owner
        if root in allowed:
            res.append(ok(rule, '%s stores %s as part of the commit' % (fn.qual, ', '.join(sorted({h[1] for h in hits}))), sites=len(hits)))
        else:
            res.append(bad(rule, '%s | replaces the snapshot of a live transaction (%s)' % (fn.qual, ','.join(sorted({h[1] for h in hits}))),
                           '%s stores TxInner.%s at %s outside the commit: the transaction -- and everything still borrowed from it -- is moved to another snapshot while '
                           'it is open' % (fn.qual, hits[0][1], hits[0][0]), where=hits[0][0]))
    f = floor(rule, 'stores into the fields of TxInner', n, 2)
    if f:
        res.append(f)
    return res


def snapshot_private(ctx, rule='C03.snapshot-private'):
    """between its begin and its end a transaction consults nothing that other transactions can change: the shared state of the handle (the locks, atomics and cells of
    DBInner) is touched only by begin, commit, the transaction's destructor and open.  A read entry point (get_bucket, get, cursors ...) that locks a DBInner field reads a
    cache or index another transaction may have filled from a different snapshot"""
    import re, c06
    res = []
    F = ctx.facts
    try:
        dbopen, cm, op = ctx.need('DBInner::open', 'Tx::commit', 'OpenOptions::open')
        begin = ctx.need('begin-role')[0]
    except AnchorError as e:
        return [unresolved(rule, str(e))]
    fields = {f['name']: f['ty'] for f in (F.adt_fields('DBInner') or [])}
    shared = {n for n, ty in fields.items() if ty.startswith(('std::sync::Mutex<', 'std::sync::RwLock<')) or 'Atomic' in ty or 'Cell<' in ty}
    f0 = floor(rule, 'lock / atomic / cell fields of DBInner', len(shared), 5)
    if f0:
        return [f0]
    ACQ = re.compile(r'(Mutex::lock|Mutex::try_lock|RwLock::read|RwLock::write|RwLock::try_read|RwLock::try_write|atomic::Atomic\w*::\w+|cell::(Ref)?Cell::\w+)$')
    touch = {}
    nsites = 0
    for f in F.fns:
        du = None
        for bb in f.reachable_blocks():
            t = f.term(bb)
            c = callee_of(t) if t['k'] in ('call', 'tailcall') else None
            if not c or not t['args'] or not ACQ.search(strip_generics(c['path'])):
                continue
            du = du or ctx.du(f)
            _, atoms = du.slice_operand(t['args'][0])
            flds = sorted({fld for (adt, fld) in du.fields_in(atoms) if last_seg(adt) == 'DBInner' and fld in shared})
            if flds:
                nsites += 1
                owner = (f.owner or f) if f.kind == 'Closure' else f
                touch.setdefault(owner, []).append((f.loc(bb), flds[0]))
    f0 = floor(rule, 'acquisitions of shared DBInner state in the crate', nsites, 8)
    if f0:
        res.append(f0)
    drops = {g for g in F.fns if g.trait and g.trait.endswith('Drop') and g.name == 'drop'}
    cut = {begin, cm, op, dbopen} | drops
    cg = F.callgraph()
    nentries = 0
    seen = set()
    for e in F.fns:
        # (entries are the methods of what a client holds *inside* a transaction: Tx, buckets, cursors, iterators; DB-level calls such as a statistics getter are no transaction's view)
        if e.kind == 'Closure' or not e.eff_pub or e in cut or not (e.self_adt and last_seg(e.self_adt) in c06.CARRIERS):
            continue
        nentries += 1
        reach, todo = {e}, [e]
        while todo:
            x = todo.pop()
            for y in cg.get(x, ()):
                if y not in reach and y not in cut:
                    reach.add(y)
                    todo.append(y)
        for g in sorted(reach, key=lambda h: h.path):
            for loc, fld in touch.get(g, ()):
                if (g.path, fld) in seen:
                    continue
                seen.add((g.path, fld))
                res.append(bad(rule, '%s | consults DBInner.%s inside a transaction' % (g.qual, fld),
                               '%s (reachable from the public %s without passing begin, commit, open or a destructor) acquires the shared field DBInner.%s at %s: what a transaction '
                               'sees then depends on what other transactions did to that field since it began' % (g.qual, e.qual, fld, loc), where=loc))
    if not any(not r.ok for r in res):
        res.append(ok(rule, 'shared DBInner state (%d acquisitions) is touched only from begin, commit, open and destructors; %d public entries examined' % (nsites, nentries), sites=nsites))
    return res


def run(ctx, tier):
    results = []
    results += release_bound(ctx)
    results += release_sites(ctx)
    results += register(ctx)
    results += sorted_registry(ctx)
    results += deregister_only_own(ctx)
    results += private_map(ctx)
    results += map_bytes_via_view(ctx)
    results += snapshot_fixed(ctx)
    results += snapshot_private(ctx)
    import c04
    results += c04.atomic_begin(ctx, rule='C03.atomic-begin')
    import c13
    results += c13.file_lock_clauses(ctx, 'C03')
    import c10
    results += c10.release_per_entry(ctx, rule='C03.release-per-entry')
    results += c10.blocking_registry(ctx, rule='C03.blocking-registry')
    results += c02.cow_free_set(ctx, rule='C03.cow.free-set')
    results += c02.pending_key(ctx, rule='C03.pending-key')
    import c06
    results += c06.shared_freelist(ctx, rule='C03.shared-freelist')
    # pages a reader can still reach are never overwritten: data writes go only to pages the transaction allocated, and every view of a transaction hangs off its own header copy
    results += renamed(c02.cow_write_set(ctx), 'C02', 'C03')
    import c07
    results += c07.single_root(ctx, rule='C03.single-root')
    # once the new header is on disk it is what readers begin from; if the commit can then leave without publishing its free list, the next writer allocates from the old
    # list -- pages of the snapshot those readers are looking at
    import commit
    results += commit.obligations(ctx)['O5']
    # a writer works from the free list and the map as the previous commit left them: both are copied behind the writer lock
    results += c09.writer_reads_after_lock(ctx, rule='C03.writer-snapshot')
    return dict(
        results=results, stats=dict(ctx.stats),
        explanation=(
            'Decides the bookkeeping clauses that pin a reader\'s snapshot, for all histories: (release-bound, release-site) pending pages are released only when a writer begins, with a bound read from (or tested against) the '
            'open-reader registry inside its critical section, and that bound is the OLDEST registered reader; (register) every successful read-only begin inserts exactly the tx_id of the Meta it keeps, writers '
            'never register; (sorted-registry) the registry is mutated only by order-preserving single-element operations and every push is followed by a sort; '
            '(deregister-only-own) Drop removes, for read-only transactions only, the one entry found by searching for its own id; (private-map) every transaction owns an '
            'Arc of an immutable map cloned under the map lock and no pointer into the map is ever made mutable; plus the free-set discipline shared with C02; (cow.write-set) data writes go only to pages the transaction allocated; (single-root, snapshot-fixed) every view hangs off the transaction\'s own header copy and the fields of TxInner are stored only by the commit, which consumes the transaction. (snapshot-private) methods of a transaction\'s handles never acquire the locks / atomics / cells of DBInner. NOT decided: '
            'the comparison inside release, reuse arithmetic, monotonicity of ids.'),
        assumptions=['transaction ids are monotone (run-time argument)', 'memmap2::Mmap is a read-only MAP_SHARED mapping'])
