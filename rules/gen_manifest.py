#!/usr/bin/env python3
"""writes /verif/MANIFEST.json from the table below (kept in one place so it is always schema-valid)"""
import json, os
VERIF = os.path.dirname(os.path.dirname(os.path.abspath(__file__)))
BASELINE = "cd /repo && cargo nextest run --workspace --no-fail-fast --tool-config-file pb:/w/lib/nextest.toml --profile pb --test-threads 8 --offline || cargo test --workspace --no-fail-fast --offline"

CLAIMS = {}
NA = {}


def claim(pid, text, note, technique, design):
    CLAIMS[pid] = dict(text=text, note=note, technique=technique, design=design)


def na(pid, reason):
    NA[pid] = reason


exec(open(os.path.join(os.path.dirname(os.path.abspath(__file__)), 'claims.py')).read())

checks = []
for pid in sorted(CLAIMS):
    c = CLAIMS[pid]
    checks.append(dict(
        property_id=pid,
        quick_cmd='./check %s --tier quick' % pid,
        thorough_cmd='./check %s --tier thorough' % pid,
        evidence_file='/verif/evidence/%s.json' % pid,
        replay_cmd_template='./check %s --replay {path}' % pid,
        engine='jammlint+rules' + ('+witness' if pid == 'C14' else ''),
        level_claimed=dict(category='other', text=c['text'], design_ref=c['design']),
        level_note=c['note'],
        technique=c['technique'],
    ))
m = dict(
    version=1,
    setup_cmd='sh ./setup.sh',
    hooks=dict(guard='jammdb_verif', enable='none needed: nothing is executed or instrumented; checks analyse /repo with `cargo +nightly check` through the jammlint driver',
               baseline_off_cmd=BASELINE, source_commits=[], add_only=True),
    engines=[
        dict(name='jammlint+rules', path='/verif/jammlint + /verif/rules', serves_properties=sorted(CLAIMS),
             kind_free_text='static analysis: rustc_private MIR/type/layout exporter + Python rule evaluators (path, dominance, dataflow, lockset, effect, table rules)'),
        dict(name='witness', path='/verif/witness', serves_properties=['C14'] if 'C14' in CLAIMS else [],
             kind_free_text='compile-fail witness corpus with compiling twins, type-checked (never executed) against the current tree'),
    ],
    checks=checks,
    notes='Static analysis only. Every claim is at clause level (category "other"): the rule instances decide structural necessary conditions of the property for all inputs/schedules/crash points at once; the behaviour as a whole is not decided. See DESIGN.md.',
    not_applicable=[dict(property_id=p, reason=r) for p, r in sorted(NA.items())],
)
json.dump(m, open(os.path.join(VERIF, 'MANIFEST.json'), 'w'), indent=1)
print('MANIFEST.json: %d checks, %d not applicable' % (len(checks), len(NA)))
