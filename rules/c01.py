"""C01 Committed data reads back exactly as a reference ordered map would (structural clauses only)

Equivalence with a reference map over all histories is a statement about run-time values and is NOT decided.  What is decided is the
conjunction of the structural clauses the equivalence depends on: two clauses of its own (which error kind each operation can report; the
insertion counter moves exactly on the not-found arm of the tree search) and the clauses of the tree / overlay / iteration / reuse
properties (C05-C08, C10, C15) it is built on, under C01's name."""
from core import ok, bad, unresolved, floor, R, renamed
from anchors import AnchorError
from facts import callee_of, op_local, op_place, last_seg, strip_generics
from reach import reach_specialised, pruned_blocks
from util import stores_to_field, calls_named, search_flag_locals
import c05, c06, c07, c08, c02

# which error kinds each operation must be able to report, and which it must never report (reference semantics of a nested ordered map, README / docs):
#   put on a name that is a bucket -> IncompatibleValue; delete of an absent key -> KeyValueMissing; get_bucket of an absent name -> BucketMissing;
#   create_bucket of an existing name -> BucketExists; a key/value where a bucket is expected (or the reverse) -> IncompatibleValue.
ERROR_TABLE = {
    # operation: (kinds it must be able to report, kinds it must never report).  The "never" lists leave out kinds whose exclusion rests on the
    # constant-specialisation of a mode parameter (get_bucket cannot report BucketExists only because it passes must_create = false): a refactoring
    # of that parameter (two bools -> an enum compared with ==) would otherwise raise a false alarm.
    'put': (('IncompatibleValue',), ('KeyValueMissing', 'BucketMissing', 'BucketExists')),
    'delete': (('KeyValueMissing', 'IncompatibleValue'), ('BucketMissing', 'BucketExists')),
    'get_bucket': (('BucketMissing', 'IncompatibleValue'), ('KeyValueMissing', 'ReadOnlyTx')),
    'create_bucket': (('BucketExists', 'IncompatibleValue'), ('KeyValueMissing',)),
    'get_or_create_bucket': (('IncompatibleValue',), ('KeyValueMissing',)),
    'delete_bucket': (('BucketMissing', 'IncompatibleValue'), ('KeyValueMissing',)),
}


def error_table(ctx, rule='C01.error-table'):
    """constant-bool specialised reachability from each public operation to the places where a value of the crate's error enum is built"""
    res = []
    F = ctx.facts
    n = 0
    for m in sorted(F.fns, key=lambda f: f.path):
        if m.kind == 'Closure' or not m.eff_pub or m.trait:
            continue
        st = m.self_adt and last_seg(m.self_adt)
        if st not in ('Tx', 'Bucket') or m.name not in ERROR_TABLE:
            continue
        n += 1
        live = {}
        reach_specialised(F, m, live_out=live)
        got = set()
        for g, blocks in live.items():
            for bb, v in c06._error_origins(g).items():
                if bb in blocks:
                    got.add(v)
        need, never = ERROR_TABLE[m.name]
        miss = [v for v in need if v not in got]
        extra = [v for v in never if v in got]
        if miss:
            res.append(bad(rule, '%s | cannot report %s' % (m.qual, ','.join(miss)),
                           '%s can no longer report %s (reachable error kinds: %s): the reference map reports that kind for this operation, so a call that must fail '
                           'now succeeds or fails differently' % (m.qual, ', '.join(miss), ', '.join(sorted(got))), where='%s:%d' % (m.file, m.line)))
        if extra:
            res.append(bad(rule, '%s | can report %s' % (m.qual, ','.join(extra)),
                           '%s can report %s, which the reference map never reports for this operation (reachable error kinds: %s)' % (m.qual, ', '.join(extra), ', '.join(sorted(got))),
                           where='%s:%d' % (m.file, m.line)))
        if not miss and not extra:
            res.append(ok(rule, '%s reports exactly the expected error kinds (%s)' % (m.qual, ', '.join(sorted(got))), sites=len(got)))
    f = floor(rule, 'public operations with an entry in the error table', n, 10)
    if f:
        res.append(f)
    return res


def counter(ctx, rule='C01.counter'):
    """the per-bucket insertion counter (BucketMeta.next_int) moves by exactly one, and only on the not-found arm of the tree search: an overwrite or a
    lookup of an existing bucket must not move it, an insertion must"""
    res = []
    F = ctx.facts
    sr = c07._search_role(ctx)
    if sr is None:
        return [unresolved(rule, 'search role')]
    n = 0
    # a bump written in a private helper is judged where the helper is folded into its callers (the not-found test sits in the caller); only what no view covers is
    # judged as it stands
    keep = ctx.keep_set()
    order = [(f, ctx.x(f)) for f in sorted(F.fns, key=lambda f: f.path) if f.kind != 'Closure' and f in keep] + \
            [(f, f) for f in sorted(F.fns, key=lambda f: f.path) if f.kind != 'Closure' and f not in keep]
    covered = set()
    for raw, fn in order:
        du = None
        for bb in sorted(fn.reachable_blocks()):
            if fn is raw and raw not in keep and ctx.origin(fn, bb) in covered:
                continue
            if fn is not raw or raw in keep:
                covered.add(ctx.origin(fn, bb))
            for si, st in enumerate(fn.blocks[bb]['stmts']):
                if st['k'] != 'assign':
                    continue
                fs = [e for e in st['p']['pr'] if e['k'] == 'field']
                if not fs or fs[-1].get('name') != 'next_int' or not fs[-1].get('adt') or last_seg(fs[-1]['adt']) != 'BucketMeta':
                    continue
                if st['rv']['k'] == 'agg' or (st['rv']['k'] == 'use' and st['rv']['op']['k'] == 'const'):
                    continue          # initialisation
                du = du or ctx.du(fn)
                e = du.sym(st['rv']['op']) if st['rv']['k'] == 'use' else ('?',)
                is_inc = e[0] == 'bin' and e[1] == 'Add' and any(x == ('const', 1) for x in e[2:]) and \
                    any(x[0] == 'field' and x[2] and x[2][-1] == 'next_int' for x in e[2:] if isinstance(x, tuple))
                if not is_inc:
                    # a plain copy of another counter (loading a bucket's meta) is not a bump
                    if e[0] == 'field' or e[0] == 'phi' or e[0] == 'arg':
                        continue
                    res.append(bad(rule, '%s | counter changed by something other than +1' % fn.qual,
                                   'BucketMeta.next_int is assigned `%s` at %s: the insertion counter may only move by one per new key' % (_short(e), fn.loc(bb, si)), where=fn.loc(bb, si)))
                    continue
                n += 1
                # control-dependent on the exact-match flag of a search, on its NOT-found side
                flag_locals = set()
                for cb, ct, cc in [(b2, t2, c2) for b2, t2, c2 in _calls_to(F, fn, sr)]:
                    flag_locals |= search_flag_locals(fn, ct)
                guarded = False
                for (a, sx) in fn.control_deps_transitive(bb):
                    at = fn.term(a)
                    if at['k'] != 'switch':
                        continue
                    locs, _ = du.slice_operand(at['discr'])
                    if not (locs & flag_locals):
                        continue
                    # which edge leads to the bump: the flag must be false there
                    from guards import resolve_bool
                    tg = dict((v, x) for v, x in at['targets'])
                    zero = tg.get(0, at['otherwise'])
                    on_zero = bb in fn.reach_from([zero], avoid={a}) and (bb not in fn.reach_from([at['otherwise']], avoid={a}) if 0 in tg else True)      # within one pass of an enclosing loop
                    inv = _negated(fn, du, at['discr'])
                    if (on_zero and not inv) or (not on_zero and inv):
                        guarded = True
                if not guarded:
                    # the flag may be tested through a value built from it (`found = if exists { Some(..) } else { None }; match found { .. }`)
                    from util import derived_flag_switches
                    for a, m in derived_flag_switches(fn, du, flag_locals).items():
                        falses = [x for x, fv in m.items() if fv is False]
                        trues = [x for x, fv in m.items() if fv is True]
                        if falses and trues and any(bb in fn.reach_from([x], avoid={a}) for x in falses) and not any(bb in fn.reach_from([x], avoid={a}) for x in trues):
                            guarded = True
                if guarded:
                    res.append(ok(rule, 'counter bumped at %s only on the not-found arm of the search' % fn.loc(bb, si), sites=1))
                else:
                    res.append(bad(rule, '%s | counter bumped outside the not-found arm' % fn.qual,
                                   'BucketMeta.next_int is incremented at %s on a path that is not the not-found arm of the tree search: overwriting an existing key (or opening an '
                                   'existing bucket) would move the insertion counter' % fn.loc(bb, si), where=fn.loc(bb, si)))
    f = floor(rule, 'increments of the insertion counter', n, 2)
    if f:
        res.append(f)
    return res


def _found_arm_successes(ctx, F, g, blocks, sr, mode_params=()):
    """[(test block, success-return blocks reachable from the found arm)] for the tests of the search's exact-match flag in g, restricted to the live blocks.
    A path that passes a test derived from one of the mode parameters which the constant specialisation could NOT decide (both sides live: `mode == Mode::Create`
    through a derived `eq` on a promoted constant) is not counted: it is undecided, not a violation."""
    import c03
    calls = [(b2, t2) for b2, t2, c2 in _calls_to(F, g, sr) if b2 in blocks]
    if not calls:
        return None
    du = ctx.du(g)
    flag_locals = set()
    for cb, ct in calls:
        flag_locals |= search_flag_locals(g, ct)
    oks = set(c03.ok_return_blocks(g, blocks))
    out = []
    dead = set(g.reachable_blocks()) - set(blocks)
    undecided = set()
    if mode_params:
        for a in sorted(blocks):
            at = g.term(a)
            if at['k'] != 'switch' or len([x for x in g.succ(a) if x in blocks and not g.blocks[x]['cleanup']]) < 2:
                continue
            locs, atoms = du.slice_operand(at['discr'])
            if (locs & set(mode_params)) or any(x[0] == 'arg' and x[1] in mode_params for x in atoms):
                if not (locs & flag_locals):
                    undecided.add(a)
    dead = dead | undecided
    for a in sorted(blocks):
        at = g.term(a)
        if at['k'] != 'switch':
            continue
        locs, _ = du.slice_operand(at['discr'])
        if not (locs & flag_locals):
            continue
        tg = dict((v, x) for v, x in at['targets'])
        if 0 not in tg:
            continue
        inv = _negated(g, du, at['discr'])
        found = tg[0] if inv else at['otherwise']
        # on the found arm, a later test of a value BUILT from the flag (`found = if exists { Some(..) } else { None }`) cannot take its not-found edges
        from util import derived_flag_switches
        cut = set()
        for a2, m in derived_flag_switches(g, du, flag_locals).items():
            for x, fv in m.items():
                if fv is False:
                    cut.add((a2, x))
        out.append((a, g.reach_from([found], avoid=dead | {a}, avoid_edges=cut) & oks))
    return out


def create_refuses_existing(ctx, rule='C01.create-refuses-existing'):
    """create_bucket on a name the tree search FINDS never returns success: with the mode parameters specialised to what create_bucket passes, no success return is
    reachable from the found arm of the search (the reference map reports BucketExists / IncompatibleValue there)"""
    res = []
    F = ctx.facts
    sr = c07._search_role(ctx)
    if sr is None:
        return [unresolved(rule, 'search role')]
    n = 0
    for m in sorted(F.fns, key=lambda f: f.path):
        if m.kind == 'Closure' or not m.eff_pub or m.trait or m.name != 'create_bucket':
            continue
        st = m.self_adt and last_seg(m.self_adt)
        if st not in ('Tx', 'Bucket'):
            continue
        live = {}
        prunes = {}
        reach_specialised(F, m, live_out=live, prune_out=prunes)
        for g0, blocks0 in sorted(live.items(), key=lambda kv: kv[0].path):
            if not g0.locals[0]['ty'].startswith('std::result::Result<'):
                continue
            # two sound over-approximations of what is reachable; either may prove the clause: the function as written (mode helpers such as `mode.must_create()` are
            # evaluated as calls on constants), and the function with its private helpers folded in (a found arm that hands the rest to a helper is still the found arm)
            mode_params = sorted({k for pr in prunes.get(g0, []) for k in pr})
            raw = _found_arm_successes(ctx, F, g0, blocks0, sr, mode_params)
            if raw is None:
                # the search may sit in a private helper of g0 (`self.locate(key)`): look at g0 with its helpers folded in
                gx = ctx.x(g0)
                if gx is g0 or not mode_params or not _calls_to(F, gx, sr):
                    continue        # (only the function that receives the mode constants is judged: its callers see them as literals, not as parameters)
                bl = set()
                for pr in prunes.get(g0, [{}]):
                    bl |= set(pruned_blocks(gx, pr, F))
                raw = _found_arm_successes(ctx, F, gx, bl, sr, mode_params)
                if raw is None:
                    continue
                g0v = gx
            else:
                g0v = g0
            verdicts = [('as written', g0v, raw)]
            if any(hit for a, hit in raw):
                g = ctx.x(g0)
                blocks = set()
                for pr in prunes.get(g0, [{}]):
                    blocks |= set(pruned_blocks(g, pr, F))
                fx = _found_arm_successes(ctx, F, g, blocks, sr, mode_params)
                if fx is not None:
                    verdicts.append(('helpers folded', g, fx))
            proved = [v for v in verdicts if v[2] and not any(hit for a, hit in v[2])]
            n += len(verdicts[0][2])
            if proved:
                how, g, lst = proved[0]
                res.append(ok(rule, '%s via %s (%s): no success return on the found arm of the search (test at %s)' % (m.qual, g0.qual, how, ', '.join(g.loc(a) for a, _ in lst)), sites=len(lst)))
            else:
                how, g, lst = verdicts[-1]
                a, hit = [(a, hit) for a, hit in lst if hit][0]
                res.append(bad(rule, '%s | success reachable from the found arm (via %s)' % (m.qual, g0.qual),
                               '%s, specialised to what %s passes, can return success at %s on the arm where the tree search found the name (test at %s): creating a bucket that already '
                               'exists must fail with BucketExists (IncompatibleValue if the name holds a value)' % (g0.qual, m.qual, g.loc(sorted(hit)[0]), g.loc(a)), where=g.loc(a)))
    f = floor(rule, 'found-arm tests of the tree search under create_bucket', n, 2)
    if f:
        res.append(f)
    return res


def rebalance_gates(ctx, rule='C01.rebalance-gates'):
    """the merge pass of commit (emptied and underfull nodes are merged or dropped before the tree is written) runs for every bucket the commit visits; if a flag
    gates it, that flag is raised at EVERY site that takes an element out of a node -- a removal that leaves the flag down leaves an empty node in the tree, and
    writing an empty node panics"""
    from effects import effects_on, REMOVING
    res = []
    F = ctx.facts
    try:
        (rb,) = ctx.need('rebalance-role')
    except AnchorError as e:
        return [unresolved(rule, str(e))]
    passes = [(bb, t, target) for bb, t, target, c in F.call_sites(rb)
              if target is not None and target is not rb and target.self_adt and last_seg(target.self_adt) == 'InnerBucket' and target.kind != 'Closure'
              and any('TxFreelist' in l['ty'] for l in target.locals[1:target.argc + 1])]
    f = floor(rule, 'calls of the merge pass in the rebalance step', len(passes), 1)
    if f:
        return [f]
    du = ctx.du(rb)
    # element-removal primitives of Node, and the InnerBucket functions that use them
    removers = [g for g in F.fns if g.self_adt and last_seg(g.self_adt) == 'Node' and g.kind != 'Closure' and (effects_on(F, g, 'Node', 'data') | effects_on(F, g, 'NodeData', '0')) & REMOVING]
    users = []
    for g in F.fns:
        root = g
        while root.kind == 'Closure' and root.owner is not None:
            root = root.owner
        if not (root.self_adt and last_seg(root.self_adt) == 'InnerBucket') or root is rb or root in [p[2] for p in passes]:
            continue
        if any(target in removers for bb, t, target, c in F.call_sites(g) if target is not None):
            if root not in users:
                users.append(root)
    for bb, t, target in passes:
        flags = set()
        for (a, sx) in rb.control_deps_transitive(bb):
            at = rb.term(a)
            if at['k'] != 'switch':
                continue
            _, da = du.slice_operand(at['discr'])
            for x in da:
                if x[0] == 'field' and x[1] and last_seg(x[1]) == 'InnerBucket':
                    fld = [fl for fl in (F.adt_fields('InnerBucket') or []) if fl['name'] == x[2]]
                    if fld and fld[0]['ty'] == 'bool':
                        flags.add(x[2])
        if not flags:
            res.append(ok(rule, 'the merge pass %s at %s is not gated by any flag of the bucket' % (target.qual, rb.loc(bb)), sites=1))
            continue
        for fl in sorted(flags):
            missing = []
            for u in users:
                sets = False
                for g in [u] + [h for h in F.fns if h.kind == 'Closure' and h.owner is u]:
                    for b2, si, st in stores_to_field(g, 'InnerBucket', fl):
                        if st['rv']['k'] == 'use' and st['rv']['op']['k'] == 'const' and st['rv']['op']['c'].get('val') == 1:
                            sets = True
                if not sets:
                    missing.append(u)
            if missing:
                res.append(bad(rule, '%s | merge pass gated by InnerBucket.%s, which %s does not raise' % (rb.qual, fl, ','.join(m.qual for m in missing)),
                               'the merge pass (%s at %s) runs only when InnerBucket.%s is set, but %s takes elements out of nodes without setting it: a node it empties stays '
                               'in the tree and the commit that writes it panics' % (target.qual, rb.loc(bb), fl, ', '.join(m.qual for m in missing)), where=rb.loc(bb)))
            else:
                res.append(ok(rule, 'the merge pass is gated by InnerBucket.%s, which all %d element-removing functions raise' % (fl, len(users)), sites=len(users)))
    f = floor(rule, 'InnerBucket functions that remove elements from nodes', len(users), 1)
    if f:
        res.append(f)
    return res


def root_loaded(ctx, rule='C01.root-loaded'):
    """the write-out of a bucket starts from the node of its root page (`page_node_ids[root_page]`, an indexing that panics when absent): whenever the rebalance
    step moves the root to another page (root collapse), it materialises that page before it returns -- the page may be one the transaction never touched"""
    res = []
    F = ctx.facts
    try:
        rb, mat = ctx.need('rebalance-role', 'materialise')
    except AnchorError as e:
        return [unresolved(rule, str(e))]
    sp = ctx.A.get('spill-role')
    n = 0
    for g in sorted(F.reachable_fns([rb]), key=lambda f: f.path):
        if g is sp or g is mat or g.kind == 'Closure':
            continue
        if not (g.self_adt and last_seg(g.self_adt) == 'InnerBucket'):
            continue
        du = None
        for bb, si, st in stores_to_field(g, 'BucketMeta', 'root_page'):
            fs = [e for e in st['p']['pr'] if e['k'] == 'field']
            if len(fs) < 2 or not fs[-2].get('adt') or last_seg(fs[-2]['adt']) != 'InnerBucket':
                continue
            if st['rv']['k'] != 'use':
                continue
            n += 1
            du = du or ctx.du(g)
            l1, _ = du.slice_operand(st['rv']['op'])
            loads = set()
            for cb, ct, cc in _calls_to(F, g, mat):
                l2, _ = du.slice_operand(ct['args'][1]) if len(ct['args']) > 1 else (set(), None)
                if {x for x in (l1 & l2) if x > g.argc} and cb in g.reach_from([bb]):
                    loads.add(cb)
            exits = [b for b in g.reachable_blocks() if g.term(b)['k'] in ('return', 'tailcall')]
            free = g.reach_from([bb], avoid=loads)
            if loads and not (set(exits) & free):
                res.append(ok(rule, '%s: the page made root at %s is materialised (%s) on every path to the return' % (g.qual, g.loc(bb, si), ', '.join(g.loc(b) for b in sorted(loads))), sites=1))
            else:
                res.append(bad(rule, '%s | new root page not materialised' % g.qual,
                               '%s moves the bucket\'s root to another page at %s and can return without materialising it (%s): the write-out indexes page_node_ids by the root '
                               'page and panics when the transaction never touched that page' % (g.qual, g.loc(bb, si), 'no call of %s on that page id' % mat.qual if not loads else 'a path bypasses the call'),
                               where=g.loc(bb, si)))
    if n == 0:
        # (a root collapse that moves the child's content up into the root node never changes the root page: nothing to load)
        res.append(ok(rule, 'the rebalance step never moves the bucket root to another page', sites=0))
    return res


def carriers(ctx, rule='C01.carriers'):
    """what a read hands out is the stored pair, the right way round: every construction of the public key/value carrier takes the first component of its source
    (a leaf `Kv(k, v)`, a tuple) as the key and the second as the value; the constructor stores them in the fields of those names; `key()` / `value()` / `name()`
    return the field of their own name"""
    res = []
    F = ctx.facts
    n = 0
    kv = F.adt('KVPair')
    if not kv:
        return [unresolved(rule, 'type KVPair')]
    ctor = None
    for fn in sorted(F.fns, key=lambda f: f.path):
        if fn.is_test_fn() if hasattr(fn, 'is_test_fn') else False:
            continue
        du = None
        for bb, t, c in calls_named(F, fn, 'KVPair::new'):
            r = c.get('resolved') or c
            ctor = F.by_path.get(r['path']) or F.by_path.get(c['path']) or ctor
            du = du or ctx.du(fn)
            a = [du.sym(x) for x in t['args']]
            n += 1
            good = len(a) == 2 and a[0][0] == 'field' and a[1][0] == 'field' and a[0][1] == a[1][1] and a[0][2][:-1] == a[1][2][:-1] and a[0][2][-1] == '0' and a[1][2][-1] == '1'
            good = good or (len(a) == 2 and a[0][0] == 'arg' and a[1][0] == 'arg' and a[0][1] < a[1][1])
            if good:
                res.append(ok(rule, '%s builds the pair at %s from (.0, .1) of one source, in that order' % (fn.qual, fn.loc(bb)), sites=1))
            else:
                import c16
                res.append(bad(rule, '%s | pair not built as (first, second) of its source' % fn.qual,
                               '%s builds a key/value pair at %s from `%s` and `%s`: the key must be the first and the value the second component of one and the same source'
                               % (fn.qual, fn.loc(bb), c16._fmt(a[0])[:80] if a else '?', c16._fmt(a[1])[:80] if len(a) > 1 else '?'), where=fn.loc(bb)))
    # the constructor and the accessors
    for adt_name, table in (('KVPair', (('key', 1), ('value', 2))), ('BucketName', (('name', 1),))):
        for g in F.fns:
            if g.kind == 'Closure' or not g.self_adt or last_seg(g.self_adt) != adt_name:
                continue
            if g.name == 'new':
                for bb in sorted(g.reachable_blocks()):
                    for si, st in enumerate(g.blocks[bb]['stmts']):
                        if st['k'] == 'assign' and st['rv']['k'] == 'agg' and st['rv'].get('ak') == 'adt' and last_seg(st['rv'].get('adt') or '') == adt_name:
                            names = st['rv'].get('fields') or []
                            du = ctx.du(g)
                            for (fld, argi) in table:
                                if fld in names:
                                    n += 1
                                    e = du.sym(st['rv']['ops'][names.index(fld)])
                                    if e == ('arg', argi):
                                        res.append(ok(rule, '%s stores its %s parameter in field `%s`' % (g.qual, ['', 'first', 'second'][argi], fld), sites=1))
                                    else:
                                        res.append(bad(rule, '%s | field %s not from parameter %d' % (g.qual, fld, argi),
                                                       '%s stores something other than its %s parameter in field `%s`' % (g.qual, ['', 'first', 'second'][argi], fld), where=g.loc(bb, si)))
            for (fld, _) in table:
                if g.name == fld and g.argc == 1 and g.eff_pub:
                    n += 1
                    e = ctx.du(g).sym({'k': 'move', 'p': {'l': 0, 'pr': []}})
                    inner = e[2][0] if e[0] == 'call' and last_seg(strip_generics(e[1])) in ('as_ref', 'deref', 'as_slice', 'borrow') and e[2] else e
                    if inner[0] == 'field' and inner[1] == ('arg', 1) and inner[2] == (fld,):
                        res.append(ok(rule, '%s returns the field of its own name' % g.qual, sites=1))
                    else:
                        import c16
                        res.append(bad(rule, '%s | does not return its own field' % g.qual, '%s returns `%s`, not `self.%s`' % (g.qual, c16._fmt(e)[:100], fld), where='%s:%d' % (g.file, g.line)))
    f = floor(rule, 'carrier constructions, constructor fields and accessors', n, 8)
    if f:
        res.append(f)
    return res


def _calls_to(F, fn, target):
    from util import calls_to_fn
    return calls_to_fn(F, fn, target)


def _negated(fn, du, discr):
    """is the switch discriminant the negation of the value it is computed from?  (`if !exists`)"""
    e = du.sym(discr)
    return e[0] == 'un' and e[1] == 'Not'


def _short(e, depth=0):
    import c16
    return c16._fmt(e)


def _renamed(results, frm, to='C01'):
    return renamed(results, frm, to)


def run(ctx, tier):
    results = []
    results += error_table(ctx)
    results += counter(ctx)
    results += create_refuses_existing(ctx)
    results += rebalance_gates(ctx)
    results += root_loaded(ctx)
    results += carriers(ctx)
    import refcell
    results += refcell.no_reborrow(ctx, 'C01.no-reborrow')
    # the clauses of the properties C01 is built on
    results += c07.exact_match_used(ctx, rule='C01.exact-match-used')
    results += c07.position_from_search(ctx, rule='C01.position-from-search')
    results += c07.overlay_registered(ctx, rule='C01.overlay-registered')
    results += c07.overlay_first(ctx, rule='C01.overlay-first')
    results += c07.read_via_overlay(ctx, rule='C01.read-via-overlay')
    results += c07.reresolve(ctx, rule='C01.reresolve')
    results += c07.id_form_opaque(ctx, rule='C01.id-form-opaque')
    results += c07.single_root(ctx, rule='C01.single-root')
    results += c07.scan_skips_empty(ctx, rule='C01.scan-skips-empty')
    results += c08.bounds_total(ctx, rule='C01.bounds-total')
    results += c08.end_justified(ctx, rule='C01.end-justified')
    results += c08.end_checked(ctx, rule='C01.end-checked')
    results += c08.start_compare(ctx, rule='C01.start-compare')
    results += c08.no_underflow(ctx, rule='C01.no-underflow')
    results += c08.filter_total(ctx, rule='C01.filter-total')
    results += c08.seek_reset(ctx, rule='C01.seek-reset')
    results += c08.index_bounds(ctx, rule='C01.index-bounds')
    results += c08.stack_never_emptied(ctx, rule='C01.stack-never-emptied')
    results += c08.index_agreement(ctx, rule='C01.index-agreement')
    results += c08.key_order(ctx, rule='C01.key-order')
    results += c08.keys_as_bytes(ctx, rule='C01.keys-as-bytes')
    results += c08.iterator_overrides(ctx, rule='C01.iterator-overrides')
    results += c05.serialiser_total(ctx, rule='C01.serialiser-total')
    results += c05.reader_writer_tables(ctx, rule='C01.reader-writer-tables')
    results += c05.page_kinds(ctx, rule='C01.page-kinds')
    results += c05.run_length(ctx, rule='C01.run-length')
    results += c05.no_narrowing(ctx, rule='C01.no-narrowing')
    results += c05.freelist_order(ctx, rule='C01.freelist-order')
    results += c05.children_follow_data(ctx, rule='C01.children-follow-data')
    results += c05.parent_links_refreshed(ctx, rule='C01.parent-links-refreshed')
    results += c05.separator_refreshed(ctx, rule='C01.separator-refreshed')
    results += _renamed(c05.pointers(ctx), 'C05')
    results += c06.error_atomic(ctx, rule='C01.error-atomic')
    results += c06.guard(ctx, rule='C01.guard')
    results += c02.reload_rule(ctx, rule='C01.reload')
    # what a later transaction may allocate is decided by commits alone: a free list published from anywhere else makes live entries overwritable
    results += c06.shared_freelist(ctx, rule='C01.shared-freelist')
    import c16
    results += c16.grow(ctx, rule='C01.grow')
    import profile
    results += profile.debug_pure(ctx, 'C01.debug-pure')
    return dict(
        results=results, stats=dict(ctx.stats),
        explanation=(
            'Equivalence with a reference ordered map over all histories is a statement about run-time values (search indices, split points, page ids) and is NOT decided. '
            'Decided: (error-table) by constant-bool specialised reachability, each public operation can build exactly the error kinds the reference semantics asks of it '
            '(delete: KeyValueMissing / IncompatibleValue, get_bucket: BucketMissing / IncompatibleValue, create_bucket: BucketExists ..., and none of the kinds it must never report); '
            '(counter) the insertion counter moves by +1 only on the not-found arm of the tree search; plus, under C01\'s name, the structural clauses of the properties the '
            'equivalence is built on: overlay routing and registration, exact-match flag, cursor / range / filter clauses, serialiser and reader tables, page kinds, run lengths, '
            'create_bucket cannot succeed on the found arm of the search; a flag gating the merge pass is raised by every element-removing function; a root moved by the rebalance step is materialised; a right-merge refreshes the separator; growth proved sufficient; debug assertions are pure; header pointers, error atomicity of mutators, the writable guard, full reload of the free list.'),
        assumptions=['the error table in rules/c01.py (taken from the documented behaviour of the public API)'])
