"""C01 Committed data reads back exactly as a reference ordered map would (structural clauses only)

Equivalence with a reference map over all histories is a statement about run-time values and is NOT decided.  What is decided is the
conjunction of the structural clauses the equivalence depends on: two clauses of its own (which error kind each operation can report; the
insertion counter moves exactly on the not-found arm of the tree search) and the clauses of the tree / overlay / iteration / reuse
properties (C05-C08, C10, C15) it is built on, under C01's name."""
from core import ok, bad, unresolved, floor, R
from anchors import AnchorError
from facts import callee_of, op_local, op_place, last_seg, strip_generics
from reach import reach_specialised
import c05, c06, c07, c08, c02

# which error kinds each operation must be able to report, and which it must never report (reference semantics of a nested ordered map, README / docs):
#   put on a name that is a bucket -> IncompatibleValue; delete of an absent key -> KeyValueMissing; get_bucket of an absent name -> BucketMissing;
#   create_bucket of an existing name -> BucketExists; a key/value where a bucket is expected (or the reverse) -> IncompatibleValue.
ERROR_TABLE = {
    # operation: (kinds it must be able to report, kinds it must never report).  The "never" lists leave out kinds whose exclusion rests on the
    # constant-specialisation of a mode parameter (get_bucket cannot report BucketExists only because it passes must_create = false): a refactoring
    # of that parameter (two bools -> an enum compared with ==) would otherwise raise a false alarm.
    'put': (('IncompatibleValue',), ('KeyValueMissing', 'BucketMissing', 'BucketExists')),
    'delete': (('KeyValueMissing', 'IncompatibleValue'), ('BucketMissing', 'BucketExists')),
    'get_bucket': (('BucketMissing', 'IncompatibleValue'), ('KeyValueMissing', 'ReadOnlyTx')),
    'create_bucket': (('BucketExists', 'IncompatibleValue'), ('KeyValueMissing',)),
    'get_or_create_bucket': (('IncompatibleValue',), ('KeyValueMissing',)),
    'delete_bucket': (('BucketMissing', 'IncompatibleValue'), ('KeyValueMissing',)),
}


def error_table(ctx, rule='C01.error-table'):
    """constant-bool specialised reachability from each public operation to the places where a value of the crate's error enum is built"""
    res = []
    F = ctx.facts
    n = 0
    for m in sorted(F.fns, key=lambda f: f.path):
        if m.kind == 'Closure' or not m.eff_pub or m.trait:
            continue
        st = m.self_adt and last_seg(m.self_adt)
        if st not in ('Tx', 'Bucket') or m.name not in ERROR_TABLE:
            continue
        n += 1
        live = {}
        reach_specialised(F, m, live_out=live)
        got = set()
        for g, blocks in live.items():
            for bb, v in c06._error_origins(g).items():
                if bb in blocks:
                    got.add(v)
        need, never = ERROR_TABLE[m.name]
        miss = [v for v in need if v not in got]
        extra = [v for v in never if v in got]
        if miss:
            res.append(bad(rule, '%s | cannot report %s' % (m.qual, ','.join(miss)),
                           '%s can no longer report %s (reachable error kinds: %s): the reference map reports that kind for this operation, so a call that must fail '
                           'now succeeds or fails differently' % (m.qual, ', '.join(miss), ', '.join(sorted(got))), where='%s:%d' % (m.file, m.line)))
        if extra:
            res.append(bad(rule, '%s | can report %s' % (m.qual, ','.join(extra)),
                           '%s can report %s, which the reference map never reports for this operation (reachable error kinds: %s)' % (m.qual, ', '.join(extra), ', '.join(sorted(got))),
                           where='%s:%d' % (m.file, m.line)))
        if not miss and not extra:
            res.append(ok(rule, '%s reports exactly the expected error kinds (%s)' % (m.qual, ', '.join(sorted(got))), sites=len(got)))
    f = floor(rule, 'public operations with an entry in the error table', n, 10)
    if f:
        res.append(f)
    return res


def counter(ctx, rule='C01.counter'):
    """the per-bucket insertion counter (BucketMeta.next_int) moves by exactly one, and only on the not-found arm of the tree search: an overwrite or a
    lookup of an existing bucket must not move it, an insertion must"""
    res = []
    F = ctx.facts
    sr = c07._search_role(ctx)
    if sr is None:
        return [unresolved(rule, 'search role')]
    n = 0
    for fn in sorted(F.fns, key=lambda f: f.path):
        if fn.kind == 'Closure':
            continue
        du = None
        for bb in sorted(fn.reachable_blocks()):
            for si, st in enumerate(fn.blocks[bb]['stmts']):
                if st['k'] != 'assign':
                    continue
                fs = [e for e in st['p']['pr'] if e['k'] == 'field']
                if not fs or fs[-1].get('name') != 'next_int' or not fs[-1].get('adt') or last_seg(fs[-1]['adt']) != 'BucketMeta':
                    continue
                if st['rv']['k'] == 'agg' or (st['rv']['k'] == 'use' and st['rv']['op']['k'] == 'const'):
                    continue          # initialisation
                du = du or ctx.du(fn)
                e = du.sym(st['rv']['op']) if st['rv']['k'] == 'use' else ('?',)
                is_inc = e[0] == 'bin' and e[1] == 'Add' and any(x == ('const', 1) for x in e[2:]) and \
                    any(x[0] == 'field' and x[2] and x[2][-1] == 'next_int' for x in e[2:] if isinstance(x, tuple))
                if not is_inc:
                    # a plain copy of another counter (loading a bucket's meta) is not a bump
                    if e[0] == 'field' or e[0] == 'phi' or e[0] == 'arg':
                        continue
                    res.append(bad(rule, '%s | counter changed by something other than +1' % fn.qual,
                                   'BucketMeta.next_int is assigned `%s` at %s: the insertion counter may only move by one per new key' % (_short(e), fn.loc(bb, si)), where=fn.loc(bb, si)))
                    continue
                n += 1
                # control-dependent on the exact-match flag of a search, on its NOT-found side
                flag_locals = set()
                for cb, ct, cc in [(b2, t2, c2) for b2, t2, c2 in _calls_to(F, fn, sr)]:
                    d = ct['dest']['l']
                    for b3 in fn.reachable_blocks():
                        for s3 in fn.blocks[b3]['stmts']:
                            if s3['k'] == 'assign' and s3['rv']['k'] == 'use':
                                pl = op_place(s3['rv']['op'])
                                if pl is not None and pl['l'] == d and pl['pr'] and pl['pr'][0]['k'] == 'field' and str(pl['pr'][0].get('name')) == '0':
                                    flag_locals.add(s3['p']['l'])
                guarded = False
                for (a, sx) in fn.control_deps_transitive(bb):
                    at = fn.term(a)
                    if at['k'] != 'switch':
                        continue
                    locs, _ = du.slice_operand(at['discr'])
                    if not (locs & flag_locals):
                        continue
                    # which edge leads to the bump: the flag must be false there
                    from guards import resolve_bool
                    tg = dict((v, x) for v, x in at['targets'])
                    zero = tg.get(0, at['otherwise'])
                    on_zero = bb in fn.reach_from([zero]) and (bb not in fn.reach_from([at['otherwise']]) if 0 in tg else True)
                    inv = _negated(fn, du, at['discr'])
                    if (on_zero and not inv) or (not on_zero and inv):
                        guarded = True
                if guarded:
                    res.append(ok(rule, 'counter bumped at %s only on the not-found arm of the search' % fn.loc(bb, si), sites=1))
                else:
                    res.append(bad(rule, '%s | counter bumped outside the not-found arm' % fn.qual,
                                   'BucketMeta.next_int is incremented at %s on a path that is not the not-found arm of the tree search: overwriting an existing key (or opening an '
                                   'existing bucket) would move the insertion counter' % fn.loc(bb, si), where=fn.loc(bb, si)))
    f = floor(rule, 'increments of the insertion counter', n, 2)
    if f:
        res.append(f)
    return res


def _calls_to(F, fn, target):
    from util import calls_to_fn
    return calls_to_fn(F, fn, target)


def _negated(fn, du, discr):
    """is the switch discriminant the negation of the value it is computed from?  (`if !exists`)"""
    e = du.sym(discr)
    return e[0] == 'un' and e[1] == 'Not'


def _short(e, depth=0):
    import c16
    return c16._fmt(e)


def _renamed(results, frm):
    """results of another property's rule functions under C01's name"""
    out = []
    for r in results:
        nr = 'C01.' + r.rule.split('.', 1)[1] if r.rule.startswith(frm + '.') else r.rule
        out.append(R(nr, r.ok, key=r.key.replace(r.rule, nr, 1), msg=r.msg, where=r.where, path=r.path, sites=r.sites, detail=r.detail))
    return out


def run(ctx, tier):
    results = []
    results += error_table(ctx)
    results += counter(ctx)
    # the clauses of the properties C01 is built on
    results += c07.exact_match_used(ctx, rule='C01.exact-match-used')
    results += c07.overlay_registered(ctx, rule='C01.overlay-registered')
    results += c07.overlay_first(ctx, rule='C01.overlay-first')
    results += c07.read_via_overlay(ctx, rule='C01.read-via-overlay')
    results += c07.reresolve(ctx, rule='C01.reresolve')
    results += c07.single_root(ctx, rule='C01.single-root')
    results += c07.scan_skips_empty(ctx, rule='C01.scan-skips-empty')
    results += c08.bounds_total(ctx, rule='C01.bounds-total')
    results += c08.end_justified(ctx, rule='C01.end-justified')
    results += c08.end_checked(ctx, rule='C01.end-checked')
    results += c08.start_compare(ctx, rule='C01.start-compare')
    results += c08.no_underflow(ctx, rule='C01.no-underflow')
    results += c08.filter_total(ctx, rule='C01.filter-total')
    results += c08.seek_reset(ctx, rule='C01.seek-reset')
    results += c08.index_bounds(ctx, rule='C01.index-bounds')
    results += c08.stack_never_emptied(ctx, rule='C01.stack-never-emptied')
    results += c08.index_agreement(ctx, rule='C01.index-agreement')
    results += c05.serialiser_total(ctx, rule='C01.serialiser-total')
    results += c05.reader_writer_tables(ctx, rule='C01.reader-writer-tables')
    results += c05.page_kinds(ctx, rule='C01.page-kinds')
    results += c05.run_length(ctx, rule='C01.run-length')
    results += c05.parent_links_refreshed(ctx, rule='C01.parent-links-refreshed')
    results += _renamed(c05.pointers(ctx), 'C05')
    results += c06.error_atomic(ctx, rule='C01.error-atomic')
    results += c06.guard(ctx, rule='C01.guard')
    results += c02.reload_rule(ctx, rule='C01.reload')
    return dict(
        results=results, stats=dict(ctx.stats),
        explanation=(
            'Equivalence with a reference ordered map over all histories is a statement about run-time values (search indices, split points, page ids) and is NOT decided. '
            'Decided: (error-table) by constant-bool specialised reachability, each public operation can build exactly the error kinds the reference semantics asks of it '
            '(delete: KeyValueMissing / IncompatibleValue, get_bucket: BucketMissing / IncompatibleValue, create_bucket: BucketExists ..., and none of the kinds it must never report); '
            '(counter) the insertion counter moves by +1 only on the not-found arm of the tree search; plus, under C01\'s name, the structural clauses of the properties the '
            'equivalence is built on: overlay routing and registration, exact-match flag, cursor / range / filter clauses, serialiser and reader tables, page kinds, run lengths, '
            'header pointers, error atomicity of mutators, the writable guard, full reload of the free list.'),
        assumptions=['the error table in rules/c01.py (taken from the documented behaviour of the public API)'])
