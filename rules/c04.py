"""C04 Snapshot isolation holds under every thread schedule (lock-scope clauses)"""
from core import ok, bad, unresolved, floor
from anchors import AnchorError
from facts import callee_of, op_local, last_seg, strip_generics
from util import calls_to_fn, calls_named
import commit, c09, c03


def atomic_begin(ctx, rule='C04.atomic-begin'):
    """one exclusively held lock covers: the reader's header read (Rm), its registration (Rp) and the writer's release decision (Wd)"""
    res = []
    F = ctx.facts
    try:
        hdr, rel = ctx.need('DBInner::meta', 'release-role')
    except AnchorError as e:
        return [unresolved(rule, str(e))]
    bf, wp = c03.registry_scope(ctx)
    L = c09.locks_of(ctx)
    lr = L.info(bf, {wp: False})
    lw = L.info(bf, {wp: True})
    reach_hdr = {g for g in F.fns if hdr in F.reachable_fns([g])} | set(getattr(ctx.A, 'hdr_helpers', ()))
    Rm = [bb for bb, t, target, c in F.call_sites(bf) if bb in lr.reach and target is not None and target in reach_hdr]
    _, hs, _ = c03.registry_holders(ctx, bf, {wp: False})
    Rp = [bb for bb, t, n, m in c03.registry_calls(ctx, bf, hs) if m and n in ('push', 'insert') and bb in lr.reach]
    reach_rel = {g for g in F.fns if rel in F.reachable_fns([g])}
    Wd = [bb for bb, t, target, c in F.call_sites(bf) if bb in lw.reach and target is not None and target in reach_rel]
    for name, lst, mn in (('header reads on the reader begin path (Rm)', Rm, 1), ('registrations on the reader begin path (Rp)', Rp, 1),
                          ('release decisions on the writer begin path (Wd)', Wd, 1)):
        f = floor(rule, name, len(lst), mn)
        if f:
            res.append(f)
    if res:
        return res

    def excl(li, bb):
        return {n for (n, m) in li.held_must_at(bb) if m == 'X'}
    # the writer's release need not be inside the critical section (see c03.release_bound); its READ of the registry is, by construction (it goes through the guard)
    sets = [('Rm', bb, excl(lr, bb)) for bb in Rm] + [('Rp', bb, excl(lr, bb)) for bb in Rp]
    common = set.intersection(*[s for _, _, s in sets])
    ctx.stats['atomic_begin_sites'] = ['%s@%s holds %s' % (k, bf.loc(bb), sorted(s)) for k, bb, s in sets]
    gap = None
    if common:
        # ... under ONE acquisition: on no path from the header read to the registration is the lock given up and taken again
        for rm in Rm:
            fwd = bf.reach_from([rm])
            for rp in Rp:
                for b in sorted(fwd):
                    if b in lr.reach and rp in bf.reach_from([b], avoid={rm}) and b not in (rm,) and not (common & excl(lr, b)) and rp != b:
                        gap = gap or (rm, rp, b)
    if common and gap:
        res.append(bad(rule, '%s | registry lock released between the header read and the registration' % bf.qual,
                       'the reader reads its header at %s and registers at %s, both under %s, but at %s on the way the lock is not held: two commits in that window release and '
                       'overwrite the pages of the snapshot the reader has already chosen' % (bf.loc(gap[0]), bf.loc(gap[1]), sorted(common), bf.loc(gap[2])), where=bf.loc(gap[2])))
    elif common:
        res.append(ok(rule, 'header read, registration and release decision all happen under the exclusively held lock(s) %s' % sorted(common), sites=len(sets)))
    else:
        # name the site that breaks the intersection
        others = None
        worst = None
        for k, bb, s in sets:
            rest = [x for kk, bb2, x in sets if (kk, bb2) != (k, bb)]
            if rest and set.intersection(*rest):
                worst = (k, bb, s, set.intersection(*rest))
        if worst:
            k, bb, s, rest = worst
            what = {'Rm': 'the header read that chooses the reader\'s snapshot', 'Rp': 'the registration of the reader', 'Wd': 'the writer\'s release decision'}[k]
            res.append(bad(rule, '%s | %s outside %s' % (bf.qual, k, '/'.join(sorted(rest))),
                           '%s at %s is not inside the critical section of %s (it holds only %s) that covers the other two steps: a reader preempted between choosing its snapshot '
                           'and registering it can have that snapshot\'s pages released and overwritten by two intervening commits' % (what, bf.loc(bb), sorted(rest), sorted(s)),
                           where=bf.loc(bb), path=ctx.stats['atomic_begin_sites']))
        else:
            res.append(bad(rule, '%s | no common exclusive lock' % bf.qual,
                           'no single exclusively held lock covers the reader\'s header read, its registration and the writer\'s release decision: %s' % ctx.stats['atomic_begin_sites'],
                           where=bf.loc(sets[0][1]), path=ctx.stats['atomic_begin_sites']))
    # the header must be read exactly once on each begin path (reading it twice can mix two snapshots)
    for li, nm in ((lr, 'reader'), (lw, 'writer')):
        hs = [bb for bb, t, target, c in F.call_sites(bf) if bb in li.reach and target is not None and target in reach_hdr]
        if len(hs) > 1:
            res.append(bad(rule, '%s | header read %d times on the %s path' % (bf.qual, len(hs), nm),
                           'the %s begin path reads the header %d times (%s): two reads can return different commits' % (nm, len(hs), [bf.loc(b) for b in hs]), where=bf.loc(hs[1])))
    return res


def map_covers_snapshot(ctx, rule='C04.map-covers-snapshot'):
    """the map a reader works with covers every page of the header it chose.  Two independent arguments give that, and at least one must hold: (A) the
    commit replaces the shared map only while it holds, exclusively, the lock every open reader holds shared -- no remap during a reader's life; or
    (B) at begin the reader clones the map only after it has read the header -- its map is at least as new as its snapshot."""
    res = []
    F = ctx.facts
    try:
        hdr, rz = ctx.need('DBInner::meta', 'resize-role')
    except AnchorError as e:
        return [unresolved(rule, str(e))]
    bf, wp = c03.registry_scope(ctx)
    L = c09.locks_of(ctx)
    lr = L.info(bf, {wp: False})
    # locks the read-only begin path still holds, shared, when it returns
    kept = {n for (n, m) in lr.held_on_return() if m == 'S'}
    rzx = ctx.A.xf(rz)
    lz = L.info(rzx)
    slot = [bb for bb in sorted(rzx.reachable_blocks()) if any(n == 'data' and m == 'X' for (n, m) in lz.held_must_at(bb))]
    f = floor(rule, 'blocks of the remap function that hold the shared map slot', len(slot), 1)
    if f:
        return [f]
    a_locks = None
    for bb in slot:
        h = {n for (n, m) in lz.held_must_at(bb) if m == 'X' and n != 'data'}
        a_locks = h if a_locks is None else (a_locks & h)
    A = bool(a_locks & kept)
    reach_hdr = {g for g in F.fns if hdr in F.reachable_fns([g])} | set(getattr(ctx.A, 'hdr_helpers', ()))
    Rm = [bb for bb, t, target, c in F.call_sites(bf) if bb in lr.reach and target is not None and target in reach_hdr]
    clones = [bb for bb, t, c in calls_named(F, bf, 'Clone::clone') if 'Arc<memmap2::Mmap>' in (c.get('self_ty') or '') and bb in lr.reach]
    f = floor(rule, 'map clones on the reader begin path', len(clones), 1) or floor(rule, 'header reads on the reader begin path', len(Rm), 1)
    if f:
        return [f]
    B = all(any(bf.dominates(h, cb) for h in Rm) for cb in clones)
    ctx.stats['map_covers_snapshot'] = dict(reader_keeps_shared=sorted(kept), remap_holds_exclusive=sorted(a_locks), header_before_clone=B)
    if A or B:
        how = []
        if A:
            how.append('the remap in %s holds %s exclusively and every reader keeps it shared' % (rz.qual, sorted(a_locks & kept)))
        if B:
            how.append('begin clones the map (%s) only after the header read (%s)' % (', '.join(bf.loc(b) for b in clones), ', '.join(bf.loc(b) for b in Rm)))
        res.append(ok(rule, '; '.join(how), sites=len(slot) + len(clones)))
    else:
        res.append(bad(rule, '%s | reader\'s map can be older than its header' % bf.qual,
                       'nothing makes a reader\'s map cover its snapshot: the remap in %s holds %s exclusively while readers keep %s shared (no common lock), and begin clones the map at %s '
                       'before it reads the header at %s. A commit that grows the file between the two steps gives the reader a header whose pages lie beyond its map'
                       % (rz.qual, sorted(a_locks) or 'nothing', sorted(kept) or 'nothing', ', '.join(bf.loc(b) for b in clones), ', '.join(bf.loc(b) for b in Rm)),
                       where=bf.loc(clones[0])))
    return res


def run(ctx, tier):
    ob = commit.obligations(ctx)
    results = []
    results += atomic_begin(ctx)
    results += map_covers_snapshot(ctx)
    results += ob['O1'] + ob['O2'] + ob['O3'] + ob['O4'] + ob['O5']
    results += c09.writer_reads_after_lock(ctx, rule='C04.writer-snapshot')
    results += c03.sorted_registry(ctx, rule='C04.registry-discipline')
    results += c03.release_sites(ctx, rule='C04.release-site')
    results += c03.release_bound(ctx, rule='C04.release-bound')
    results += c03.register(ctx, rule='C04.register')
    results += c03.deregister_only_own(ctx, rule='C04.deregister-only-own')
    import c10
    results += c10.release_per_entry(ctx, rule='C04.release-per-entry')
    import c02
    results += c02.alternate_rule(ctx, rule='C04.alternate')
    results += c09.snapshot_source(ctx, rule='C04.snapshot-source')
    results += c03.snapshot_fixed(ctx, rule='C04.snapshot-fixed')
    results += c03.snapshot_private(ctx, rule='C04.snapshot-private')
    # what a transaction hands out cannot outlive it (the pages behind it are released when it ends): the signature rule of C14 over the whole public surface
    import c14
    from core import renamed
    results += renamed(c14.sig_rule(ctx), 'C14', 'C04')
    # pages an open reader can still reach stay pending: only a writer's begin moves them on, and nothing else rewrites the shared list
    import c06
    results += c06.shared_freelist(ctx, rule='C04.shared-freelist')
    results += c02.cow_free_set(ctx, rule='C04.cow.free-set')
    return dict(
        results=results, stats=dict(ctx.stats),
        explanation=(
            'Decides the lock-scope part of isolation for all schedules: (atomic-begin) a single exclusively held lock covers the reader\'s choice of snapshot (header read), its '
            'registration in the open-reader registry and the writer\'s decision which pending pages to release, and the header is read once per begin; (publish-order) data pages '
            'are written and synced before the header is written, nothing follows the header, and the shared free list changes only behind the header write (C02.O1-O3, C11.O4); '
            '(writer-snapshot) a writer reads header and free list only after it owns the writer lock; (registry-discipline, deregister-only-own) a reader stays registered exactly while it is open (shared with C03). (map-covers-snapshot) the remap holds exclusively a lock every reader keeps shared, or begin clones the map only after the header read; (snapshot-source, snapshot-fixed) the header comes from the mapped file only and a live transaction\'s snapshot fields are stored only by the commit. NOT decided: linearizability of what readers observe, coherence of write(2) '
            'with a MAP_SHARED mapping, fairness.'),
        assumptions=['std::sync::Mutex provides mutual exclusion and happens-before', 'write(2) to the file is coherent with MAP_SHARED mappings of it (Linux page cache)'])
