"""Intraprocedural data-flow helpers over exported MIR bodies.

 * DefUse: flow-insensitive, alias-aware dependence graph between locals, with "atoms" (call sites,
   field loads, constants, arguments) so that rules can ask "does this operand depend on X".
 * result_switch: for a call returning Result / Option-like values, the blocks reached on Ok / Err.
 * ret_kinds: which return paths of a function produce Ok(..) / Err(..).
"""
from collections import defaultdict, deque
from facts import (op_place, op_local, op_const, callee_of, callee_path, rvalue_operands, rvalue_places,
                   place_fields, strip_generics, last_seg)


class Atom(tuple):
    """('call', bb, callee_path) | ('field', adt, name) | ('const', value) | ('arg', index) | ('discr', adt)
       | ('bin', op) | ('cast', kind)"""
    __slots__ = ()


def _fpath(p):
    """field path of a place: tuple of field names (downcasts / indexing / derefs are transparent)"""
    return tuple(str(e.get('name')) for e in p['pr'] if e['k'] == 'field')


def _compatible(p, q):
    n = min(len(p), len(q))
    return p[:n] == q[:n]


class DefUse:
    """Flow-insensitive, field-sensitive dependence between places, with "atoms" (call sites, field loads, constants,
    arguments, operators) so that rules can ask "does this operand depend on X".

    Memory model: every local is a root region; a place is (root, field path).  A local that holds a reference to
    (part of) another local records that in `points[l]` = {(root, path)}; reads and writes through `(*l).f..` then
    address the pointee region.  A pointer whose target is unknown (parameters, call results) is its own region.
    A store `root.path = v` is a weak definition of every place whose path is prefix-compatible.  A call that
    receives a `&mut` / raw / interior-mutable pointer weakly defines the pointed-to region with the call and all its
    arguments."""

    def __init__(self, facts, fn):
        self.facts = facts
        self.fn = fn
        n = len(fn.locals)
        self.whole = [[] for _ in range(n)]        # local -> [(uses, atoms)] whole-local assignments
        self.pstores = defaultdict(list)           # root local -> [(path, uses, atoms)]
        self.points = [set() for _ in range(n)]    # local -> {(root, path)}
        self.defs = defaultdict(list)              # local -> [(bb, stmt_index or None)]
        self._memo = {}
        self._build()

    # ---- helpers
    def _region(self, l):
        return self.points[l] if self.points[l] else {(l, ())}

    def _place_cells(self, p):
        """memory cells {(root, path)} addressed by place p"""
        fp = _fpath(p)
        if any(e['k'] == 'deref' for e in p['pr']):
            # path components before the first deref select inside the pointer holder (rare); keep it simple:
            return {(r, rp + fp) for (r, rp) in self._region(p['l'])}
        return {(p['l'], fp)}

    def _place_uses(self, p, is_def=False):
        """(uses, atoms) read when evaluating place p as a value (or, for is_def, only its address part)"""
        uses, at = set(), set()
        deref = any(e['k'] == 'deref' for e in p['pr'])
        if not is_def:
            uses.add((p['l'], _fpath(p), deref))
        elif deref:
            uses.add((p['l'], (), 'addr'))
        for e in p['pr']:
            if e['k'] == 'index':
                uses.add((e['l'], (), False))
            if e['k'] == 'field' and not is_def:
                at.add(Atom(('field', e.get('adt'), e.get('name'))))
                if p['pr'] and p['pr'][0]['k'] == 'deref':
                    at.add(Atom(('load', e.get('adt'), e.get('name'), p['l'])))
        return uses, at

    def _op_uses(self, o):
        uses, at = set(), set()
        p = op_place(o)
        if p is not None:
            return self._place_uses(p)
        c = op_const(o)
        if c is not None:
            if 'val' in c:
                at.add(Atom(('const', c['val'])))
            elif 'fn' in c:
                at.add(Atom(('fnref', c['fn']['path'])))
            else:
                at.add(Atom(('const', c.get('s'))))
        return uses, at

    def _build(self):
        fn = self.fn
        assigns = []   # (dest_place, uses, atoms, src)
        for bb in sorted(fn.reachable_blocks()):
            b = fn.blocks[bb]
            for si, s in enumerate(b['stmts']):
                if s['k'] != 'assign':
                    continue
                rv = s['rv']
                uses, at = set(), set()
                for o in rvalue_operands(rv):
                    a, c = self._op_uses(o)
                    uses |= a
                    at |= c
                src = None
                k = rv['k']
                if k in ('ref', 'rawptr'):
                    # taking an address reads only the address computation; the pointee is read when dereferenced
                    a, c = self._place_uses(rv['p'], is_def=True)
                    uses |= a
                    at |= c
                    for e in rv['p']['pr']:
                        if e['k'] == 'field':
                            at.add(Atom(('field', e.get('adt'), e.get('name'))))
                            if rv['p']['pr'][0]['k'] == 'deref':
                                at.add(Atom(('load', e.get('adt'), e.get('name'), rv['p']['l'])))
                    src = ('ref', rv['p'])
                elif k == 'discr':
                    a, c = self._place_uses(rv['p'])
                    uses |= a
                    at |= c
                    at.add(Atom(('discr', rv.get('adt'))))
                elif k == 'bin':
                    at.add(Atom(('bin', rv['op'])))
                elif k == 'un':
                    at.add(Atom(('un', rv['op'])))
                elif k == 'cast':
                    at.add(Atom(('cast', rv['ck'])))
                    if op_place(rv['op']) is not None:
                        src = ('copy', op_place(rv['op']))
                elif k == 'use':
                    if op_place(rv['op']) is not None:
                        src = ('copy', op_place(rv['op']))
                elif k == 'agg':
                    src = ('agg', [op_place(o) for o in rv['ops']])
                assigns.append((s['p'], uses, at, src))
                self.defs[s['p']['l']].append((bb, si))
            t = b['term']
            if t['k'] in ('call', 'tailcall'):
                uses, at = set(), set()
                cal = callee_of(t)
                reborrow = cal is not None and _reborrow_like(cal) and len(t['args']) == 1 and op_place(t['args'][0]) is not None and not op_place(t['args'][0])['pr']
                for o in t['args']:
                    if reborrow:
                        # `&*x`, `x.borrow_mut()`, `guard.deref_mut()` ...: the result is another name for (part of) what the argument points to;
                        # only the pointer's identity is read, nothing behind it is read or written by the call itself
                        uses.add((op_place(o)['l'], (), 'addr'))
                        continue
                    a, c = self._op_uses(o)
                    uses |= a
                    at |= c
                a, c = self._op_uses(t['func'])
                uses |= a
                at.add(Atom(('call', bb, cal['path'] if cal else '?')))
                if t['k'] == 'call':
                    assigns.append((t['dest'], uses, at, ('call', [op_place(o) for o in t['args']])))
                    self.defs[t['dest']['l']].append((bb, None))
                if reborrow:
                    continue
                for o in t['args']:
                    p = op_place(o)
                    if p is None or p['pr']:
                        continue
                    ty = fn.locals[p['l']]['ty']
                    if ty.startswith('&mut') or ty.startswith('*mut') or (ty.startswith('&') and ('RefCell' in ty or 'Mutex<' in ty or 'RwLock<' in ty or 'Cell<' in ty)) \
                            or (not ty.startswith('&') and 'Mut<' in ty and "<'_" in ty and not ty.startswith('std::result::Result')):
                        assigns.append(({'l': p['l'], 'pr': [{'k': 'deref'}]}, uses, at, None))
        # points-to fixpoint
        changed = True
        rounds = 0
        while changed and rounds < 60:
            changed = False
            rounds += 1
            for dest, uses, at, src in assigns:
                if src is None or dest['pr']:
                    continue
                d = dest['l']
                new = set()
                if src[0] == 'ref':
                    new |= self._place_cells(src[1])
                elif src[0] == 'copy':
                    p = src[1]
                    if not any(e['k'] == 'deref' for e in p['pr']):
                        new |= self.points[p['l']]
                        if not self.points[p['l']] and p['pr'] and fn.locals[d]['ty'].startswith(('*const', '*mut')) and \
                                fn.locals[p['l']]['ty'].startswith(('std::boxed::Box<', 'std::ptr::NonNull<', 'std::ptr::Unique<')):
                            # the raw pointer taken out of an owning pointer (vec![..] / Box::new lowering): what is written through it is the box's content
                            new.add((p['l'], ()))
                elif src[0] in ('agg', 'call'):
                    dty = fn.locals[d]['ty']
                    if Prov.borrowing_ty(dty) or src[0] == 'agg':
                        for p in src[1]:
                            if p is not None and not p['pr']:
                                new |= self.points[p['l']]
                if len(new) > 12:
                    new = set(list(sorted(new, key=repr))[:12])
                if not new <= self.points[d]:
                    self.points[d] |= new
                    changed = True
        # record definitions
        for dest, uses, at, src in assigns:
            a, c = self._place_uses(dest, is_def=True)
            uses = uses | a
            at = at | c
            if not dest['pr']:
                self.whole[dest['l']].append((uses, at))
            else:
                for (r, path) in self._place_cells(dest):
                    self.pstores[r].append((path, uses, at))

    # ---- queries
    def _slice_uses(self, uses):
        seen = set()
        atoms = set()
        locs = set()
        todo = list(uses)
        while todo:
            u = todo.pop()
            if u in seen:
                continue
            seen.add(u)
            l, path, deref = u
            if deref != 'addr':
                locs.add(l)
            if 1 <= l <= self.fn.argc:
                atoms.add(Atom(('arg', l)))
            # the local's own value (pointer identity for deref reads)
            for (us, at) in self.whole[l]:
                atoms |= at
                for x in us:
                    if x not in seen:
                        todo.append(x)
            if deref == 'addr':
                # only the identity of the pointer matters (where it points), not what is stored there
                continue
            cells = {(r, rp + path) for (r, rp) in self._region(l)} if deref else {(l, path)}
            if not deref:
                # a pointer used as a value (passed on, copied): whoever receives it may read what it points to
                cells = {(l, path)} | {(r, rp) for (r, rp) in self.points[l]}
            for (r, full) in cells:
                locs.add(r)
                for (sp, us, at) in self.pstores.get(r, ()):
                    if _compatible(sp, full):
                        atoms |= at
                        for x in us:
                            if x not in seen:
                                todo.append(x)
                if r != l:
                    # the pointee root's own whole-value definitions
                    for (us, at) in self.whole[r]:
                        atoms |= at
                        for x in us:
                            if x not in seen:
                                todo.append(x)
                    if 1 <= r <= self.fn.argc:
                        atoms.add(Atom(('arg', r)))
        return locs, atoms

    def slice_local(self, l):
        key = ('L', l)
        if key not in self._memo:
            self._memo[key] = self._slice_uses({(l, (), False)})
        return self._memo[key]

    def slice_operand(self, o):
        p = op_place(o)
        if p is not None:
            return self.slice_place(p)
        uses, at = self._op_uses(o)
        return set(), set(at)

    def slice_place(self, p):
        # field-sensitive shortcut: `_t.i` where _t is defined once by a tuple / struct aggregate
        if p['pr'] and p['pr'][0]['k'] == 'field':
            ds = self.defs.get(p['l'], [])
            if len(ds) == 1 and ds[0][1] is not None:
                s = self.fn.blocks[ds[0][0]]['stmts'][ds[0][1]]
                rv = s['rv']
                if not s['p']['pr'] and rv['k'] == 'agg' and rv.get('ak') in ('tuple', 'adt') and p['pr'][0]['i'] < len(rv['ops']):
                    if rv.get('ak') == 'tuple' or len(rv.get('fields', [])) == len(rv['ops']):
                        rest = {'l': None}
                        if len(p['pr']) == 1:
                            return self.slice_operand(rv['ops'][p['pr'][0]['i']])
        uses, at = self._place_uses(p)
        locs, atoms = self._slice_uses(uses)
        return locs, atoms | at

    @staticmethod
    def calls_in(atoms):
        return {(a[1], a[2]) for a in atoms if a[0] == 'call'}

    @staticmethod
    def fields_in(atoms):
        return {(a[1], a[2]) for a in atoms if a[0] == 'field'}

    @staticmethod
    def consts_in(atoms):
        return {a[1] for a in atoms if a[0] == 'const'}

    @staticmethod
    def args_in(atoms):
        return {a[1] for a in atoms if a[0] == 'arg'}

    def roots_of(self, l, depth=0):
        """like root_of, but a local assigned in several places (`let x = if c { a } else { b }`) yields all its sources"""
        r = self.root_of(l)
        ds = self.defs.get(r, [])
        if len(ds) <= 1 or depth > 4:
            return {r}
        out = set()
        for bb, si in ds:
            if si is None:
                return {r}
            s = self.fn.blocks[bb]['stmts'][si]
            if s['p']['pr']:
                return {r}
            if s['rv']['k'] == 'use' and op_place(s['rv']['op']) is not None:
                p = op_place(s['rv']['op'])
            elif s['rv']['k'] in ('ref', 'rawptr'):
                p = s['rv']['p']
            else:
                return {r}
            if p['pr'] and not all(e['k'] == 'deref' for e in p['pr']):
                return {r}
            out |= self.roots_of(p['l'], depth + 1)
        return out

    def _success_defs(self, l):
        """definitions of l without the ones that only build a failure value (Err / None / Break, `?` residuals)"""
        ds = self.defs.get(l, [])
        if len(ds) <= 1:
            return ds
        out = []
        for bb, si in ds:
            if si is None:
                c = callee_of(self.fn.term(bb))
                if c and c['path'] == FROM_RESIDUAL:
                    continue
            else:
                s = self.fn.blocks[bb]['stmts'][si]
                if not s['p']['pr'] and s['rv']['k'] == 'agg' and s['rv'].get('variant') in ('Err', 'None', 'Break'):
                    continue
            out.append((bb, si))
        return out

    def trace_root(self, l, path=(), within=None):
        """follow a value back through single (success) definitions, looking through copies, identity-like calls, `?`, and -- unlike root_of -- through
        aggregates: a value stored into field f of a struct / tuple / Ok(..) and read back as `.f` is followed to what was stored.
        Returns (root local, remaining field path)."""
        path = list(path)
        seen = set()
        fn = self.fn
        for _ in range(60):
            key = (l, tuple(path))
            if key in seen:
                break
            seen.add(key)
            ds = self._success_defs(l)
            if within is not None and len(ds) > 1:
                ds = [d for d in ds if d[0] in within]      # only the definitions on the (constant-specialised) path of interest
            if len(ds) > 1:
                import json as _json
                if all(si is not None for _, si in ds):
                    if len({_json.dumps(fn.blocks[bb]['stmts'][si]['rv'], sort_keys=True) for bb, si in ds}) == 1 and not any(fn.blocks[bb]['stmts'][si]['p']['pr'] for bb, si in ds):
                        ds = ds[:1]
                elif all(si is None for _, si in ds):
                    if len({(callee_of(fn.term(bb)) or {}).get('path', '?') + repr([op_local(a) for a in fn.term(bb)['args']]) for bb, _ in ds}) == 1:
                        ds = ds[:1]
            if len(ds) != 1:
                break
            bb, si = ds[0]
            if si is None:
                t = fn.term(bb)
                c = callee_of(t)
                if c and (_identity_like(c) or c['path'] == TRY_BRANCH) and t['args'] and op_local(t['args'][0]) is not None and not op_place(t['args'][0])['pr']:
                    l = op_local(t['args'][0])
                    continue
                break
            st = fn.blocks[bb]['stmts'][si]
            if st['p']['pr']:
                break
            rv = st['rv']
            if rv['k'] in ('use', 'cast') and op_place(rv['op']) is not None:
                p = op_place(rv['op'])
                if any(e['k'] == 'index' for e in p['pr']):
                    break
                fs = [str(e.get('name', e.get('i'))) for e in p['pr'] if e['k'] == 'field']
                if any(e['k'] == 'deref' for e in p['pr']) and fs:
                    break      # a load through a pointer: the pointee is the root
                path = fs + path
                l = p['l']
                continue
            if rv['k'] in ('ref', 'rawptr') and all(e['k'] == 'deref' for e in rv['p']['pr']):
                l = rv['p']['l']
                continue
            if rv['k'] == 'agg' and rv.get('ops') is not None and path:
                names = rv.get('fields') or [str(i) for i in range(len(rv['ops']))]
                want = path[0]
                idx = None
                for i, nme in enumerate(names):
                    if str(nme) == want:
                        idx = i
                if idx is None and want.isdigit() and int(want) < len(rv['ops']):
                    idx = int(want)
                if idx is None:
                    break
                o = rv['ops'][idx]
                p = op_place(o)
                if p is None or any(e['k'] in ('deref', 'index') for e in p['pr']):
                    break
                path = [str(e.get('name', e.get('i'))) for e in p['pr'] if e['k'] == 'field'] + path[1:]
                l = p['l']
                continue
            break
        return l, tuple(path)

    def sym(self, o, depth=0):
        """symbolic expression tree of an operand, following single definitions:
        ('const', v) | ('arg', i) | ('field', base, (names..)) | ('bin', op, a, b) | ('un', op, a) | ('call', path, [args]) | ('phi', local) | ('?',)"""
        c = op_const(o)
        if c is not None:
            return ('const', c.get('val', c.get('s')))
        p = op_place(o)
        if p is None:
            return ('?',)
        return self.sym_place(p, depth)

    def sym_place(self, p, depth=0):
        fn = self.fn
        if depth > 120:
            return ('?',)
        fields = tuple(str(e.get('name', e.get('i'))) for e in p['pr'] if e['k'] == 'field')
        if any(e['k'] == 'index' for e in p['pr']):
            return ('?',)
        # look through a single-definition reference / tuple: `(*r)` with `r = &x`, `t.0` with `t = (a, b)` (the lowering of assert_eq!)
        ds = self._success_defs(p['l'])
        whole = [(bb, si) for bb, si in ds if si is not None and not fn.blocks[bb]['stmts'][si]['p']['pr']]
        if len(ds) == 1 and len(whole) == 1:
            rv = fn.blocks[whole[0][0]]['stmts'][whole[0][1]]['rv']
            pr = list(p['pr'])
            if rv['k'] in ('ref', 'rawptr') and pr and pr[0]['k'] == 'deref':
                q = {'l': rv['p']['l'], 'pr': list(rv['p']['pr']) + pr[1:]}
                return self.sym_place(q, depth + 1)
            if rv['k'] == 'agg' and rv.get('ak') == 'adt' and len(pr) >= 2 and pr[0]['k'] == 'downcast' and pr[0].get('variant') == rv.get('variant') and pr[1]['k'] == 'field':
                pr = pr[1:]         # `(x as Some).0` with x = Some(v)
            if rv['k'] == 'agg' and rv.get('ak') in ('tuple', 'adt') and pr and pr[0]['k'] == 'field' and rv.get('ops') is not None:
                idx = pr[0].get('i')
                if idx is None:
                    names = rv.get('fields') or []
                    idx = names.index(pr[0].get('name')) if pr[0].get('name') in names else None
                if idx is not None and idx < len(rv['ops']):
                    o = rv['ops'][idx]
                    q = op_place(o)
                    if q is None:
                        return self.sym(o, depth + 1) if len(pr) == 1 else ('?',)
                    return self.sym_place({'l': q['l'], 'pr': list(q['pr']) + pr[1:]}, depth + 1)
        # `(x as Some).0` where x has several definitions (`None` on one path, `Some(v)` on another): the payload can only come from the definitions that build
        # that variant; with exactly one of them, it is that operand
        pr0 = list(p['pr'])
        if len(pr0) >= 2 and pr0[0]['k'] == 'downcast' and len(ds) == 1 and len(whole) == 1:
            # x itself is a plain copy of another local (the return slot of a folded helper): look at that one
            rv1 = fn.blocks[whole[0][0]]['stmts'][whole[0][1]]['rv'] if whole[0][1] is not None else None
            if rv1 is not None and rv1['k'] == 'use' and op_place(rv1['op']) is not None and not op_place(rv1['op'])['pr']:
                return self.sym_place({'l': op_place(rv1['op'])['l'], 'pr': pr0}, depth + 1)
        if len(pr0) >= 2 and pr0[0]['k'] == 'downcast' and pr0[1]['k'] == 'field' and len(whole) >= 1 and len(ds) == len(whole) and len(ds) > 1:
            want = pr0[0].get('variant')
            # continuation copies made by the helper folding carry the variant their path returns (`ret_kind`): only the copy of the wanted variant can feed the payload
            tagged = [(bb, si) for (bb, si) in whole if si is not None and tuple(fn.blocks[bb]['stmts'][si].get('ret_kind') or ()) == ('v', want)]
            if len(tagged) == 1 and all(si is not None and fn.blocks[bb]['stmts'][si].get('ret_kind') for (bb, si) in whole):
                rv1 = fn.blocks[tagged[0][0]]['stmts'][tagged[0][1]]['rv']
                if rv1['k'] == 'use' and op_place(rv1['op']) is not None and not op_place(rv1['op'])['pr']:
                    return self.sym_place({'l': op_place(rv1['op'])['l'], 'pr': pr0}, depth + 1)
            cands = []
            for (bb, si) in whole:
                if si is None:
                    cands = None
                    break
                rv = fn.blocks[bb]['stmts'][si]['rv']
                if rv['k'] == 'agg' and rv.get('ak') == 'adt':
                    if rv.get('variant') == want:
                        cands.append(rv)
                else:
                    cands = None
                    break
            if cands is not None and len(cands) == 1 and cands[0].get('ops') is not None:
                idx = pr0[1].get('i')
                if idx is None:
                    names = cands[0].get('fields') or []
                    idx = names.index(pr0[1].get('name')) if pr0[1].get('name') in names else None
                if idx is not None and idx < len(cands[0]['ops']):
                    o = cands[0]['ops'][idx]
                    q = op_place(o)
                    if q is None:
                        return self.sym(o, depth + 1) if len(pr0) == 2 else ('?',)
                    return self.sym_place({'l': q['l'], 'pr': list(q['pr']) + pr0[2:]}, depth + 1)
        # `(cf as Continue).0` where cf is defined by several `Try::branch(r_i)` calls (the continuation of a folded helper is duplicated per return path): the payload
        # comes from the r_i that can be a success value; with exactly one of them it is `(r_i as Ok).0`
        if len(pr0) >= 2 and pr0[0]['k'] == 'downcast' and pr0[0].get('variant') == 'Continue' and pr0[1]['k'] == 'field' and len(ds) > 1 and all(si is None for (bb, si) in ds):
            cands = []
            for (bb, si) in ds:
                tb = fn.term(bb)
                cb = callee_of(tb) if tb['k'] == 'call' else None
                a = op_place(tb['args'][0]) if cb and cb['path'].endswith('Try::branch') and tb.get('args') else None
                if a is None or a['pr']:
                    cands = None
                    break
                ok_variant = None
                fails_only = True
                todo, seen_l = [a['l']], set()
                while todo:
                    l2 = todo.pop()
                    if l2 in seen_l:
                        continue
                    seen_l.add(l2)
                    for (b2, s2) in self.defs.get(l2, []):
                        if s2 is None:
                            fails_only = False
                            continue
                        rv2 = fn.blocks[b2]['stmts'][s2]['rv']
                        if rv2['k'] == 'agg' and rv2.get('ak') == 'adt':
                            if rv2.get('variant') in ('Ok', 'Some'):
                                fails_only = False
                                ok_variant = rv2.get('variant')
                        elif rv2['k'] == 'use' and op_place(rv2['op']) is not None and not op_place(rv2['op'])['pr']:
                            todo.append(op_place(rv2['op'])['l'])
                        else:
                            fails_only = False
                if not fails_only:
                    cands.append((a['l'], ok_variant or 'Ok'))
            if cands is not None:
                cands = sorted(set(cands))
            if cands is not None and len(cands) == 1:
                q = {'l': cands[0][0], 'pr': [dict(pr0[0], variant=cands[0][1]), pr0[1]] + pr0[2:]}
                return self.sym_place(q, depth + 1)
        base = self.sym_local(p['l'], depth + 1, want_fields=fields)
        if not fields:
            return base
        # a checked operation `(a op b).0`
        if base[0] == 'bin' and fields == ('0',):
            return base
        if base[0] == 'field':
            return ('field', base[1], base[2] + fields)
        return ('field', base, fields)

    def sym_local(self, l, depth=0, want_fields=()):
        fn = self.fn
        if depth > 120:
            return ('?',)
        if 1 <= l <= fn.argc and not self.defs.get(l):
            return ('arg', l)
        ds = self._success_defs(l)
        whole = [(bb, si) for bb, si in ds if si is None or not fn.blocks[bb]['stmts'][si]['p']['pr']]
        if want_fields and len(whole) <= 1:
            # a field read of a local that is also stored into field-wise: the value is the stored field when there is exactly one such store
            stores = [(bb, si) for bb, si in ds if si is not None and fn.blocks[bb]['stmts'][si]['p']['pr']
                      and tuple(str(e.get('name', e.get('i'))) for e in fn.blocks[bb]['stmts'][si]['p']['pr'] if e['k'] == 'field') == tuple(want_fields)]
            if stores:
                return ('phi', l)      # flow-dependent: the caller must not assume either value
        if 1 <= l <= fn.argc and not whole:
            return ('arg', l)
        if len(whole) != 1:
            return ('phi', l)
        bb, si = whole[0]
        if si is None:
            t = fn.term(bb)
            c = callee_of(t)
            return ('call', c['path'] if c else '?', [self.sym(a, depth + 1) for a in t['args']])
        rv = fn.blocks[bb]['stmts'][si]['rv']
        k = rv['k']
        if k in ('use', 'cast'):
            return self.sym(rv['op'], depth + 1)
        if k == 'bin':
            op = rv['op'].replace('WithOverflow', '').replace('Unchecked', '')
            return ('bin', op, self.sym(rv['a'], depth + 1), self.sym(rv['b'], depth + 1))
        if k == 'un':
            return ('un', rv['op'], self.sym(rv['a'], depth + 1))
        if k in ('ref', 'rawptr'):
            return self.sym_place(rv['p'], depth + 1)
        if k == 'discr':
            return ('discr', self.sym_place(rv['p'], depth + 1))
        return ('?',)

    def root_of(self, l, depth=0, through_calls=True, through_wraps=False):
        """follow single-definition copies / moves / reborrows / unwrap-like identity calls back to a root local; with through_wraps also through
        `Ok(x)` / `Some(x)`, `?` (Try::branch) and the payload projection of the success variant -- the path a value takes out of a helper that was folded in"""
        seen = set()
        while l not in seen:
            seen.add(l)
            ds = self._success_defs(l) if through_wraps else self.defs.get(l, [])
            if len(ds) > 1 and all(si is not None for _, si in ds):
                # copies of one statement made by jump threading / tail duplication
                import json as _json
                sig = {_json.dumps(self.fn.blocks[bb]['stmts'][si]['rv'], sort_keys=True) for bb, si in ds}
                if len(sig) == 1 and not any(self.fn.blocks[bb]['stmts'][si]['p']['pr'] for bb, si in ds):
                    ds = ds[:1]
            if len(ds) > 1 and all(si is None for _, si in ds):
                # copies of one call made by jump threading (rules/inline.py): same callee, same argument
                sig = {(callee_of(self.fn.term(bb)) or {}).get('path') + '/' + repr([op_local(a) for a in self.fn.term(bb)['args']]) for bb, _ in ds if callee_of(self.fn.term(bb))}
                if len(sig) == 1:
                    ds = ds[:1]
            if len(ds) != 1:
                return l
            bb, si = ds[0]
            if si is None:
                t = self.fn.term(bb)
                c = callee_of(t)
                if through_calls and c and (_identity_like(c) or (through_wraps and c['path'] == TRY_BRANCH)) and t['args'] and op_local(t['args'][0]) is not None:
                    l = op_local(t['args'][0])
                    continue
                return l
            s = self.fn.blocks[bb]['stmts'][si]
            if s['p']['pr']:
                return l
            rv = s['rv']
            if through_wraps and rv['k'] == 'agg' and rv.get('variant') in ('Ok', 'Some', 'Continue') and len(rv['ops']) == 1 and op_place(rv['ops'][0]) is not None \
                    and not op_place(rv['ops'][0])['pr']:
                l = op_place(rv['ops'][0])['l']
                continue
            if through_wraps and rv['k'] == 'use' and op_place(rv['op']) is not None:
                p = op_place(rv['op'])
                pr = [e for e in p['pr']]
                if len(pr) == 2 and pr[0]['k'] == 'downcast' and pr[0].get('variant') in ('Ok', 'Some', 'Continue') and pr[1]['k'] == 'field':
                    l = p['l']
                    continue
            if rv['k'] == 'use' and op_place(rv['op']) is not None:
                p = op_place(rv['op'])
                if all(e['k'] in ('deref',) for e in p['pr']) or not p['pr']:
                    l = p['l']
                    continue
                return l
            if rv['k'] in ('ref', 'rawptr'):
                p = rv['p']
                if all(e['k'] == 'deref' for e in p['pr']):
                    l = p['l']
                    continue
                return l
            if rv['k'] == 'cast' and op_place(rv['op']) is not None and not op_place(rv['op'])['pr']:
                l = op_place(rv['op'])['l']
                continue
            return l
        return l


class Prov:
    """Pointer provenance: prov[l] = set of (adt, field) a pointer-like local may point INTO (or be derived from by
    reborrowing / by a call that returns something borrowing from its `&mut` arguments).  Unlike DefUse this does not
    follow values: `collect()`, `clone()`, `to_vec()` produce owned data and cut the chain."""

    def __init__(self, fn):
        self.fn = fn
        n = len(fn.locals)
        self.prov = [set() for _ in range(n)]
        self.upv = [set() for _ in range(n)]      # closure upvar indices a pointer derives from
        self._build()

    @staticmethod
    def borrowing_ty(ty):
        return ty.startswith('&') or ty.startswith('*') or "<'_" in ty or "'_," in ty

    def _place_prov(self, p):
        out = set()
        up = set()
        fields = [(e.get('adt'), e.get('name')) for e in p['pr'] if e['k'] == 'field']
        out |= set(fields)
        for f in fields:
            if f[1] and str(f[1]).startswith('upvar'):
                try:
                    up.add(int(str(f[1])[5:]))
                except ValueError:
                    pass
        if any(e['k'] == 'deref' for e in p['pr']) or self.borrowing_ty(self.fn.locals[p['l']]['ty']):
            out |= self.prov[p['l']]
            up |= self.upv[p['l']]
        return out, up

    def _build(self):
        fn = self.fn
        changed = True
        rounds = 0
        while changed and rounds < 50:
            changed = False
            rounds += 1
            for bb in sorted(fn.reachable_blocks()):
                b = fn.blocks[bb]
                for s in b['stmts']:
                    if s['k'] != 'assign' or s['p']['pr']:
                        continue
                    d = s['p']['l']
                    rv = s['rv']
                    new, nup = set(), set()
                    if rv['k'] in ('ref', 'rawptr'):
                        new, nup = self._place_prov(rv['p'])
                    elif rv['k'] in ('use', 'cast'):
                        pl = op_place(rv['op'])
                        if pl is not None and self.borrowing_ty(fn.locals[d]['ty']):
                            new, nup = self._place_prov(pl)
                    elif rv['k'] == 'agg' and self.borrowing_ty(fn.locals[d]['ty']):
                        for o in rv['ops']:
                            pl = op_place(o)
                            if pl is not None:
                                a, u = self._place_prov(pl)
                                new |= a
                                nup |= u
                    if not new <= self.prov[d] or not nup <= self.upv[d]:
                        self.prov[d] |= new
                        self.upv[d] |= nup
                        changed = True
                t = b['term']
                if t['k'] == 'call' and not t['dest']['pr']:
                    d = t['dest']['l']
                    if self.borrowing_ty(fn.locals[d]['ty']):
                        new, nup = set(), set()
                        for o in t['args']:
                            pl = op_place(o)
                            if pl is None:
                                continue
                            ty = fn.locals[pl['l']]['ty'] if not pl['pr'] else ''
                            if self.borrowing_ty(ty) or pl['pr']:
                                a, u = self._place_prov(pl)
                                new |= a
                                nup |= u
                        if not new <= self.prov[d] or not nup <= self.upv[d]:
                            self.prov[d] |= new
                            self.upv[d] |= nup
                            changed = True

    def of_operand(self, o):
        pl = op_place(o)
        if pl is None:
            return set(), set()
        return self._place_prov(pl)


_IDENT = ('std::ops::Deref::deref', 'std::ops::DerefMut::deref_mut', 'std::convert::AsRef::as_ref',
          'std::convert::AsMut::as_mut', 'std::borrow::Borrow::borrow', 'std::borrow::BorrowMut::borrow_mut',
          'std::clone::Clone::clone', 'std::convert::Into::into', 'std::convert::From::from')


_REBORROW_NAMES = {'deref', 'deref_mut', 'as_ref', 'as_mut', 'borrow', 'borrow_mut', 'as_ptr', 'as_mut_ptr', 'as_slice', 'as_mut_slice', 'get_mut', 'as_deref', 'as_deref_mut'}


def _reborrow_like(c):
    """calls whose result points into what their single pointer argument points to, and that neither read nor write the pointee"""
    p = c['path']
    name = last_seg(strip_generics(p))
    if p in ('std::ops::Deref::deref', 'std::ops::DerefMut::deref_mut', 'std::convert::AsRef::as_ref', 'std::convert::AsMut::as_mut',
             'std::borrow::Borrow::borrow', 'std::borrow::BorrowMut::borrow_mut'):
        return True
    st = c.get('self_ty') or ''
    if name in ('borrow', 'borrow_mut', 'try_borrow', 'try_borrow_mut', 'get_mut', 'as_ptr') and ('RefCell<' in st or 'std::cell::' in p):
        return True
    if name in ('lock', 'try_lock', 'read', 'write', 'try_read', 'try_write', 'get_mut') and ('Mutex<' in st or 'RwLock<' in st or 'std::sync::Mutex' in p or 'std::sync::RwLock' in p or 'std::sync::poison' in p):
        return True
    if name in _REBORROW_NAMES and ('std::ptr::NonNull' in p or 'std::rc::Rc' in p or 'std::sync::Arc' in p or 'std::vec::Vec' in p or 'core::slice' in p or 'std::slice' in p):
        return True
    return False


def _identity_like(c):
    p = c['path']
    return p in _IDENT or last_seg(strip_generics(p)) in ('unwrap', 'expect', 'as_slice', 'as_mut_slice', 'as_ptr', 'as_mut_ptr')


# ---------------------------------------------------------------------------------------------
# Result / Option discrimination after a call

TRY_BRANCH = 'std::ops::Try::branch'
FROM_RESIDUAL = 'std::ops::FromResidual::from_residual'


def _discr_switch(fn, bb, local):
    """If block bb (or a short goto chain from it) reads discriminant(local) and switches on it, return
    (switch_bb, {value: target}, otherwise).  Only a direct `_d = discriminant(local); switch _d` is accepted."""
    b = fn.blocks[bb]
    dl = None
    for s in b['stmts']:
        if s['k'] == 'assign' and s['rv']['k'] == 'discr' and s['rv']['p']['l'] == local and not s['rv']['p']['pr'] and not s['p']['pr']:
            dl = s['p']['l']
    t = b['term']
    if dl is not None and t['k'] == 'switch' and op_local(t['discr']) == dl:
        return bb, {v: tb for v, tb in t['targets']}, t['otherwise']
    return None


def result_switch(fn, call_bb, facts=None):
    """For a call in block call_bb whose destination is a Result-like value, find how it is discriminated:
       returns dict(ok=bb, err=bb, via='try'|'match', switch_bb=..) or None when the value is not
       (directly) discriminated.  `?` shows as  dest -> Try::branch -> discriminant switch (Continue=0/Break=1);
       an explicit match shows as discriminant(dest) switch (Ok=0 / Err=1)."""
    t = fn.term(call_bb)
    if t['k'] != 'call' or t['target'] is None:
        return None
    dest = t['dest']
    if dest['pr']:
        return None
    cur = dest['l']
    bb = t['target']
    via = 'match'
    for _ in range(6):
        sw = _discr_switch(fn, bb, cur)
        if sw:
            sbb, tg, oth = sw
            ok = tg.get(0)
            err = tg.get(1, oth if 1 not in tg else None)
            if ok is None:
                ok = oth
            return dict(ok=ok, err=err, via=via, switch_bb=sbb, value_local=cur)
        nt = fn.term(bb)
        if nt['k'] == 'call' and callee_path(nt) == TRY_BRANCH and nt['args'] and op_local(nt['args'][0]) == cur \
                and not nt['dest']['pr'] and nt['target'] is not None:
            cur = nt['dest']['l']
            bb = nt['target']
            via = 'try'
            continue
        # an adaptor that keeps Ok as Ok and Err as Err (`.map_err(Error::Io)`): the discrimination of its result is the discrimination of ours
        if nt['k'] == 'call' and nt['args'] and op_local(nt['args'][0]) == cur and not nt['dest']['pr'] and nt['target'] is not None \
                and last_seg(strip_generics(callee_path(nt) or '')) in ('map_err', 'or_else_err', 'map_err_into') \
                and not any(st['k'] == 'assign' and st['p']['l'] == cur for st in fn.blocks[bb]['stmts']):
            cur = nt['dest']['l']
            bb = nt['target']
            continue
        # a plain move of the value into another local, then continue in the same / next block
        moved = None
        for s in fn.blocks[bb]['stmts']:
            if s['k'] == 'assign' and s['rv']['k'] == 'use' and op_local(s['rv']['op']) == cur \
                    and not op_place(s['rv']['op'])['pr'] and not s['p']['pr']:
                moved = s['p']['l']
        if moved is not None:
            cur = moved
            sw = _discr_switch(fn, bb, cur)
            if sw:
                sbb, tg, oth = sw
                ok = tg.get(0, oth)
                err = tg.get(1, oth if 1 not in tg else None)
                return dict(ok=ok, err=err, via=via, switch_bb=sbb, value_local=cur)
            if nt['k'] == 'goto':
                bb = nt['target']
                continue
            if nt['k'] == 'call' and callee_path(nt) == TRY_BRANCH and op_local(nt['args'][0]) == cur and nt['target'] is not None:
                cur = nt['dest']['l']
                bb = nt['target']
                via = 'try'
                continue
        if nt['k'] == 'goto' and not fn.blocks[bb]['stmts']:
            bb = nt['target']
            continue
        return None
    return None


def ret_kinds(fn):
    """Forward propagation of the 'kind' of the value last stored into _0:
       returns {block: set of kinds in {'ok','err','unk',None}} at block entry, and the set at each return block.
       ok  : `_0 = Result::Ok(..)` / `Option::Some`-like aggregate with variant Ok
       err : `_0 = Result::Err(..)` aggregate or `_0 = from_residual(..)`
       unk : any other assignment to _0 (e.g. the result of a call in tail position)"""
    n = len(fn.blocks)
    state_in = {0: {None}}
    dq = deque([0])
    out_kind = {}

    def transfer(bb, kinds):
        b = fn.blocks[bb]
        cur = set(kinds)
        for s in b['stmts']:
            if s['k'] == 'assign' and s['p']['l'] == 0:
                if s['p']['pr']:
                    continue
                rv = s['rv']
                if rv['k'] == 'agg' and rv.get('ak') == 'adt' and rv['adt'] in ('std::result::Result',):
                    cur = {'ok' if rv['variant'] == 'Ok' else 'err'}
                else:
                    cur = {'unk'}
        t = b['term']
        if t['k'] == 'call' and t['dest']['l'] == 0 and not t['dest']['pr']:
            if callee_path(t) == FROM_RESIDUAL:
                cur = {'err'}
            else:
                cur = {'unk'}
        return cur
    while dq:
        bb = dq.popleft()
        o = transfer(bb, state_in[bb])
        out_kind[bb] = o
        for s in fn.succ(bb):
            old = state_in.get(s, set())
            new = old | o
            if new != old:
                state_in[s] = new
                dq.append(s)
    return state_in, out_kind
