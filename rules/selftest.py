"""Checker self-test (thorough tier): every mutant of mutants/defs.py (and every confirmed seeded change under seeded/) that targets
the property is applied to a scratch copy of the CURRENT /repo tree; the variant must still type-check and the targeted rule must
fire; benign edits must stay silent.  Results go into the evidence; they never produce a VIOLATION line."""
import os, sys, json, importlib, shutil, subprocess, tempfile, traceback
from concurrent.futures import ProcessPoolExecutor
from facts import VERIF, REPO, load_facts
import mutate

sys.path.insert(0, os.path.join(VERIF, 'mutants'))


def load_mutants():
    import defs
    importlib.reload(defs)
    ms = list(defs.M)
    sd = os.path.join(VERIF, 'seeded')
    if os.path.isdir(sd):
        for d in sorted(os.listdir(sd)):
            meta = os.path.join(sd, d, 'meta.json')
            pf = os.path.join(sd, d, 'patch.diff')
            if os.path.exists(meta) and os.path.exists(pf):
                m = json.load(open(meta))
                if m.get('superseded'):
                    # a seed that a later fix: commit has made harmless (the repaired code tolerates the change): on the current tree it is a benign edit, and must be silent
                    ms.append(dict(name='seed_' + d, patch=os.path.join('seeded', d, 'patch.diff'), expect={}, desc=m.get('summary', ''), kind='benign'))
                    continue
                exp = {p: [x.replace(' (vacuity guard)', '') for x in r] for p, r in m.get('detected_by', {}).items()}
                ms.append(dict(name='seed_' + d, patch=os.path.join('seeded', d, 'patch.diff'), expect=exp, desc=m.get('summary', ''), kind='broken' if exp else 'missed-seed'))
    return ms


def apply_mutant(m, d):
    if 'patch' in m:
        okp, msg = mutate.apply_patch(d, os.path.join(VERIF, m['patch']))
        return okp, msg
    if 'rename' in m:
        import re
        n = 0
        for root, dirs, fs in os.walk(os.path.join(d, 'src')):
            for f in fs:
                if f.endswith('.rs'):
                    p = os.path.join(root, f)
                    t = open(p).read()
                    t2 = t
                    for a, b in m['rename'].items():
                        t2 = re.sub(r'\b%s\b' % re.escape(a), b, t2)
                    if t2 != t:
                        n += 1
                        open(p, 'w').write(t2)
        return n > 0, 'no identifier found' if n == 0 else ''
    subs = [(m['old'], m['new'])] + list(m.get('also', []))
    p = os.path.join(d, m['file'])
    try:
        s = open(p).read()
    except OSError as e:
        return False, str(e)
    for old, new in subs:
        if s.count(old) != 1:
            return False, 'text to replace occurs %d times in %s' % (s.count(old), m['file'])
        s = s.replace(old, new)
    open(p, 'w').write(s)
    for (f2, old, new) in m.get('also_files', []):
        p2 = os.path.join(d, f2)
        t = open(p2).read()
        if t.count(old) != 1:
            return False, 'text to replace occurs %d times in %s' % (t.count(old), f2)
        open(p2, 'w').write(t.replace(old, new))
    return True, ''


def _worker(args):
    m, pids = args
    sys.path.insert(0, os.path.join(VERIF, 'rules'))
    import core
    d = mutate.scratch_copy(REPO)
    try:
        okp, msg = apply_mutant(m, d)
        if not okp:
            return m['name'], 'stale', msg, {}
        out = os.path.join(d, 'facts.json')
        r = subprocess.run(['sh', os.path.join(VERIF, 'jammlint', 'run.sh'), d, out], capture_output=True, text=True)
        if r.returncode != 0 or not os.path.exists(out):
            return m['name'], 'does-not-compile', (r.stdout + r.stderr)[-1500:], {}
        F = load_facts(out)
        F.src_hash = 'variant:' + m['name']
        F.repo_dir = d
        res = {}
        for pid in pids:
            mod = importlib.import_module(pid.lower())
            try:
                lines, violations, known, ev, results = core.run_property(pid, mod, 'quick', facts=F, write=False)
                res[pid] = [(r.rule, r.key) for r in results if not r.ok]
            except Exception as e:
                res[pid] = [('ERROR', 'ERROR | ' + repr(e)[:200])]
        return m['name'], 'ok', '', res
    except Exception as e:
        return m['name'], 'error', traceback.format_exc()[-1500:], {}
    finally:
        shutil.rmtree(d, ignore_errors=True)


def run(pids, baseline, only=None, jobs=16):
    """pids: properties to evaluate; baseline: {pid: set(keys failing on the unmodified tree)}.
    Returns summary dict."""
    ms = load_mutants()
    if only:
        ms = [m for m in ms if m['name'] in only]
    tasks = []
    for m in ms:
        want = [p for p in pids if (p in m['expect']) or m['kind'] == 'benign']
        if want:
            tasks.append((m, want))
    rows = []
    with ProcessPoolExecutor(max_workers=jobs) as ex:
        for (name, status, msg, res), (m, want) in zip(ex.map(_worker, tasks), tasks):
            row = dict(name=name, kind=m['kind'], status=status, desc=m['desc'])
            if status != 'ok':
                row['detail'] = msg[-400:]
                rows.append(row)
                continue
            per = {}
            for pid in want:
                new = [(r, k) for (r, k) in res.get(pid, []) if k not in baseline.get(pid, set())]
                gone = [k for k in baseline.get(pid, set()) if k not in {k2 for _, k2 in res.get(pid, [])}]
                if m['kind'] == 'benign':
                    per[pid] = dict(silent=not new, new=[k for _, k in new][:5], cleared=gone[:5])
                else:
                    exp = m['expect'][pid]
                    hit = [k for (r, k) in new if any(r.startswith(e) or k.startswith(e) for e in exp)]
                    per[pid] = dict(killed=bool(hit), by=hit[:3], other=[k for _, k in new if k not in hit][:3])
            row['per'] = per
            rows.append(row)
    return rows


def summarise(rows, pid):
    applied = [r for r in rows if r['status'] == 'ok' and pid in r.get('per', {})]
    broken = [r for r in applied if r['kind'] != 'benign']
    benign = [r for r in applied if r['kind'] == 'benign']
    killed = [r for r in broken if r['per'][pid].get('killed')]
    survivors = [r['name'] for r in broken if not r['per'][pid].get('killed')]
    noisy = [r['name'] for r in benign if not r['per'][pid].get('silent')]
    stale = [r['name'] for r in rows if r['status'] == 'stale']
    nocompile = [r['name'] for r in rows if r['status'] in ('does-not-compile', 'error')]
    return dict(mutants_applied=len(broken), mutants_killed=len(killed), survivors=survivors, benign_applied=len(benign), benign_noisy=noisy,
                stale_patches=stale, not_compiling=nocompile,
                selftest_ok=(not survivors and not noisy and not nocompile),
                killed_by={r['name']: r['per'][pid]['by'] for r in killed},
                cleared_by_benign={r['name']: r['per'][pid]['cleared'] for r in benign if r['per'][pid].get('cleared')})


if __name__ == '__main__':
    # developer entry: full matrix  (python3 rules/selftest.py [pid ...])
    sys.path.insert(0, os.path.join(VERIF, 'rules'))
    import core
    from facts import build_facts
    pids = sys.argv[1:] or ['C%02d' % i for i in range(1, 17)]
    F = build_facts()
    baseline = {}
    for pid in pids:
        mod = importlib.import_module(pid.lower())
        lines, violations, known, ev, results = core.run_property(pid, mod, 'quick', facts=F, write=False)
        baseline[pid] = {r.key for r in results if not r.ok}
    rows = run(pids, baseline)
    for pid in pids:
        s = summarise(rows, pid)
        print(pid, 'applied', s['mutants_applied'], 'killed', s['mutants_killed'], 'survivors', s['survivors'], 'benign', s['benign_applied'], 'noisy', s['benign_noisy'])
    print('stale', sorted({r['name'] for r in rows if r['status'] == 'stale'}))
    for r in rows:
        if r['status'] not in ('ok', 'stale'):
            print('!!', r['name'], r['status'], r.get('detail', '')[-600:])
