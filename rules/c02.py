"""C02 A crash at any instant leaves the previous or the new commit, never a mix  (clause level)"""
from core import ok, bad, unresolved, floor
from anchors import AnchorError
from facts import callee_of, op_local, op_place, last_seg, strip_generics
from effects import fn_effects, effects_on, INSERTING, REMOVING
from util import (calls_to_fn, calls_named, all_call_sites, has_field, has_call, stores_to_field, aggregates_of)
import commit


def creation_rules(ctx, rule='C02.create'):
    """creation path: every W/G in the trace of OpenOptions::open is followed by a propagated sync before ret Ok"""
    res = []
    try:
        (op,) = ctx.need('OpenOptions::open')
    except AnchorError as e:
        return [unresolved(rule, str(e))]
    T = ctx.trace(op)
    W = T.events('W') + T.events('G')
    Sok = {e['ok_node'] for e in T.events('S') if 'ok_node' in e}
    exits = T.exit_kinds()
    ok_exits = [i for i, k in exits if k in ('ok', 'unk', None)]
    f = floor(rule, 'file writes / growth in the creation path of OpenOptions::open', len(W), 2)
    if f:
        res.append(f)
    for w in W:
        reach = T.reach(T.succ.get(w['node'], set()), avoid=Sok)
        offending = [x for x in ok_exits if x in reach]
        if offending:
            p = T.path(T.succ.get(w['node'], ()), offending[0], avoid=Sok)
            res.append(bad(rule, '%s | %s=%s not synced before ret Ok' % (op.qual, w['ev'], w['callee']),
                           'open can return a database handle after the %s at %s without a propagated sync: a crash right after '
                           'creation may leave a file that exists but is not initialised' % (w['ev'], w['loc']), where=w['loc'],
                           path=T.describe_path([w['node']] + (p or []))))
        else:
            res.append(ok(rule, '%s at %s is followed by a propagated sync on every path to a successful open' % (w['ev'], w['loc']), sites=1))
    ctx.stats['open_trace_nodes'] = len(T.nodes)
    return res


def alloc_bodies(ctx, txalloc):
    """the allocation wrapper with its module-private helpers folded in, plus the closures it creates (`.unwrap_or_else(|| self.extend(n))`), folded likewise"""
    F = ctx.facts
    out = [ctx.A.xf(txalloc)]
    for g in F.fns:
        if g.kind == 'Closure' and g.owner is txalloc:
            out.append(ctx.A.xf(g))
    return out


def advance_sites(ctx, txalloc):
    """where the allocation wrapper advances the high-water mark: [(bb, stmt index or None, description, is_addition)] — a direct store of
    Meta.num_pages, or a call of a local helper (same type) that stores it"""
    F = ctx.facts
    out = []
    for body in alloc_bodies(ctx, txalloc):
        du = ctx.du(body)
        for bb, si, s in stores_to_field(body, 'Meta', 'num_pages'):
            _, atoms = du.slice_operand(s['rv']['op']) if s['rv']['k'] == 'use' else (None, set())
            out.append((bb, si, body.loc(bb, si), any(a[0] == 'bin' and a[1].startswith('Add') for a in atoms), None))
        for bb, t, target, c in F.call_sites(body):
            if target is None or target.self_adt != txalloc.self_adt:
                continue
            dg = ctx.du(target)
            for b2, s2, st in stores_to_field(target, 'Meta', 'num_pages'):
                _, atoms = dg.slice_operand(st['rv']['op']) if st['rv']['k'] == 'use' else (None, set())
                out.append((bb, None, '%s (via %s)' % (body.loc(bb), target.qual), any(a[0] == 'bin' and a[1].startswith('Add') for a in atoms), target))
    return out


def cow_write_set(ctx):
    rule = 'C02.cow.write-set'
    res = []
    try:
        txalloc, alloc = ctx.need('tx-alloc-role', 'alloc-role')
    except AnchorError as e:
        return [unresolved(rule, str(e))]
    T = commit.commit_trace(ctx)
    D = [e for e in T.events('W') if e.get('sub') == 'D' and not e.get('summary')]
    f = floor(rule, 'data-page writes in the commit trace', len(D), 1)
    if f:
        return [f]
    for d in D:
        n = T.nodes[d['node']]
        fn, bb = n.fn, n.bb
        du = ctx.du(fn)
        t = fn.term(bb)
        # (a) the buffer written comes from the transaction's allocation map
        atoms = commit.climb_atoms(ctx, fn, t['args'][1], list(n.ctx))
        # ... and from nowhere else that outlives the transaction (a buffer kept in the shared handle carries bytes of an earlier commit)
        shared_buf = sorted({a[2] for a in atoms if a[0] == 'field' and a[1] and last_seg(a[1]) == 'DBInner' and a[2] not in ('pagesize', 'flags', 'file')})
        buf_ok = has_field(atoms, 'TxFreelist', 'pages') and not shared_buf
        # (b) a seek on the file dominates the write and its offset comes from the same map
        seeks = calls_named(ctx.facts, fn, 'Seek::seek')
        dom_seeks = [(sb, st) for sb, st, sc in seeks if fn.dominates(sb, bb) and 'std::fs::File' in (sc.get('self_ty') or '')]
        seek_ok = False
        for sb, st in dom_seeks:
            sat = commit.climb_atoms(ctx, fn, st['args'][1], list(n.ctx))
            if has_field(sat, 'TxFreelist', 'pages'):
                seek_ok = True
        if buf_ok and seek_ok:
            res.append(ok(rule, 'data write at %s: buffer and file offset both come from TxFreelist.pages' % d['loc'], sites=1 + len(dom_seeks)))
        else:
            res.append(bad(rule, '%s | D write not from allocation map (%s)' % (fn.qual, 'buffer' if not buf_ok else 'offset'),
                           'the data-page write at %s does not take its %s from the transaction\'s allocation map (TxFreelist.pages): '
                           'commit could write to a page of the live snapshot' % (d['loc'], 'buffer' if not buf_ok else 'file offset'), where=d['loc']))
    # (c) only the alloc wrapper inserts into TxFreelist.pages
    inserters = []
    for f in ctx.facts.fns:
        if f.kind == 'Closure' or (ctx.A.module_private(f) and ctx.facts.callers(f)):
            continue
        how = effects_on(ctx.facts, ctx.A.xf(f), 'TxFreelist', 'pages')
        if how & (INSERTING - {'store-via-ptr'}):
            inserters.append(f)
    for f in inserters:
        if f is not txalloc:
            res.append(bad(rule, '%s | inserts into TxFreelist.pages' % f.qual,
                           '%s inserts into the allocation map TxFreelist.pages; only the allocation wrapper (%s) may' % (f.qual, txalloc.qual),
                           where='%s:%d' % (f.file, f.line)))
    if txalloc not in inserters:
        res.append(bad(rule, '%s | alloc wrapper does not insert' % txalloc.qual, 'the allocation wrapper no longer records pages in TxFreelist.pages',
                       where='%s:%d' % (txalloc.file, txalloc.line)))
    # (d) the page id it inserts comes from the free set's alloc-role or from the high-water mark, which it then advances
    txalloc_raw = txalloc
    txalloc = ctx.A.xf(txalloc)
    du = ctx.du(txalloc)
    ins = [(bb, t) for bb, t, c in calls_named(ctx.facts, txalloc, 'BTreeMap::insert', 'BTreeMap::entry', 'BTreeMap::try_insert')
           if has_field(du.slice_operand(t['args'][0])[1], 'TxFreelist', 'pages')]
    if not ins:
        res.append(floor(rule, 'insertion into TxFreelist.pages in the allocation wrapper', 0, 1))
    for bb, t in ins:
        _, atoms = du.slice_operand(t['args'][1])
        from_alloc = has_call(atoms, alloc.path)
        helpers = {x[4].path for x in advance_sites(ctx, txalloc_raw) if x[4] is not None}
        from_hw = has_field(atoms, 'Meta', 'num_pages') or any(a[0] == 'call' and a[2] in helpers for a in atoms)
        if not from_hw:
            # the fallback to the high-water mark may be a closure handed to a combinator: `alloc(n).unwrap_or_else(|| self.extend(n))`
            clos = [b for b in alloc_bodies(ctx, txalloc_raw)[1:] if stores_to_field(b, 'Meta', 'num_pages') or
                    any(tg is not None and tg.path in helpers for _, _, tg, _ in ctx.facts.call_sites(b))]
            if clos and any(a[0] == 'call' and last_seg(strip_generics(a[2])) in ('unwrap_or_else', 'or_else', 'map_or_else', 'ok_or_else', 'get_or_insert_with', 'or_insert_with') for a in atoms):
                from_hw = True
        consts = [a for a in atoms if a[0] == 'const']
        if from_alloc and from_hw:
            res.append(ok(rule, 'page id recorded at %s comes from %s or the high-water mark' % (txalloc.loc(bb), alloc.qual), sites=1))
        else:
            res.append(bad(rule, '%s | page id source' % txalloc.qual,
                           'the page id recorded at %s does not depend on both the free-set allocation (%s) and the high-water mark '
                           '(found: alloc=%s, num_pages=%s)' % (txalloc.loc(bb), alloc.qual, from_alloc, from_hw), where=txalloc.loc(bb)))
    adv = advance_sites(ctx, txalloc_raw)
    if not adv:
        res.append(bad(rule, '%s | high-water mark not advanced' % txalloc.qual,
                       'the allocation wrapper takes pages from the high-water mark but never advances Meta.num_pages: '
                       'two allocations would receive the same fresh page', where='%s:%d' % (txalloc.file, txalloc.line)))
    else:
        for bb, si, where, is_add, helper in adv:
            if not is_add:
                res.append(bad(rule, '%s | high-water mark store is not an addition' % txalloc.qual,
                               'Meta.num_pages is stored at %s from a value that is not the old mark plus the run length' % where, where=where))
            else:
                res.append(ok(rule, 'high-water mark advanced by addition at %s' % where, sites=1))
    # (e) the mark a transaction allocates from moves only there (and only upwards, see above): lowering it anywhere else hands out, as fresh, pages that the
    # committed tree or an open reader still uses
    allowed = {txalloc_raw.qual}
    for body in alloc_bodies(ctx, txalloc_raw):
        allowed |= set(getattr(body, 'inlined', []) or []) | {body.qual}
    nst = 0
    for f in sorted(ctx.facts.fns, key=lambda g: g.path):
        for bb, si, st in stores_to_field(f, 'Meta', 'num_pages'):
            fs = [e for e in st['p']['pr'] if e['k'] == 'field']
            if len(fs) < 2 or not fs[-2].get('adt') or last_seg(fs[-2]['adt']) != 'TxFreelist':
                continue
            nst += 1
            if f.qual not in allowed:
                res.append(bad(rule, '%s | high-water mark changed outside the allocation wrapper' % f.qual,
                               '%s stores TxFreelist.meta.num_pages at %s; only the allocation wrapper (%s) may move the mark pages are allocated from, and only upwards'
                               % (f.qual, f.loc(bb, si), txalloc_raw.qual), where=f.loc(bb, si)))
    if nst and not any(not r.ok and 'outside the allocation wrapper' in r.key for r in res):
        res.append(ok(rule, 'the allocation mark TxFreelist.meta.num_pages is stored only in %s (%d sites)' % (', '.join(sorted(allowed)), nst), sites=nst))
    return res


def cow_free_set(ctx, rule='C02.cow.free-set'):
    res = []
    try:
        rel, fre, alo, ini, dbopen = ctx.need('release-role', 'free-role', 'alloc-role', 'init-role', 'DBInner::open')
    except AnchorError as e:
        return [unresolved(rule, str(e))]
    F = ctx.facts
    n = 0
    for f in F.fns:
        if f.kind == 'Closure' or (ctx.A.module_private(f) and F.callers(f)):
            continue          # a module-private helper is judged as part of each of its callers (folded in below)
        fp = effects_on(F, ctx.A.xf(f), 'Freelist', 'free_pages')
        pp = effects_on(F, ctx.A.xf(f), 'Freelist', 'pending_pages')
        if fp & INSERTING:
            n += 1
            if f not in (rel, ini):
                res.append(bad(rule, '%s | inserts into Freelist.free_pages' % f.qual,
                               '%s adds pages to the free set (free_pages); only the release role (%s) and the load-on-open role (%s) may: '
                               'a page that goes straight to the free set can be reallocated and overwritten while the current header still '
                               'points at it' % (f.qual, rel.qual, ini.qual), where='%s:%d' % (f.file, f.line)))
        if pp & INSERTING:
            n += 1
            if f is not fre:
                res.append(bad(rule, '%s | inserts into Freelist.pending_pages' % f.qual,
                               '%s files pages as pending; only the free role (%s) may' % (f.qual, fre.qual), where='%s:%d' % (f.file, f.line)))
        mut_access = pp & {'get_mut', 'iter_mut', 'values_mut', 'index_mut', 'range_mut', 'first_mut', 'last_mut', 'get_many_mut', 'get_or_insert_with'}
        if mut_access and f is not fre:
            n += 1
            res.append(bad(rule, '%s | rewrites an existing pending entry (%s)' % (f.qual, ','.join(sorted(mut_access))),
                           '%s takes a mutable reference to an existing entry of Freelist.pending_pages (%s): pages are filed under the id of the transaction that freed them by the free '
                           'role (%s) only; moving or adding pages under another transaction\'s id lets them be released while a reader that needs them is still open'
                           % (f.qual, ', '.join(sorted(mut_access)), fre.qual), where='%s:%d' % (f.file, f.line)))
        if fp & REMOVING and f is not alo:
            n += 1
            res.append(bad(rule, '%s | removes from Freelist.free_pages' % f.qual,
                           '%s removes pages from the free set; only the allocation role (%s) may' % (f.qual, alo.qual), where='%s:%d' % (f.file, f.line)))
        if pp & REMOVING and f is not rel:
            n += 1
            res.append(bad(rule, '%s | removes from Freelist.pending_pages' % f.qual,
                           '%s removes pending entries; only the release role (%s) may' % (f.qual, rel.qual), where='%s:%d' % (f.file, f.line)))
        # whole-value construction of a Freelist outside `new`/Clone
        for bb, si, s in aggregates_of(f, 'Freelist'):
            if s['rv']['adt'].endswith('freelist::Freelist') and not (f.name in ('new', 'clone', 'default')):
                res.append(bad(rule, '%s | constructs a Freelist value' % f.qual,
                               '%s builds a Freelist by hand at %s (bypasses the role discipline)' % (f.qual, f.loc(bb, si)), where=f.loc(bb, si)))
    if effects_on(F, fre, 'Freelist', 'free_pages'):
        res.append(bad(rule, '%s | free role touches free_pages' % fre.qual, 'the free role must only file pages as pending', where='%s:%d' % (fre.file, fre.line)))
    # init-role is reached only from DBInner::open
    sites = all_call_sites(F, ini)
    import c03
    for f, bb, t in sites:
        if f is not dbopen and not c03._only_via(F, f, dbopen):
            res.append(bad(rule, '%s | calls the load-on-open role' % f.qual,
                           '%s (re)loads the free set at %s; only DBInner::open may (reloading into a live free list makes in-use pages free)' % (f.qual, f.loc(bb)), where=f.loc(bb)))
    fl = floor(rule, 'mutation sites of Freelist.free_pages / pending_pages', n + len(sites), 4)
    if fl:
        res.append(fl)
    if not [r for r in res if not r.ok]:
        res.append(ok(rule, 'free_pages gains elements only in %s/%s, loses them only in %s; pending_pages gains only in %s, loses only in %s; '
                      '%s is called only from DBInner::open' % (rel.qual, ini.qual, alo.qual, fre.qual, rel.qual, ini.qual), sites=n + len(sites)))
    return res


def _calls_incl_closures(ctx, fn, callee):
    """[(host fn, bb, term)] calls of `callee` in fn or in the closures fn creates"""
    F = ctx.facts
    out = [(fn, bb, t) for bb, t, c in calls_to_fn(F, fn, callee)]
    for g in F.fn_refs(fn):
        if g.kind == 'Closure':
            out += [(g, bb, t) for bb, t, c in calls_to_fn(F, g, callee)]
    return out


def _capture_atoms(ctx, creator, closure):
    """atoms of everything the creator captured for `closure` (the operands of the closure aggregate)"""
    du = ctx.du(creator)
    locs, atoms = set(), set()
    for bb in creator.reachable_blocks():
        for st in creator.blocks[bb]['stmts']:
            if st['k'] == 'assign' and st['rv']['k'] == 'agg' and st['rv'].get('ak') == 'closure' and st['rv'].get('closure') == closure.path:
                for o in st['rv']['ops']:
                    l2, a2 = du.slice_operand(o)
                    locs |= l2
                    atoms |= a2
    return locs, atoms


def pending_key(ctx, rule='C02.pending-key'):
    res = []
    try:
        fre, txfre = ctx.need('free-role', 'tx-free-role')
    except AnchorError as e:
        return [unresolved(rule, str(e))]
    F = ctx.facts
    fre_raw, txfre_raw = fre, txfre
    fre, txfre = ctx.A.xf(fre), ctx.A.xf(txfre)
    du = ctx.du(fre)
    keyed = 0
    for bb, t, c in calls_named(F, fre, 'BTreeMap::entry', 'BTreeMap::insert', 'BTreeMap::get_mut'):
        if not has_field(du.slice_operand(t['args'][0])[1], 'Freelist', 'pending_pages'):
            continue
        keyed += 1
        _, atoms = du.slice_operand(t['args'][1])
        args = {a[1] for a in atoms if a[0] == 'arg'} - {1}
        if not args:
            res.append(bad(rule, '%s | pending key is not a parameter' % fre.qual,
                           'the key under which freed pages are filed at %s does not depend on a caller-supplied transaction id: '
                           'every freed page would become releasable regardless of open readers' % fre.loc(bb), where=fre.loc(bb)))
        else:
            res.append(ok(rule, 'pending key at %s is the caller-supplied transaction id' % fre.loc(bb), sites=1))
    if keyed == 0:
        res.append(floor(rule, 'keyed insertion into pending_pages', 0, 1))
    # the wrapper passes the transaction id carried in the writer's Meta
    du2 = ctx.du(txfre)
    sites = _calls_incl_closures(ctx, txfre, fre_raw)
    if not sites:
        res.append(floor(rule, 'calls of the free role from the transaction wrapper', 0, 1))
    for hostfn, bb, t in sites:
        idx = None
        # which argument reaches the key: the one whose parameter index was found above -> take all non-receiver args
        okk = False
        du2 = ctx.du(hostfn)
        for a in t['args'][1:]:
            _, atoms = du2.slice_operand(a)
            if hostfn.kind == 'Closure':
                # a captured value: follow the upvar back to what the creator captured
                ups = {x[1] for x in atoms if x[0] == 'arg'} | {1}
                _, atoms2 = _capture_atoms(ctx, txfre, hostfn)
                atoms = set(atoms) | atoms2
            if has_field(atoms, 'Meta', 'tx_id'):
                okk = True
        if okk:
            res.append(ok(rule, 'free at %s files pages under the transaction id of the writer\'s Meta' % hostfn.loc(bb), sites=1))
        else:
            res.append(bad(rule, '%s | key not from Meta.tx_id' % txfre.qual,
                           'the transaction id passed to the free role at %s does not come from the writer\'s Meta.tx_id' % hostfn.loc(bb), where=hostfn.loc(bb)))
    return res


SUBSLICE = {'index', 'index_mut', 'get', 'get_mut', 'split_at', 'split_at_mut', 'split_first', 'split_last', 'take', 'skip', 'step_by', 'chunks', 'first', 'last',
            'truncate', 'get_unchecked', 'split_off', 'drain', 'take_while', 'skip_while', 'filter', 'nth', 'windows', 'rchunks', 'chunks_exact'}


def _is_subslice(fn, atom):
    """is the call atom an operation that yields only part of a [u64] / Vec<u64> / iterator over it?"""
    name = last_seg(strip_generics(atom[2]))
    if name not in SUBSLICE:
        return False
    t = fn.term(atom[1])
    c = callee_of(t)
    st = (c.get('self_ty') or '') if c else ''
    if 'u64' in st and ('[' in st or 'Vec<' in st or 'Iter' in st):
        return True
    if t['args']:
        from facts import op_local
        l = op_local(t['args'][0])
        if l is not None:
            ty = fn.locals[l]['ty']
            return 'u64' in ty and ('[u64]' in ty or 'Vec<u64>' in ty or 'Iter<' in ty)
    return False


def reload_rule(ctx, rule='C02.reload'):
    res = []
    try:
        dbopen, ini, hdr = ctx.need('DBInner::open', 'init-role', 'DBInner::meta')
    except AnchorError as e:
        return [unresolved(rule, str(e))]
    F = ctx.facts
    import c03
    # the load may live in a helper that is reachable only through DBInner::open
    holder = dbopen
    if not calls_to_fn(F, dbopen, ini):
        for g in sorted(F.reachable_fns([dbopen]), key=lambda f: f.path):
            if g is not dbopen and calls_to_fn(F, g, ini) and c03._only_via(F, g, dbopen):
                holder = g
    sites = calls_to_fn(F, holder, ini)
    dbopen = holder
    du = ctx.du(dbopen)
    if not sites:
        return [bad(rule, '%s | free list not loaded' % dbopen.qual, 'DBInner::open no longer loads the persisted free list into the free set '
                    '(after reopening, every freed page is forgotten)', where='%s:%d' % (dbopen.file, dbopen.line))]
    # a bound on the LENGTH of the persisted list that is derived from the page size but not from the page's overflow count treats every multi-page
    # list as damaged (or cuts it): free lists spill into overflow pages
    import c16
    for bb in sorted(dbopen.reachable_blocks()):
        t0 = dbopen.term(bb)
        if t0['k'] != 'switch':
            continue
        e = du.sym(t0['discr'])
        has_count = c16._tree_has(e, lambda x: x[0] == 'field' and x[2] and x[2][-1] == 'count')
        has_ps = c16._tree_has(e, lambda x: (x[0] == 'field' and x[2] and x[2][-1] == 'pagesize') or
                               (x[0] == 'arg' and 1 <= x[1] <= dbopen.argc and dbopen.locals[x[1]]['ty'] == 'u64'))
        has_ovf = c16._tree_has(e, lambda x: x[0] == 'field' and x[2] and x[2][-1] == 'overflow')
        if has_count and has_ps and not has_ovf:
            res.append(bad(rule, '%s | free-list length bounded by a one-page capacity' % dbopen.qual,
                           'at %s the element count of the free-list page is compared with a bound computed from the page size (%s) that ignores the page\'s overflow count: '
                           'a valid free list that spans overflow pages is refused or cut on open' % (dbopen.loc(bb), c16._fmt(e)[:120]), where=dbopen.loc(bb)))
    for bb, t, c in sites:
        # the free set is seeded with the persisted list itself: a list *computed* at open (pages "recovered" by a reachability walk, a filtered copy) makes whatever that
        # computation gets wrong allocatable
        head = du.sym(t['args'][1])
        while head[0] == 'call' and len(head[2]) >= 1 and head[1] not in F.by_path and last_seg(strip_generics(head[1])) in (
                'deref', 'as_slice', 'as_ref', 'borrow', 'as_mut_slice', 'deref_mut', 'from_ref', 'into_iter', 'iter', 'copied', 'cloned'):
            head = head[2][0]
        if head[0] == 'call' and head[1] in F.by_path:
            g = F.by_path[head[1]]
            if not (g.self_adt and last_seg(g.self_adt) == 'Page'):
                res.append(bad(rule, '%s | free set seeded with a computed list (%s)' % (dbopen.qual, g.qual),
                               'the list handed to %s at %s is the result of %s, not the persisted free list read from the page: pages that computation wrongly takes for unused '
                               '(overflow pages it does not follow, pages of the previous snapshot) become allocatable while they are live' % (ini.qual, dbopen.loc(bb), g.qual),
                               where=dbopen.loc(bb)))
                continue
        _, atoms = du.slice_operand(t['args'][1])
        from_hdr = has_call(atoms, hdr.path)
        from_field = has_field(atoms, 'Meta', 'freelist_page')
        # the whole persisted list must be loaded: the slice handed over is the free-list view itself, not a part of it
        cut = sorted({last_seg(strip_generics(a[2])) for a in atoms if a[0] == 'call' and _is_subslice(dbopen, a)})
        if from_hdr and from_field and cut:
            res.append(bad(rule, '%s | persisted free list loaded only in part (%s)' % (dbopen.qual, ','.join(cut)),
                           'the list handed to %s at %s is cut down with `%s` before it is loaded: a free list that spans overflow pages loses its tail on every reopen, the '
                           'next commit persists the shortened list and the dropped pages are never reused' % (ini.qual, dbopen.loc(bb), ', '.join(cut)), where=dbopen.loc(bb)))
        elif from_hdr and from_field:
            res.append(ok(rule, 'the list loaded at %s is read from the page named by the header that header selection returned' % dbopen.loc(bb), sites=1))
        else:
            res.append(bad(rule, '%s | free list not read through the chosen header' % dbopen.qual,
                           'the free list handed to %s at %s does not depend on the freelist_page of the header chosen by %s '
                           '(header=%s, field=%s): a stale or constant page would be loaded' % (ini.qual, dbopen.loc(bb), hdr.qual, from_hdr, from_field),
                           where=dbopen.loc(bb)))
    return res


def image_builders(ctx):
    """functions reachable from Tx::commit that build a header image in a byte buffer: they seal it (Meta.hash := checksum role)
    through a pointer (`(*m).hash = ..`), unlike value conversions, which build a Meta value"""
    F = ctx.facts
    cm = ctx.A.get('Tx::commit')
    cs = ctx.A.get('checksum-role')
    out = []
    if cm is None or cs is None:
        return out
    for fn in sorted(F.reachable_fns([cm]), key=lambda f: f.path):
        for bb, si, s in stores_to_field(fn, 'Meta', 'hash'):
            pr = s['p']['pr']
            if len(pr) == 2 and pr[0]['k'] == 'deref' and s['rv']['k'] == 'use' and has_call(ctx.du(fn).slice_operand(s['rv']['op'])[1], cs.path):
                out.append(fn)
                break
    return out


def image_stores(fn, fld):
    """stores into field `fld` of a header image through a `&mut Meta` pointer"""
    return [(bb, si, s) for bb, si, s in stores_to_field(fn, 'Meta', fld) if len(s['p']['pr']) == 2 and s['p']['pr'][0]['k'] == 'deref']


def _slot_dependence(ctx, fn, du, operand, NONID):
    """(depends on the snapshot's slot, through a non-identity function): by data flow (`(slot == 0) as u32`, `1 - slot`, `slot ^ 1`) or by control flow
    (`if slot == 0 { 1 } else { 0 }`: a local assigned different constants under a test of the slot)"""
    _, atoms = du.slice_operand(operand)
    dep = has_field(atoms, 'Meta', 'meta_page')
    nonid = any(a[0] == 'bin' and a[1] in NONID for a in atoms) or any(a[0] == 'un' for a in atoms)
    if dep and nonid:
        return True, True
    l = op_local(operand)
    if l is None:
        return dep, nonid
    locs, _ = du.slice_local(l)
    for x in sorted(locs):
        ds = du.defs.get(x, [])
        consts = set()
        for bb, si in ds:
            if si is None:
                continue
            st = fn.blocks[bb]['stmts'][si]
            if not st['p']['pr'] and st['rv']['k'] == 'use' and st['rv']['op']['k'] == 'const':
                consts.add(st['rv']['op']['c'].get('val'))
        if len(ds) >= 2 and len(consts) >= 2:
            for bb, si in ds:
                for (a, sx) in fn.control_deps_transitive(bb):
                    at = fn.term(a)
                    if at['k'] != 'switch':
                        continue
                    _, da = du.slice_operand(at['discr'])
                    if has_field(da, 'Meta', 'meta_page'):
                        return True, True
    return dep, nonid


def _eval_slot(e, v, depth=0):
    """value of a slot expression when the snapshot's Meta.meta_page is v; None when it cannot be evaluated"""
    if depth > 30 or not isinstance(e, tuple) or not e:
        return None
    k = e[0]
    if k == 'const':
        return e[1] if isinstance(e[1], (int, bool)) else None
    if k == 'field':
        return v if e[2] and e[2][-1] == 'meta_page' else None
    if k == 'un':
        a = _eval_slot(e[2], v, depth + 1)
        if a is None:
            return None
        if e[1] == 'Not':
            return (not a) if isinstance(a, bool) else None
        if e[1] in ('cast', 'Cast', 'copy', 'move'):
            return int(a)
        if e[1] == 'Neg':
            return -a
        return None
    if k == 'bin':
        a, b = _eval_slot(e[2], v, depth + 1), _eval_slot(e[3], v, depth + 1)
        if a is None or b is None:
            return None
        op = e[1].replace('WithOverflow', '').replace('Unchecked', '')
        try:
            return {'Eq': lambda: a == b, 'Ne': lambda: a != b, 'Lt': lambda: a < b, 'Le': lambda: a <= b, 'Gt': lambda: a > b, 'Ge': lambda: a >= b,
                    'Add': lambda: int(a) + int(b), 'Sub': lambda: int(a) - int(b), 'Mul': lambda: int(a) * int(b), 'BitXor': lambda: int(a) ^ int(b),
                    'BitAnd': lambda: int(a) & int(b), 'BitOr': lambda: int(a) | int(b), 'Rem': lambda: int(a) % int(b) if b else None}[op]()
        except KeyError:
            return None
    if k == 'call' and len(e[2]) == 1 and last_seg(strip_generics(e[1])) in ('from', 'into', 'try_from', 'try_into', 'unwrap'):
        a = _eval_slot(e[2][0], v, depth + 1)
        return None if a is None else int(a)
    return None


def alternate_rule(ctx, rule='C02.alternate'):
    """the header slot written by a commit is a non-identity function of the slot of the snapshot it started from"""
    res = []
    builders = image_builders(ctx)
    if not builders:
        return [floor(rule, 'header-image builders in the commit trace', 0, 1)]
    NONID = ('Eq', 'Ne', 'BitXor', 'Sub', 'SubWithOverflow', 'Add', 'AddWithOverflow', 'Rem', 'Lt', 'Gt')
    for fn in builders:
        du = ctx.du(fn)
        stores = image_stores(fn, 'meta_page')
        if not stores:
            res.append(bad(rule, '%s | header image never sets meta_page' % fn.qual, 'the header image built in %s never assigns Meta.meta_page' % fn.qual, where='%s:%d' % (fn.file, fn.line)))
            continue
        for bb, si, s in stores:
            if s['rv']['k'] not in ('use', 'cast'):
                continue
            dep, nonid = _slot_dependence(ctx, fn, du, s['rv']['op'], NONID)
            # where the expression can be evaluated for both slots, it is the swap 0 -> 1, 1 -> 0 (`u64::from(slot != 0)` has the same shape and is the identity)
            vals = [_eval_slot(du.sym(s['rv']['op']), v) for v in (0, 1)]
            if dep and nonid and None not in vals and (int(vals[0]), int(vals[1])) != (1, 0):
                res.append(bad(rule, '%s | slot function is not the swap (0 -> %s, 1 -> %s)' % (fn.qual, int(vals[0]), int(vals[1])),
                               'the slot number stored into the header image at %s evaluates to %s for a snapshot in slot 0 and to %s for one in slot 1: a commit overwrites the header '
                               'it started from, and the other slot keeps an ever older state' % (fn.loc(bb, si), int(vals[0]), int(vals[1])), where=fn.loc(bb, si)))
                continue
            if dep and nonid:
                res.append(ok(rule, 'meta_page stored at %s is computed from (not copied from) the snapshot\'s slot' % fn.loc(bb, si), sites=1))
            else:
                res.append(bad(rule, '%s | meta_page copied or constant' % fn.qual,
                               'the slot number stored into the header image at %s is %s: every commit would overwrite the same header page in place, '
                               'so a torn header write leaves no recent valid header' % (fn.loc(bb, si), 'a plain copy of the current slot' if dep else 'independent of the current slot'),
                               where=fn.loc(bb, si)))
    # the file offset of the header write must come from the same computation (directly, or through the builder's result)
    T = commit.commit_trace(ctx)
    H = [e for e in T.events('W') if e.get('sub') == 'H' and not e.get('summary')]
    if not H:
        res.append(floor(rule, 'header writes in the commit trace', 0, 1))
    bpaths = {b.path for b in builders}
    for h in H:
        n = T.nodes[h['node']]
        fn = n.fn
        du = ctx.du(fn)
        seeks = [(sb, st) for sb, st, sc in calls_named(ctx.facts, fn, 'Seek::seek') if fn.dominates(sb, n.bb) and 'std::fs::File' in (sc.get('self_ty') or '')]
        seeks = [(sb, st) for sb, st in seeks if not any(fn.dominates(sb, ob) and fn.dominates(ob, n.bb) and ob != sb for ob, _ in seeks)]
        for sb, st in seeks[-1:]:
            _, atoms = du.slice_operand(st['args'][1])
            direct = all(_slot_dependence(ctx, fn, du, st['args'][1], ('Eq', 'Ne', 'BitXor', 'Sub', 'SubWithOverflow')))
            via = any(a[0] == 'call' and a[2] in bpaths for a in atoms)
            if direct or via:
                res.append(ok(rule, 'header write offset at %s derives from the alternate-slot computation' % fn.loc(sb), sites=1))
            else:
                res.append(bad(rule, '%s | header offset not from alternate slot' % fn.qual,
                               'the file offset of the header write (seek at %s) does not derive from the alternate-slot computation' % fn.loc(sb), where=fn.loc(sb)))
        if not seeks:
            res.append(bad(rule, '%s | header write without a preceding seek' % fn.qual, 'the header write at %s is not preceded by a seek on the file' % h['loc'], where=h['loc']))
    return res


def run(ctx, tier):
    results = []
    ob = commit.obligations(ctx)
    results += ob['O1'] + ob['O2'] + ob['O3'] + ob['O4']
    results += commit.complete_writes(ctx)
    results += creation_rules(ctx)
    results += cow_write_set(ctx)
    results += cow_free_set(ctx)
    results += pending_key(ctx)
    results += reload_rule(ctx)
    results += alternate_rule(ctx)
    import c12
    results += c12.select_total(ctx, rule='C02.select')
    results += c12.checksum_total(ctx, rule='C02.checksum-total')
    results += c12.validate_before_trust(ctx, rule='C02.validate-before-trust')
    results += c12.selection_always_validates(ctx, rule='C02.selection-validates')
    import c15
    results += c15.legacy_fallback(ctx, rule='C02.legacy-conversion')
    import profile
    results += profile.debug_pure(ctx, 'C02.debug-pure')
    results += c12.header_extent(ctx, rule='C02.header-extent')
    import c06
    results += c06.open_existing(ctx, rule='C02.open-existing')
    # the syncs of a commit run on the file behind the writer lock: once the lock is gone the next writer reuses the pages of the state before this commit,
    # which a header that is not yet durable still needs
    import c09
    results += c09.file_via_guard(ctx, rule='C02.file-via-guard')
    # the slot a commit writes is the other one than the slot of the header the transaction began from: that header is read from the file, never from a cached copy
    results += c09.snapshot_source(ctx, rule='C02.snapshot-source')
    # a writer works from the free list as the previous commit left it: the copy is taken behind the writer lock
    results += c09.writer_reads_after_lock(ctx, rule='C02.writer-snapshot')
    # an error of a sync or write is an error of the commit: it is not swallowed and retried (after a failed fsync the kernel may have dropped the dirty pages)
    import c11
    results += c11.propagate(ctx, rule='C02.propagate')
    return dict(
        results=results,
        stats=dict(ctx.stats),
        explanation=(
            'Static path and effect rules over the MIR of the current tree; decides the ORDERING and OWNERSHIP clauses that are necessary for crash '
            'atomicity, for all commits at once: (O1) every data/grow write before the header write is followed by a propagated sync, (O2) nothing is '
            'written after the header, (O3) a successful return implies a propagated sync after the header; the creation path syncs before returning; '
            'commit writes only pages from the transaction allocation map whose ids come from the free set or the high-water mark (copy-on-write); the '
            'free set gains pages only through release/load-on-open and freed pages are filed as pending under the writer\'s transaction id; the header '
            'slot alternates; header selection consults both validity bits; the checksum covers every header field (a torn header write is detectable); the free list is reloaded through the chosen header. NOT decided: that the '
            'pages chosen are really unreachable from the current header (value invariant), torn-sector behaviour of the checksum, fsync semantics.'),
        assumptions=['File::sync_all/sync_data make preceding writes durable (POSIX fsync)', 'write_all on a File issues write(2) in program order',
                     'only the cfg(unix) library target is analysed'])
