"""C08 Cursors, seeks and ranges return the right entries in order (clause level)"""
from core import ok, bad, unresolved, floor
from anchors import AnchorError
from facts import callee_of, op_local, op_place, op_const_val, last_seg, strip_generics
from util import calls_to_fn, calls_named, has_field, has_call, stores_to_field
from reach import reach_specialised

CMP = {'lt', 'le', 'gt', 'ge', 'cmp', 'partial_cmp', 'eq', 'ne'}
ITER_API = ('<Cursor as Iterator>::next', '<Range as Iterator>::next', '<Buckets as Iterator>::next', '<KVPairs as Iterator>::next',
            'Cursor::seek', 'Cursor::current', 'Bucket::cursor', 'Bucket::range', 'Bucket::buckets', 'Bucket::kv_pairs', 'Tx::buckets')
LEN_CALLS = {'len', 'count'}


def _bound_switches(fn, method):
    """[(call_bb, local holding the Bound, switch_bb, {variant index: target}, otherwise)] for calls of RangeBounds::<method>"""
    out = []
    for bb in sorted(fn.reachable_blocks()):
        t = fn.term(bb)
        c = callee_of(t) if t['k'] == 'call' else None
        if not c or c['path'] != 'std::ops::RangeBounds::' + method:
            continue
        l = t['dest']['l']
        nb = t['target']
        if nb is None:
            continue
        sw = None
        b = fn.blocks[nb]
        dl = None
        for s in b['stmts']:
            if s['k'] == 'assign' and s['rv']['k'] == 'discr' and s['rv']['p']['l'] == l:
                dl = s['p']['l']
        tt = b['term']
        if dl is not None and tt['k'] == 'switch' and op_local(tt['discr']) == dl:
            out.append((bb, l, nb, dict((v, x) for v, x in tt['targets']), tt['otherwise']))
        else:
            out.append((bb, l, None, {}, None))
    return out


def _region(fn, start, stop_blocks):
    """blocks reachable from start without entering stop_blocks"""
    return fn.reach_from([start], avoid=set(stop_blocks))


def _payload_reads(fn, blocks, local, variant):
    n = 0
    for bb in blocks:
        for s in fn.blocks[bb]['stmts']:
            if s['k'] != 'assign':
                continue
            from facts import rvalue_places
            for p in rvalue_places(s['rv']):
                if p['l'] == local and any(e['k'] == 'downcast' and e.get('variant') == variant for e in p['pr']):
                    n += 1
    return n


def _cmp_calls(fn, blocks):
    out = []
    for bb in sorted(blocks):
        t = fn.term(bb)
        c = callee_of(t) if t['k'] == 'call' else None
        if c and c.get('trait') in ('std::cmp::PartialOrd', 'std::cmp::Ord', 'std::cmp::PartialEq') and last_seg(strip_generics(c['path'])) in CMP:
            out.append((bb, last_seg(strip_generics(c['path']))))
    return out


def bounds_total(ctx, rule='C08.bounds-total'):
    try:
        (rn,) = ctx.need('<Range as Iterator>::next')
    except AnchorError as e:
        return [unresolved(rule, str(e))]
    res = _bounds_total_of(ctx, rule, rn, stop=())
    # any other method of the range type that drives the cursor itself (an overridden `last`, `nth`, a reverse iterator ...) is a second producer of
    # entries and has to honour both bounds on its own; going through `next` inherits them
    F = ctx.facts
    nother = 0
    for e in sorted(F.fns, key=lambda f: f.path):
        if e is rn or e.kind == 'Closure' or e.self_adt != rn.self_adt:
            continue
        if not (e.trait or e.eff_pub):
            continue
        own = [g for g in F.reachable_fns([e], stop={rn}) if g.self_adt == rn.self_adt or (g.kind == 'Closure' and g.owner is not None and g.owner.self_adt == rn.self_adt)]
        drives = []
        for g in own:
            for bb, t, target, c in F.call_sites(g):
                if target is not None and target.self_adt and last_seg(target.self_adt) == 'Cursor' and target.name in ('seek', 'current', 'next', 'seek_first', 'seek_last', 'prev', 'last'):
                    drives.append((g, bb, target))
        if not drives:
            continue
        nother += 1
        sub = _bounds_total_of(ctx, rule, e, stop={rn})
        if any(not r.ok for r in sub):
            g, bb, target = drives[0]
            res.append(bad(rule, '%s | second producer does not apply both bounds' % e.qual,
                           '%s positions the cursor itself (%s at %s) instead of going through Range::next, and does not match on both bounds the way next does (%s): it can yield an '
                           'entry outside the range' % (e.qual, target.qual, g.loc(bb), '; '.join(r.key.split(' | ', 1)[-1] for r in sub if not r.ok)), where=g.loc(bb)))
        else:
            res.append(ok(rule, '%s drives the cursor itself and matches on both bounds' % e.qual, sites=1))
    ctx.stats['range_producers_besides_next'] = nother
    return res


def _bounds_total_of(ctx, rule, rn, stop=()):
    res = []
    du = ctx.du(rn)
    VAR = {0: 'Included', 1: 'Excluded', 2: 'Unbounded'}
    scope = [rn] + sorted((g for g in ctx.facts.reachable_fns([rn], stop=set(stop)) if g is not rn and g.self_adt == rn.self_adt), key=lambda f: f.path)
    for method in ('start_bound', 'end_bound'):
        fn, sws = rn, []
        for g in scope:     # the match may have been extracted into a helper method of Range
            sw = _bound_switches(g, method)
            if sw:
                fn, sws = g, sw
                break
        du = ctx.du(fn)
        if not sws:
            res.append(bad(rule, '%s | %s never consulted' % (fn.qual, method), 'Range::next never calls %s(): that bound cannot be honoured' % method, where='%s:%d' % (fn.file, fn.line)))
            continue
        for (cb, l, sb, tg, oth) in sws:
            if sb is None:
                res.append(bad(rule, '%s | %s not matched on' % (fn.qual, method), 'the value of %s() at %s is not matched on its variants' % (method, fn.loc(cb)), where=fn.loc(cb)))
                continue
            targets = {}
            for vi, name in VAR.items():
                targets[name] = tg.get(vi, oth)
            # each payload-carrying variant has its own arm, distinct from the others and from Unbounded
            okk = True
            for name in ('Included', 'Excluded'):
                others = [targets[x] for x in VAR.values() if x != name]
                if targets[name] in others:
                    okk = False
                    shared = [x for x in VAR.values() if x != name and targets[x] == targets[name]]
                    res.append(bad(rule, '%s | %s %s shares its arm with %s' % (fn.qual, method, name, '/'.join(shared)),
                                   'in Range::next the %s variant of %s() (matched at %s) is handled by the same code as %s: an %s bound is treated like %s'
                                   % (name, method, fn.loc(sb), '/'.join(shared), name.lower(), '/'.join(shared).lower()), where=fn.loc(sb)))
                    continue
                region = _region(fn, targets[name], others)
                nread = _payload_reads(fn, region, l, name)
                if nread == 0:
                    okk = False
                    res.append(bad(rule, '%s | %s %s payload unread' % (fn.qual, method, name),
                                   'the key carried by the %s variant of %s() is never read in its arm (%s): the bound cannot be honoured for any key' % (name, method, fn.loc(targets[name])), where=fn.loc(targets[name])))
            if okk:
                # the two arms must not use one and the same comparison
                inc = {n for _, n in _cmp_calls(fn, _region(fn, targets['Included'], [targets['Excluded'], targets['Unbounded']]) - _region(fn, targets['Excluded'], [targets['Included'], targets['Unbounded']]))}
                exc = {n for _, n in _cmp_calls(fn, _region(fn, targets['Excluded'], [targets['Included'], targets['Unbounded']]) - _region(fn, targets['Included'], [targets['Excluded'], targets['Unbounded']]))}
                if inc and exc and inc == exc:
                    res.append(bad(rule, '%s | %s Included and Excluded compare alike (%s)' % (fn.qual, method, '/'.join(sorted(inc))),
                                   'the Included and the Excluded arm of %s() both decide with `%s`: one of the two bound kinds is off by one entry' % (method, '/'.join(sorted(inc))), where=fn.loc(sb)))
                elif not inc or not exc:
                    res.append(bad(rule, '%s | %s arm without comparison' % (fn.qual, method),
                                   'an arm of %s() contains no key comparison (Included: %s, Excluded: %s): after a seek the cursor may rest on either neighbour of an absent key, so the '
                                   'bound cannot be applied without comparing the current key with it' % (method, sorted(inc), sorted(exc)), where=fn.loc(sb)))
                else:
                    res.append(ok(rule, '%s(): Included (%s) and Excluded (%s) have their own arms, read their payload and compare differently; Unbounded is separate'
                                  % (method, '/'.join(sorted(inc)), '/'.join(sorted(exc))), sites=3))
    return res


def end_justified(ctx, rule='C08.end-justified'):
    """Range::next may end the iteration (return None) only because the cursor is exhausted or because the current key failed a comparison with a bound;
    an end decided by anything else (a flag computed elsewhere, a counter) drops entries that lie inside the range"""
    res = []
    try:
        (rn,) = ctx.need('<Range as Iterator>::next')
    except AnchorError as e:
        return [unresolved(rule, str(e))]
    F = ctx.facts
    n = 0
    scope = [rn] + sorted((g for g in F.reachable_fns([rn]) if g is not rn and g.self_adt == rn.self_adt and g.locals[0]['ty'] == rn.locals[0]['ty']), key=lambda f: f.path)
    for fn in scope:
        du = ctx.du(fn)
        for bb in sorted(fn.reachable_blocks()):
            sites = [(si, st) for si, st in enumerate(fn.blocks[bb]['stmts'])
                     if st['k'] == 'assign' and st['p']['l'] == 0 and not st['p']['pr'] and st['rv']['k'] == 'agg' and st['rv'].get('variant') == 'None']
            tt = fn.term(bb)
            if tt['k'] == 'call' and tt['dest']['l'] == 0 and not tt['dest']['pr'] and (callee_of(tt) or {}).get('path') == 'std::ops::FromResidual::from_residual':
                sites.append((None, None))        # `x?` on an Option: the None of x is handed back
            for si, st in sites:
                n += 1
                just = []
                ctrl = fn.control_deps_transitive(bb)
                for (a, sx) in ctrl:
                    at = fn.term(a)
                    if at['k'] != 'switch':
                        continue
                    # judged on the expression tree of the test itself (a flow-insensitive slice would also see the `next()` calls that merely moved the cursor)
                    e = du.sym(at['discr'])

                    def walk(x, depth=0):
                        if depth > 12 or not isinstance(x, tuple):
                            return
                        if x[0] == 'call':
                            nm = last_seg(strip_generics(x[1]))
                            if nm in CMP and ('cmp::Partial' in x[1] or 'cmp::Ord' in x[1]):
                                just.append('a key comparison')
                                return
                            if nm == 'next' and ('Iterator' in x[1] or 'Cursor' in x[1]):
                                # (`current()` being None is no evidence of the end: it is None on a leaf emptied in this transaction; `next()` skips those)
                                just.append('the end of the cursor (next() returned None)')
                                return
                            if nm in ('branch', 'deref', 'as_ref', 'clone', 'not', 'into', 'from'):
                                for y in x[2]:
                                    walk(y, depth + 1)
                            return
                        if x[0] in ('discr', 'un'):
                            walk(x[-1], depth + 1)
                        elif x[0] == 'bin':
                            walk(x[2], depth + 1)
                            walk(x[3], depth + 1)
                        elif x[0] == 'field':
                            walk(x[1], depth + 1)
                        elif x[0] == 'phi':
                            # a flag assigned in several places (`let in_range = match .. { .. }`): fall back to the slice for comparisons only
                            _, atoms = du.slice_local(x[1])
                            for a in atoms:
                                if a[0] == 'call' and last_seg(strip_generics(a[2])) in CMP and ('cmp::Partial' in a[2] or 'cmp::Ord' in a[2]):
                                    just.append('a key comparison')
                    walk(e)
                where = fn.loc(bb, si) if si is not None else fn.loc(bb)
                if just:
                    res.append(ok(rule, 'None at %s follows %s' % (where, just[0]), sites=1))
                else:
                    res.append(bad(rule, '%s | iteration ended without consulting cursor or bound' % fn.qual,
                                   'Range::next returns None at %s although neither the end of the cursor nor a comparison of the current key with a bound controls that return '
                                   '(controlled by: %s): entries inside the range are never yielded' % (where, ', '.join(fn.loc(a) for a, _ in ctrl) or 'nothing'), where=where))
    f = floor(rule, 'None returns of Range::next', n, 2)
    if f:
        res.append(f)
    return res


def end_checked(ctx, rule='C08.end-checked'):
    """every entry Range::next hands out has been compared with the end bound: each block that puts a value other than None into the return slot is
    dominated by the consultation of end_bound() (an early `return self.c.next()` from the start-positioning code skips the end check)"""
    res = []
    try:
        (rn,) = ctx.need('<Range as Iterator>::next')
    except AnchorError as e:
        return [unresolved(rule, str(e))]
    X = ctx.x(rn)
    ends = [bb for bb in X.reachable_blocks() if X.term(bb)['k'] == 'call' and (callee_of(X.term(bb)) or {}).get('path') == 'std::ops::RangeBounds::end_bound']
    if not ends:
        return [bad(rule, '%s | end_bound never consulted' % rn.qual, 'Range::next never calls end_bound()', where='%s:%d' % (rn.file, rn.line))]
    n = 0
    for bb in sorted(X.reachable_blocks()):
        yields = False
        for st in X.blocks[bb]['stmts']:
            if st['k'] == 'assign' and st['p']['l'] == 0 and not st['p']['pr']:
                rv = st['rv']
                if rv['k'] == 'agg' and rv.get('variant') == 'None':
                    continue
                yields = True
        t = X.term(bb)
        if t['k'] == 'call' and t['dest']['l'] == 0 and not t['dest']['pr'] and (callee_of(t) or {}).get('path') != 'std::ops::FromResidual::from_residual':
            yields = True          # (`self.c.next()?` hands back None through from_residual: not an entry)
        if not yields:
            continue
        n += 1
        if any(X.dominates(e, bb) for e in ends):
            res.append(ok(rule, 'the value returned at %s has passed the end-bound match' % X.loc(bb), sites=1))
        else:
            res.append(bad(rule, '%s | entry returned without the end-bound check' % rn.qual,
                           'Range::next can return an entry at %s on a path that never consults end_bound(): for an empty or reversed range whose start key exists (k..k, e..a) '
                           'that entry lies outside the range' % X.loc(bb), where=X.loc(bb)))
    f = floor(rule, 'blocks of Range::next that return an entry', n, 1)
    if f:
        res.append(f)
    return res


def seek_searches(ctx, rule='C08.seek-searches'):
    """Cursor::seek positions the cursor by a tree search from the bucket's root on every path: a shortcut that re-uses the current stack (looking only at the
    current leaf or its parent) is wrong whenever the key lies outside the subtree that stack describes"""
    res = []
    try:
        (sk,) = ctx.need('Cursor::seek')
    except AnchorError as e:
        return [unresolved(rule, str(e))]
    sr = ctx.A.get('search-role')
    if sr is None:
        return [unresolved(rule, 'search role')]
    X = ctx.x(sk)
    S = {bb for bb, t, c in calls_to_fn(ctx.facts, X, sr)}
    if not S:
        return [bad(rule, '%s | seek never searches' % sk.qual, 'Cursor::seek does not call the tree search', where='%s:%d' % (sk.file, sk.line))]
    reach = X.reach_from([0], avoid=S)
    rets = [bb for bb in sorted(reach) if X.term(bb)['k'] == 'return']
    if rets:
        res.append(bad(rule, '%s | seek can return without a search from the root' % sk.qual,
                       'Cursor::seek can return at %s on a path that never calls the tree search (%s): the cursor keeps a position derived from its previous stack, which is '
                       'wrong for a key outside that subtree' % (X.loc(rets[0]), sr.qual), where=X.loc(rets[0])))
    else:
        res.append(ok(rule, 'every return of Cursor::seek passes the tree search (%d call site(s))' % len(S), sites=len(S)))
    # a search that FILLS a stack it is handed (`&mut self.stack`) must find it empty: frames of the previous position left underneath the new path are walked
    # again once the new path is exhausted
    from flow import Prov
    pv = Prov(X)
    for sb, stt, sc in calls_to_fn(ctx.facts, X, sr):
        for ai, a in enumerate(stt['args']):
            pl = op_place(a)
            if pl is None or not X.locals[pl['l']]['ty'].startswith('&mut std::vec::Vec<'):
                continue
            if not any(a2 and last_seg(a2) == 'Cursor' and nm2 == 'stack' for a2, nm2 in pv.of_operand(a)[0]):
                continue
            cleared = False
            for cb, ct, cc in calls_named(ctx.facts, X, 'Vec::clear', 'Vec::truncate', 'Vec::drain'):
                if ct['args'] and any(a2 and last_seg(a2) == 'Cursor' and nm2 == 'stack' for a2, nm2 in pv.of_operand(ct['args'][0])[0]) and X.dominates(cb, sb):
                    cleared = True
            if not cleared:
                # ... or the search itself empties its parameter before it pushes
                pvs = Prov(sr)
                pushes = [b for b, t2, c2 in calls_named(ctx.facts, sr, 'Vec::push')]
                for cb, ct, cc in calls_named(ctx.facts, sr, 'Vec::clear', 'Vec::truncate'):
                    l0 = op_local(ct['args'][0]) if ct['args'] else None
                    if l0 is not None and ctx.du(sr).root_of(l0) == ai + 1 and all(sr.dominates(cb, pb) for pb in pushes):
                        cleared = True
            if cleared:
                res.append(ok(rule, 'the stack handed to the tree search at %s is emptied first' % X.loc(sb), sites=1))
            else:
                res.append(bad(rule, '%s | search appends to a stack that was not emptied' % sk.qual,
                               'Cursor::seek hands `&mut self.stack` to the tree search at %s without clearing it first (and the search does not clear it): the frames of the previous '
                               'position stay under the new path, and iteration resumes from the old position once the new path is exhausted' % X.loc(sb), where=X.loc(sb)))
    return res


def _calls_into(ctx, fn, bb, target):
    """does the call at bb go to `target`, directly or through crate functions?"""
    c = callee_of(fn.term(bb))
    if not c:
        return False
    F = ctx.facts
    tg = F.by_path.get((c.get('resolved') or {}).get('path') or c['path'])
    return tg is not None and (tg is target or target in F.reachable_fns([tg]))


def start_compare(ctx, rule='C08.start-compare'):
    """in each payload arm of the start bound the skip decision compares the CURRENT key with the bound"""
    res = []
    try:
        rn, cur = ctx.need('<Range as Iterator>::next', 'Cursor::current')
    except AnchorError as e:
        return [unresolved(rule, str(e))]
    fn, sws = rn, []
    for g in [rn] + sorted((g for g in ctx.facts.reachable_fns([rn]) if g is not rn and g.self_adt == rn.self_adt), key=lambda f: f.path):
        sw = [x for x in _bound_switches(g, 'start_bound') if x[2] is not None]
        if sw:
            fn, sws = g, sw
            break
    du = ctx.du(fn)
    if not sws:
        return [floor(rule, 'matches on start_bound()', 0, 1)]
    sk = ctx.A.get('Cursor::seek')
    VAR = {0: 'Included', 1: 'Excluded', 2: 'Unbounded'}
    for (cb, l, sb, tg, oth) in sws:
        targets = {name: tg.get(vi, oth) for vi, name in VAR.items()}
        for name in ('Included', 'Excluded'):
            others = [targets[x] for x in VAR.values() if x != name]
            if targets[name] in others:
                continue
            region = _region(fn, targets[name], others)
            good = False
            for bb, cname in _cmp_calls(fn, region):
                t = fn.term(bb)
                deps = [du.slice_operand(a) for a in t['args'][:2]]
                cur_side = [i for i, (locs, atoms) in enumerate(deps) if has_call(atoms, cur.path)]
                pay_side = [i for i, (locs, atoms) in enumerate(deps) if l in locs]
                if cur_side and pay_side and set(cur_side) != set(pay_side) or (cur_side and pay_side and len(cur_side) + len(pay_side) >= 2 and cur_side != pay_side):
                    good = True
            # ... and no path through the arm gets to the first step of the iteration without having searched for the bound.  (Nothing sorts before the empty key, so an
            # *inclusive* empty bound may skip the search; an exclusive one still has to step over the empty key itself.)
            skipped = None
            if good and sk is not None:
                j = targets['Unbounded']
                hops = 0
                while fn.term(j)['k'] == 'goto' and not fn.blocks[j]['stmts'] and hops < 8:
                    j = fn.succ(j)[0]
                    hops += 1
                seeks = {b for b in region if fn.term(b)['k'] == 'call' and _calls_into(ctx, fn, b, sk)}
                ends = {j} | {b for b in region if fn.term(b)['k'] == 'return'}
                if seeks:
                    free = fn.reach_from([targets[name]], avoid=seeks | set(others))
                    if free & ends:
                        empt = set()
                        if name == 'Included':
                            for b in free:
                                t = fn.term(b)
                                if t['k'] == 'switch':
                                    locs, atoms = du.slice_operand(t['discr'])
                                    if l in locs and any(a[0] == 'call' and last_seg(strip_generics(a[2])) in ('is_empty', 'len') for a in atoms):
                                        empt.add(b)
                        if not empt or (fn.reach_from([targets[name]], avoid=seeks | set(others) | empt) & ends):
                            skipped = sorted(free & ends)[0]
            if skipped is not None:
                res.append(bad(rule, '%s | start %s arm can begin the scan without searching for the bound' % (fn.qual, name),
                               'a path through the %s arm of the start bound reaches the first step of the scan (%s) without a seek to the bound: the scan then starts at the first entry '
                               'of the bucket whatever the bound is' % (name, fn.loc(skipped)), where=fn.loc(targets[name])))
            elif good:
                res.append(ok(rule, 'start bound %s: the skip decision compares the current entry\'s key with the bound' % name, sites=1))
            else:
                res.append(bad(rule, '%s | start %s arm does not compare the current key with the bound' % (fn.qual, name),
                               'in the %s arm of the start bound no comparison relates the key of the entry the cursor rests on (Cursor::current) to the bound: seek leaves the cursor on either '
                               'neighbour of an absent key, so a positional shortcut yields a wrong first entry' % name, where=fn.loc(targets[name])))
    return res


def no_underflow(ctx, rule='C08.no-underflow'):
    res = []
    F = ctx.facts
    roots = [ctx.A.get(q) or F.fn(q) for q in ITER_API]
    roots = [r for r in roots if r is not None]
    f = floor(rule, 'iterator API entry points resolved', len(roots), 9)
    if f:
        res.append(f)
    fns = set()
    for r in roots:
        fns |= reach_specialised(F, r)
    nsub = 0
    nsafe = 0
    for fn in sorted(fns, key=lambda f: f.path):
        du = None
        for bb in sorted(fn.reachable_blocks()):
            for si, s in enumerate(fn.blocks[bb]['stmts']):
                if s['k'] != 'assign' or s['rv']['k'] != 'bin' or s['rv']['op'] not in ('Sub', 'SubWithOverflow', 'SubUnchecked'):
                    continue
                if s['rv'].get('ty') not in ('usize', 'u64', 'u32'):
                    continue
                if any(x.startswith('macro:') for x in s['span'].get('exp', [])) and 'debug_assert' in ' '.join(s['span'].get('exp', [])):
                    continue
                du = du or ctx.du(fn)
                _, la = du.slice_operand(s['rv']['a'])
                lens = [a for a in la if (a[0] == 'call' and last_seg(strip_generics(a[2])) in LEN_CALLS) or (a[0] == 'field' and a[2] == 'count' and a[1] and last_seg(a[1]) == 'Page')]
                if not lens:
                    continue
                nsub += 1
                # guarded: a dominating branch compares a value from the same length source
                guarded = False
                for gb in fn.reachable_blocks():
                    t = fn.term(gb)
                    if t['k'] == 'switch' and gb != bb and fn.dominates(gb, bb):
                        _, ga = du.slice_operand(t['discr'])
                        if (set(lens) & set(ga)) and any(a[0] == 'bin' and a[1] in ('Lt', 'Le', 'Gt', 'Ge', 'Eq', 'Ne') for a in ga):
                            guarded = True
                if guarded:
                    res.append(ok(rule, 'length subtraction at %s is dominated by a test of the same length' % fn.loc(bb, si), sites=1))
                else:
                    res.append(bad(rule, '%s | unchecked subtraction from a container length' % fn.qual,
                                   '%s computes `len - k` at %s with plain subtraction and no dominating test of the length: an empty leaf / bucket makes it underflow (panic in debug builds, a '
                                   'wrapped bound and a skipped end-of-leaf test in release builds), e.g. calling next() again after an empty bucket\'s cursor is exhausted' % (fn.qual, fn.loc(bb, si)),
                                   where=fn.loc(bb, si)))
            t = fn.term(bb)
            c = callee_of(t) if t['k'] == 'call' else None
            if c and last_seg(strip_generics(c['path'])) in ('saturating_sub', 'checked_sub', 'wrapping_sub'):
                nsafe += 1
    ctx.stats['iterator_api_fns'] = len(fns)
    ctx.stats['length_subtractions'] = nsub
    ctx.stats['saturating_or_checked_subs'] = nsafe
    # positive control of the matcher (zero subtractions is a legitimate outcome: `index + 1 >= len` has nothing to underflow): container lengths are read
    # somewhere in the functions examined
    nlen = 0
    for fn in fns:
        for bb in fn.reachable_blocks():
            t = fn.term(bb)
            c = callee_of(t) if t['k'] == 'call' else None
            if c and last_seg(strip_generics(c['path'])) in LEN_CALLS:
                nlen += 1
    f = floor(rule, 'positive control: container length reads in the functions reachable from the iterator API', nlen, 2)
    if f:
        res.append(f)
    if not any(not r.ok for r in res):
        res.append(ok(rule, '%d functions reachable from the iterator API: %d plain length subtractions (all guarded), %d saturating/checked' % (len(fns), nsub, nsafe), sites=nsub + nsafe))
    return res


def filter_total(ctx, rule='C08.filter-total'):
    res = []
    for q, wanted in (('<Buckets as Iterator>::next', 'Bucket'), ('<KVPairs as Iterator>::next', 'KeyValue')):
        fn = ctx.A.get(q)
        if fn is None:
            res.append(unresolved(rule, q))
            continue
        du = ctx.du(fn)
        # inner next() calls and the switch on their result
        inner = []
        for bb in sorted(fn.reachable_blocks()):
            t = fn.term(bb)
            c = callee_of(t) if t['k'] == 'call' else None
            if c and c['path'] == 'std::iter::Iterator::next':
                inner.append(bb)
        none_blocks = [bb for bb in fn.reachable_blocks() for s in fn.blocks[bb]['stmts']
                       if s['k'] == 'assign' and s['p']['l'] == 0 and s['rv']['k'] == 'agg' and s['rv'].get('variant') == 'None']
        adaptors = [bb for bb in sorted(fn.reachable_blocks()) if fn.term(bb)['k'] == 'call' and callee_of(fn.term(bb)) and
                    callee_of(fn.term(bb))['path'] in ('std::iter::Iterator::find_map', 'std::iter::Iterator::find', 'std::iter::Iterator::filter_map', 'std::iter::Iterator::filter')]
        if adaptors and not inner:
            res.append(ok(rule, '%s delegates to a std iterator adaptor (find_map / find / filter_map), which scans until a match or exhaustion' % fn.qual, sites=len(adaptors)))
            continue
        if not inner or not none_blocks:
            res.append(floor(rule, '%s: inner next() calls / None returns' % q, 0, 1))
            continue
        from flow import _discr_switch
        okk = True
        for ib in inner:
            t = fn.term(ib)
            sw = _discr_switch(fn, t['target'], t['dest']['l']) if t['target'] is not None else None
            if not sw:
                okk = False
                res.append(bad(rule, '%s | inner result not matched' % fn.qual, 'the result of the inner iterator at %s is not matched on' % fn.loc(ib), where=fn.loc(ib)))
                continue
            sbb, tg, oth = sw
            none_t = tg.get(0, oth)
            some_t = tg.get(1, oth)
            # `return None` only on the inner None edge: from the Some edge, no None-return is reachable without calling the inner iterator again
            reach = fn.reach_from([some_t], avoid=set(inner))
            leak = [b for b in none_blocks if b in reach]
            if leak:
                okk = False
                res.append(bad(rule, '%s | stops at the first non-matching entry' % fn.qual,
                               '%s can return None at %s after the inner iterator produced an entry (without asking it again): the filter stops early instead of skipping entries that are not %s'
                               % (fn.qual, fn.loc(leak[0]), wanted), where=fn.loc(leak[0])))
        if okk:
            res.append(ok(rule, '%s returns None only when the inner iterator is exhausted; non-matching entries continue the loop' % fn.qual, sites=len(inner)))
    return res


def seek_reset(ctx, rule='C08.seek-reset'):
    """whoever installs a new search stack in a cursor also re-initialises, on every path, the iteration state that `next` writes: the "position already handed out" flag
    (cleared to false) and any other bool flag of the cursor that `next` sets (an `exhausted` / `done` fuse ...).  The flags are found by what `next` stores, not by name."""
    res = []
    F = ctx.facts
    nx = ctx.A.get('<Cursor as Iterator>::next')
    cur = F.adt('Cursor')
    if nx is None or cur is None:
        return [unresolved(rule, 'Cursor / its next')]
    X = ctx.x(nx)
    flags = [f0['name'] for f0 in cur['variants'][0]['fields'] if f0['ty'] == 'bool' and f0['name'] != 'writable']
    written = sorted(fl for fl in flags if stores_to_field(X, 'Cursor', fl))
    f = floor(rule, 'bool flags of the cursor written by next', len(written), 1)
    if f:
        return [f]
    # the flag that next sets to true when it hands out the current position: seek must clear it (false), the others only need re-initialising
    handed = [fl for fl in written if any(s2['rv']['k'] == 'use' and op_const_val(s2['rv']['op']) == 1 for bb, si, s2 in stores_to_field(X, 'Cursor', fl))]
    n = 0
    from flow import Prov
    sr0 = ctx.A.get('search-role')
    setters = {fl: {g for g in F.fns if any(s2['rv']['k'] == 'use' and op_const_val(s2['rv']['op']) == 1 for bb, si, s2 in stores_to_field(g, 'Cursor', fl))} for fl in handed}
    for fn in sorted(F.fns, key=lambda g: g.path):
        st = stores_to_field(fn, 'Cursor', 'stack')
        if not st and sr0 is not None and fn.kind != 'Closure':
            # ... or the search is handed `&mut self.stack` to fill
            pv0 = None
            for sb, stt, sc in calls_to_fn(F, fn, sr0):
                for a in stt['args']:
                    pl = op_place(a)
                    if pl is not None and fn.locals[pl['l']]['ty'].startswith('&mut std::vec::Vec<'):
                        pv0 = pv0 or Prov(fn)
                        if any(a2 and last_seg(a2) == 'Cursor' and nm2 == 'stack' for a2, nm2 in pv0.of_operand(a)[0]):
                            st = [(sb, 0, None)]
        if not st or fn.name == 'new' or fn.trait:
            continue
        n += 1
        Y = ctx.x(fn)
        okk = True
        for fl in written:
            if fl in handed:
                resets = [bb for bb, si, s2 in stores_to_field(Y, 'Cursor', fl) if s2['rv']['k'] == 'use' and op_const_val(s2['rv']['op']) == 0]
            else:
                resets = [bb for bb, si, s2 in stores_to_field(Y, 'Cursor', fl)]
            rets = [b for b in Y.reach_from([0], avoid=set(resets)) if Y.term(b)['k'] == 'return']
            if resets and not rets:
                # ... and nothing sets the flag again behind the reset: a `self.next()` used to step off an empty leaf marks the new position as already handed out
                again = None
                if fl in handed:
                    for b2 in Y.reachable_blocks():
                        t2 = Y.term(b2)
                        sets = any(s3['rv']['k'] == 'use' and op_const_val(s3['rv']['op']) == 1 for bq, sq, s3 in stores_to_field(Y, 'Cursor', fl) if bq == b2)
                        if not sets and t2['k'] == 'call':
                            c2 = callee_of(t2)
                            tg = F.by_path.get((c2.get('resolved') or {}).get('path') or c2['path']) if c2 else None
                            if tg is not None and any(g in setters[fl] for g in F.reachable_fns([tg])):
                                sets = tg.qual
                        if sets and any(Y.term(b3)['k'] == 'return' for b3 in Y.reach_from(Y.succ(b2), avoid=set(resets) - {b2})):
                            again = (b2, sets)
                            break
                if again is None:
                    continue
                okk = False
                res.append(bad(rule, '%s | next_called set again after the reset' % fn.qual,
                               '%s clears `%s` but then %s at %s and can return with the flag set: the first next() after the seek steps over the entry the cursor was '
                               'positioned on' % (fn.qual, fl, 'stores true' if again[1] is True else 'calls %s, which sets it' % again[1], Y.loc(again[0])), where=Y.loc(again[0])))
                continue
            okk = False
            if fl == 'next_called' or (len(written) == 1 and fl in handed):
                res.append(bad(rule, '%s | new stack without clearing next_called' % fn.qual,
                               '%s replaces the cursor\'s search stack (%s) but can return without setting `%s` = false: the first next() after a seek would skip the entry the cursor '
                               'was positioned on' % (fn.qual, fn.loc(st[0][0]), fl), where=fn.loc(st[0][0])))
            else:
                res.append(bad(rule, '%s | new stack without resetting Cursor.%s' % (fn.qual, fl),
                               '%s installs a new search stack but can return without resetting the iteration flag `%s`, which Cursor::next sets: a cursor that was run to '
                               'its end and is then re-positioned keeps behaving as exhausted' % (fn.qual, fl), where='%s:%d' % (fn.file, fn.line)))
        if okk:
            res.append(ok(rule, '%s installs a new stack and re-initialises %s on every path' % (fn.qual, ', '.join(written)), sites=1))
    f = floor(rule, 'functions installing a new cursor stack', n, 1)
    if f:
        res.append(f)
    return res


def index_bounds(ctx, rule='C08.index-bounds'):
    """a cursor position is only advanced (index := index + k) under a test against the length of the node it indexes"""
    res = []
    F = ctx.facts
    n = 0
    # the position field of a stack element: its `usize` field, whatever it is called
    sp = F.adt('SearchPath')
    ixf = [f0['name'] for f0 in (sp['variants'][0]['fields'] if sp else []) if f0['ty'] == 'usize']
    ix = ixf[0] if len(ixf) == 1 else 'index'
    for fn in F.fns:
        du = None
        for bb, si, s in stores_to_field(fn, 'SearchPath', ix):
            if s['rv']['k'] != 'use':
                continue
            du = du or ctx.du(fn)
            _, atoms = du.slice_operand(s['rv']['op'])
            if not any(a[0] == 'bin' and a[1].startswith(('Add', 'Sub')) for a in atoms):
                continue
            n += 1
            bounded = False
            for (a, sx) in fn.control_deps_transitive(bb):
                at = fn.term(a)
                if at['k'] == 'switch':
                    _, da = du.slice_operand(at['discr'])
                    if any(x[0] == 'call' and last_seg(strip_generics(x[2])) in ('len', 'count') for x in da) and has_field(da, 'SearchPath', ix):
                        bounded = True
            if bounded:
                res.append(ok(rule, 'cursor index advanced at %s under a comparison with the node length' % fn.loc(bb, si), sites=1))
            else:
                res.append(bad(rule, '%s | cursor index advanced without a length test' % fn.qual,
                               '%s advances a cursor position (SearchPath.index) at %s without a controlling comparison against the length of the node: at the last entry of a leaf the '
                               'index runs past the end and iteration stops instead of moving to the next leaf' % (fn.qual, fn.loc(bb, si)), where=fn.loc(bb, si)))
    f = floor(rule, 'arithmetic updates of SearchPath.index', n, 1)
    if f:
        res.append(f)
    return res


def stack_never_emptied(ctx, rule='C08.stack-never-emptied'):
    """an empty search stack means "iteration has not started": once started, the stack must never become empty again,
    so every pop (or other removal) on Cursor.stack is controlled by a test that more than one level is left"""
    res = []
    F = ctx.facts
    from flow import Prov
    n = 0
    for fn in F.fns:
        pv = None
        for bb in sorted(fn.reachable_blocks()):
            t = fn.term(bb)
            c = callee_of(t) if t['k'] == 'call' else None
            if not c or not t['args']:
                continue
            name = last_seg(strip_generics(c['path']))
            if name not in ('pop', 'clear', 'truncate', 'drain', 'remove', 'swap_remove', 'split_off', 'retain'):
                continue
            pv = pv or Prov(fn)
            fs, _ = pv.of_operand(t['args'][0])
            if not any(a and last_seg(a) == 'Cursor' and nme == 'stack' for a, nme in fs):
                continue
            n += 1
            du = ctx.du(fn)
            guarded = False
            for (a, sx) in fn.control_deps_transitive(bb):
                at = fn.term(a)
                if at['k'] != 'switch' or not fn.dominates(a, bb):
                    continue       # a test later in an enclosing loop controls the NEXT iteration's pop only
                _, da = du.slice_operand(at['discr'])
                stack_len = False
                for x in da:
                    if x[0] == 'call' and last_seg(strip_generics(x[2])) == 'len':
                        cc = callee_of(fn.term(x[1]))
                        if cc and 'SearchPath' in (cc.get('self_ty') or ''):
                            stack_len = True
                if stack_len and any(x[0] == 'const' and x[1] == 1 for x in da) and not any(x[0] == 'bin' and x[1].startswith(('Add', 'Sub')) for x in da):
                    guarded = True
            refilled = False
            if name == 'clear':
                # emptied only to be refilled from the root: every path from here to a return passes a call of the tree search that takes this stack
                sr = ctx.A.get('search-role')
                if sr is not None:
                    fills = set()
                    for sb, stt, sc in calls_to_fn(F, fn, sr):
                        for a in stt['args']:
                            fs2, _ = pv.of_operand(a)
                            if any(a2 and last_seg(a2) == 'Cursor' and nm2 == 'stack' for a2, nm2 in fs2):
                                fills.add(sb)
                    if fills and not [b for b in fn.reach_from(fn.succ(bb), avoid=fills) if fn.term(b)['k'] == 'return']:
                        refilled = True
            if refilled:
                res.append(ok(rule, 'the search stack is cleared at %s only to be refilled by the tree search on every path' % fn.loc(bb), sites=1))
            elif name == 'pop' and guarded:
                res.append(ok(rule, 'pop of the search stack at %s is controlled by a test that more than one level is left' % fn.loc(bb), sites=1))
            else:
                res.append(bad(rule, '%s | search stack can be emptied (%s)' % (fn.qual, name),
                               '%s removes levels from the cursor\'s search stack at %s (`%s`) without a controlling test that more than one level is left: an exhausted cursor ends with an empty '
                               'stack, which is also the "not started" state, so calling next() again after the end restarts the iteration from the first entry' % (fn.qual, fn.loc(bb), name),
                               where=fn.loc(bb)))
    f = floor(rule, 'removals from the cursor search stack', n, 1)
    if f:
        res.append(f)
    return res


def index_agreement(ctx, rule='C08.index-agreement'):
    """sibling agreement: page-backed and node-backed lookups must treat a missing key the same way (all binary-search
    misses reachable from the index role are adjusted identically)"""
    res = []
    F = ctx.facts
    idx = None
    for f in F.fns:
        if f.kind == 'AssocFn' and not f.trait and f.self_adt and last_seg(f.self_adt) == 'PageNode' and f.locals[0]['ty'] == '(usize, bool)':
            idx = f
    if idx is None:
        return [unresolved(rule, 'index role (PageNode method returning (usize, bool))')]
    conv = []
    nsearch = 0
    for fn in sorted(F.reachable_fns([idx]), key=lambda f: f.path):
        du = None
        for bb in sorted(fn.reachable_blocks()):
            t = fn.term(bb)
            c = callee_of(t) if t['k'] == 'call' else None
            if c and last_seg(strip_generics(c['path'])).startswith('binary_search'):
                nsearch += 1
        # consumptions of an Err payload of a Result<usize, usize>
        for bb in sorted(fn.reachable_blocks()):
            for si, s in enumerate(fn.blocks[bb]['stmts']):
                if s['k'] != 'assign' or s['rv']['k'] != 'use':
                    continue
                p = op_place(s['rv']['op'])
                if p is None or not any(e['k'] == 'downcast' and e.get('variant') == 'Err' for e in p['pr']):
                    continue
                if 'Result<usize, usize>' not in fn.locals[p['l']]['ty']:
                    continue
                du = du or ctx.du(fn)
                e_local = s['p']['l']
                # forward: is the payload decremented before it is used?
                dec = False
                for b2 in fn.reach_from([bb]):
                    t2 = fn.term(b2)
                    c2 = callee_of(t2) if t2['k'] == 'call' else None
                    if c2 and last_seg(strip_generics(c2['path'])) in ('saturating_sub', 'checked_sub', 'wrapping_sub') and t2['args']:
                        l2 = op_local(t2['args'][0])
                        if l2 is not None and e_local in du.slice_local(l2)[0]:
                            dec = True
                    for s2 in fn.blocks[b2]['stmts']:
                        if s2['k'] == 'assign' and s2['rv']['k'] == 'bin' and s2['rv']['op'].startswith('Sub'):
                            l2 = op_local(s2['rv']['a'])
                            if l2 is not None and e_local in du.slice_local(l2)[0]:
                                dec = True
                conv.append((fn, bb, si, 'slot before the missing key (i - 1)' if dec else 'insertion slot (i)'))
        # ... or through an adaptor with a closure: `result.unwrap_or_else(|i| i.saturating_sub(1))`
        for bb in sorted(fn.reachable_blocks()):
            t = fn.term(bb)
            c = callee_of(t) if t['k'] == 'call' else None
            if not c or last_seg(strip_generics(c['path'])) not in ('unwrap_or_else', 'map_or_else', 'or_else', 'map_err') or len(t['args']) < 2:
                continue
            if 'Result<usize, usize>' not in (c.get('self_ty') or '') and 'Result<usize, usize>' not in str(fn.locals[op_local(t['args'][0])]['ty'] if op_local(t['args'][0]) is not None else ''):
                continue
            clos = None
            for a in t['args'][1:]:
                la = op_local(a)
                if la is None:
                    continue
                for b3 in fn.reachable_blocks():
                    for s3 in fn.blocks[b3]['stmts']:
                        if s3['k'] == 'assign' and s3['p']['l'] == la and s3['rv']['k'] == 'agg' and s3['rv'].get('ak') == 'closure':
                            clos = F.by_path.get(s3['rv']['closure'])
            if clos is None:
                continue
            dec = False
            for b3 in clos.reachable_blocks():
                t3 = clos.term(b3)
                c3 = callee_of(t3) if t3['k'] == 'call' else None
                if c3 and last_seg(strip_generics(c3['path'])) in ('saturating_sub', 'checked_sub', 'wrapping_sub'):
                    dec = True
                for s3 in clos.blocks[b3]['stmts']:
                    if s3['k'] == 'assign' and s3['rv']['k'] == 'bin' and s3['rv']['op'].startswith('Sub'):
                        dec = True
            conv.append((fn, bb, None, 'slot before the missing key (i - 1)' if dec else 'insertion slot (i)'))
    # every result the index role reports comes out of a binary search: a short cut that answers `(0, false)` for a key "that cannot be here" is right about the flag and
    # wrong about the position, which seek and range starts use as "the slot just before the key"
    X = ctx.x(idx)
    dux = ctx.du(X)
    import c16
    for bb in sorted(X.reachable_blocks()):
        for si, st in enumerate(X.blocks[bb]['stmts']):
            if st['k'] == 'assign' and st['rv']['k'] == 'agg' and st['rv'].get('ak') == 'tuple' and len(st['rv']['ops']) == 2 and X.locals[st['p']['l']]['ty'] == '(usize, bool)':
                pos = dux.sym(st['rv']['ops'][0])
                if not c16._tree_has(pos, lambda x: x[0] in ('phi', '?') or (x[0] == 'call' and last_seg(strip_generics(x[1])).startswith('binary_search'))):
                    res.append(bad(rule, '%s | position reported without a binary search (%s)' % (idx.qual, c16._fmt(pos)[:40]),
                                   'the index role answers with the position `%s` at %s, which does not come out of a binary search over the node: callers position cursors and range '
                                   'starts by it ("the slot just before an absent key"), so a short-cut answer sends them to the wrong entry' % (c16._fmt(pos)[:60], X.loc(bb, si)),
                                   where=X.loc(bb, si)))
    ctx.stats['binary_searches_under_index'] = nsearch
    f = floor(rule, 'binary searches reachable from the index role', nsearch, 2) or floor(rule, 'handled binary-search misses', len(conv), 1)
    if f:
        res.append(f)
    kinds = {k for _, _, _, k in conv}
    if len(kinds) > 1:
        for fn, bb, si, k in conv:
            res.append(bad(rule, '%s | missing key resolved to the %s' % (fn.qual, k.split(' (')[0]),
                           'lookups reachable from %s disagree on where a missing key points: %s at %s, while another site uses %s. Page-backed and node-backed nodes must agree, '
                           'otherwise seek / range starts differ between untouched and modified leaves' % (idx.qual, k, fn.loc(bb, si) if si is not None else fn.loc(bb), sorted(kinds - {k})), where=fn.loc(bb, si) if si is not None else fn.loc(bb)))
    else:
        res.append(ok(rule, '%d binary searches under %s; every miss is resolved the same way (%s)' % (nsearch, idx.qual, ', '.join(kinds)), sites=nsearch))
    return res


def key_order(ctx, rule='C08.key-order'):
    """keys are ordered, compared and hashed as plain byte strings: the comparison traits of the key carrier `Bytes` are functions of `as_ref()` of both operands, in order,
    delegating to the slice's own method, and `as_ref` / `size` give, for every variant, that variant's own payload.  (Search, merge, split and the ordering of committed pages all
    go through these impls; a variant-dependent or reversed comparison makes the same key sort differently depending on where it came from.)"""
    res = []
    F = ctx.facts
    adt = F.adt('Bytes')
    if not adt or len(adt['variants']) < 2:
        return [unresolved(rule, 'type Bytes')]
    fns = {}
    for f in F.fns:
        if f.kind == 'Closure' or not f.self_adt or last_seg(f.self_adt) != 'Bytes' or 'bytes::' not in f.path and not f.path.startswith('<bytes::'):
            pass
        if f.kind != 'Closure' and f.self_adt and last_seg(f.self_adt) == 'Bytes' and F.adt('Bytes') is not None:
            tr = last_seg(f.trait) if f.trait else ''
            fns[(tr, f.name)] = f
    n = 0

    # byte views of the carrier: `as_ref` and any inherent `fn(&self) -> &[u8]` it may be written through (a private `raw()` that holds the match)
    view_fns = [g for g in F.fns if g.kind != 'Closure' and g.self_adt and last_seg(g.self_adt) == 'Bytes' and not g.trait and g.argc == 1 and g.locals[0]['ty'] == '&[u8]']
    view_names = {'as_ref'} | {g.name for g in view_fns}

    def as_ref_of(e, i):
        return e[0] == 'call' and last_seg(strip_generics(e[1])) in view_names and len(e[2]) == 1 and e[2][0] == ('arg', i)

    for (tr, nm), same in ((('Ord', 'cmp'), 'cmp'), (('PartialEq', 'eq'), 'eq')):
        f = fns.get((tr, nm))
        if f is None:
            continue
        n += 1
        e = ctx.du(f).sym({'k': 'move', 'p': {'l': 0, 'pr': []}})
        good = e[0] == 'call' and last_seg(strip_generics(e[1])) == same and len(e[2]) == 2 and as_ref_of(e[2][0], 1) and as_ref_of(e[2][1], 2)
        if nm == 'eq' and not good:
            good = e[0] == 'call' and last_seg(strip_generics(e[1])) == same and len(e[2]) == 2 and as_ref_of(e[2][0], 2) and as_ref_of(e[2][1], 1)
        if good:
            res.append(ok(rule, '%s is `self.as_ref().%s(other.as_ref())`' % (f.qual, same), sites=1))
        else:
            import c16
            res.append(bad(rule, '%s | not the byte-string %s of the two operands' % (f.qual, 'order' if nm == 'cmp' else 'equality'),
                           '%s returns `%s`, not `self.as_ref().%s(other.as_ref())`: keys would not be %s as plain byte strings (reversed, truncated or variant-dependent)'
                           % (f.qual, c16._fmt(e)[:160], same, 'ordered' if nm == 'cmp' else 'compared'), where='%s:%d' % (f.file, f.line)))
    f = fns.get(('PartialOrd', 'partial_cmp'))
    if f is not None:
        n += 1
        du = ctx.du(f)
        okk = False
        for bb, t, c in calls_named(F, f, 'cmp', 'partial_cmp'):
            a = [du.sym(x) for x in t['args']]
            if len(a) == 2 and ((a[0] == ('arg', 1) and a[1] == ('arg', 2)) or (as_ref_of(a[0], 1) and as_ref_of(a[1], 2))):
                okk = True
        if okk:
            res.append(ok(rule, '%s delegates to the total order with the operands in order' % f.qual, sites=1))
        else:
            res.append(bad(rule, '%s | does not delegate to cmp(self, other)' % f.qual,
                           '%s does not compute `self.cmp(other)` (operands in that order): `<`, `>` and sorting of keys disagree with `Ord::cmp`' % f.qual, where='%s:%d' % (f.file, f.line)))
    f = fns.get(('Hash', 'hash'))
    if f is not None:
        n += 1
        du = ctx.du(f)
        # equal byte strings must hash equally whatever variant holds them: `self` reaches the hasher only through `as_ref()`
        def via_as_ref(e, depth=0):
            """(mentions self at all, and only inside as_ref(self))"""
            if not isinstance(e, tuple) or depth > 30:
                return False, True
            if e == ('arg', 1):
                return True, False
            if as_ref_of(e, 1):
                return True, True
            m, okk = False, True
            for x in e[1:]:
                for y in (x if isinstance(x, list) else [x]):
                    if isinstance(y, tuple):
                        m2, ok2 = via_as_ref(y, depth + 1)
                        m, okk = m or m2, okk and ok2
            return m, okk
        offenders = []
        fed = False
        for bb in sorted(f.reachable_blocks()):
            t = f.term(bb)
            if t['k'] != 'call':
                continue
            c = callee_of(t)
            nm = last_seg(strip_generics(c['path'])) if c else ''
            if nm in view_names:
                continue
            for a in t['args']:
                m, okk = via_as_ref(du.sym(a))
                if m and okk:
                    fed = fed or nm.startswith('hash') or nm.startswith('write')
                elif m:
                    offenders.append((f.loc(bb), nm))
            # a match on the variant of self is a use that does not go through as_ref
        for bb in sorted(f.reachable_blocks()):
            for st in f.blocks[bb]['stmts']:
                if st['k'] == 'assign' and st['rv']['k'] == 'discr' and st['rv'].get('adt') and last_seg(st['rv']['adt']) == 'Bytes':
                    offenders.append((f.loc(bb), 'match on the variant'))
        if fed and not offenders:
            res.append(ok(rule, '%s feeds the hasher from `self.as_ref()` only' % f.qual, sites=1))
        else:
            res.append(bad(rule, '%s | hash does not go through as_ref() only' % f.qual,
                           '%s uses `self` other than through `as_ref()` (%s): equal keys held in different variants can hash differently, and the per-transaction bucket cache, a HashMap '
                           'keyed by name, then misses a bucket it holds' % (f.qual, '%s at %s' % (offenders[0][1], offenders[0][0]) if offenders else 'nothing derived from as_ref() reaches the hasher'),
                           where='%s:%d' % (f.file, f.line)))
    # as_ref / size: every variant, its own payload
    nv = {v['vi']: v['name'] for v in adt['variants']}
    for key in (('AsRef', 'as_ref'), ('', 'size')):
        f = fns.get(key)
        if f is None:
            continue
        n += 1
        if key[1] == 'as_ref':
            e = ctx.du(f).sym({'k': 'move', 'p': {'l': 0, 'pr': []}})
            if as_ref_of(e, 1):
                g = [x for x in view_fns if x.name == last_seg(strip_generics(e[1]))]
                if len(g) == 1:
                    f = g[0]        # the match lives in the helper as_ref delegates to
        if key[1] == 'size':
            e = ctx.du(f).sym({'k': 'move', 'p': {'l': 0, 'pr': []}})
            if e[0] == 'call' and last_seg(strip_generics(e[1])) == 'len' and len(e[2]) == 1 and as_ref_of(e[2][0], 1):
                res.append(ok(rule, '%s is `self.as_ref().len()`' % f.qual, sites=1))
                continue
        sw = None
        for bb in sorted(f.reachable_blocks()):
            t = f.term(bb)
            if t['k'] == 'switch':
                for st in f.blocks[bb]['stmts']:
                    if st['k'] == 'assign' and st['rv']['k'] == 'discr' and st['rv'].get('adt') and last_seg(st['rv']['adt']) == 'Bytes' and st['p']['l'] == op_local(t['discr']):
                        sw = (bb, t)
        if sw is None:
            res.append(bad(rule, '%s | no match on the variant' % f.qual, '%s does not match on the variant of Bytes' % f.qual, where='%s:%d' % (f.file, f.line)))
            continue
        bb0, t = sw
        tg = dict((v, b) for v, b in t['targets'])
        miss = [nv[v] for v in nv if v not in tg and f.term(t['otherwise'])['k'] == 'unreachable']
        wrong = []
        for v, b in t['targets']:
            region = f.reach_from([b], avoid={bb0}) - set().union(*[f.reach_from([b2], avoid={bb0}) for v2, b2 in t['targets'] if b2 != b] or [set()])
            used = set()
            for rb in region | {b}:
                for st in f.blocks[rb]['stmts']:
                    for pl in ([st['p']] if st['k'] == 'assign' else []) + ([st['rv']['p']] if st['k'] == 'assign' and st['rv']['k'] in ('ref', 'rawptr', 'discr') else []) + \
                              ([op_place(st['rv']['op'])] if st['k'] == 'assign' and st['rv']['k'] in ('use', 'cast') and op_place(st['rv']['op']) is not None else []):
                        for pe in pl['pr']:
                            if pe['k'] == 'downcast' and pe.get('adt') and last_seg(pe['adt']) == 'Bytes':
                                used.add(pe.get('vi'))
            if used and used != {v}:
                wrong.append((nv.get(v, v), sorted(nv.get(u, u) for u in used)))
            if key[1] == 'size':
                # the size of a key is the number of BYTES of its payload: `len()` of the payload (through derefs), nothing else
                names = set()
                for rb in region | {b}:
                    tt = f.term(rb)
                    cc = callee_of(tt) if tt['k'] == 'call' else None
                    if cc:
                        names.add(last_seg(strip_generics(cc['path'])))
                extra = names - {'len', 'deref', 'as_ref', 'as_bytes', 'as_slice', 'as_str', 'borrow', 'size'}
                if extra or not (names & {'len', 'size'}):
                    wrong.append((nv.get(v, v), ['computed with %s, not the byte length of the payload' % ','.join(sorted(extra or names or {'no call'}))]))
        if miss or wrong:
            res.append(bad(rule, '%s | variant arms' % f.qual,
                           '%s does not give every variant its own payload (%s)' % (f.qual, '; '.join(['missing arms: %s' % miss] * bool(miss) + ['arm %s reads %s' % w for w in wrong])),
                           where='%s:%d' % (f.file, f.line)))
        else:
            res.append(ok(rule, '%s has one arm per variant (%d), each reading its own payload' % (f.qual, len(tg)), sites=len(tg)))
    fl = floor(rule, 'comparison / view functions of the key carrier', n, 5)
    if fl:
        res.append(fl)
    return res


def iterator_overrides(ctx, rule='C08.iterator-overrides'):
    """`next` is where an iterator of this crate decides what comes next (skipping leaves emptied in the transaction, honouring bounds and filters).  Any other
    method of `Iterator` / `DoubleEndedIterator` that a crate type overrides (`last`, `nth`, `next_back`, `count` ...) must get its items from `next`: an override that
    goes to the cursor or the tree itself is a second producer with its own idea of the order"""
    res = []
    F = ctx.facts
    n = 0
    nov = 0
    for f in sorted(F.fns, key=lambda g: g.path):
        if f.kind == 'Closure' or not f.trait or last_seg(f.trait) not in ('Iterator', 'DoubleEndedIterator', 'ExactSizeIterator', 'FusedIterator'):
            continue
        n += 1
        if f.name == 'next' and last_seg(f.trait) == 'Iterator':
            continue
        nov += 1
        # crate-local calls made by the override (closures it creates included)
        own = [f] + [g for g in F.fns if g.kind == 'Closure' and g.owner is f]
        direct = []
        for g in own:
            for bb, t, target, c in F.call_sites(g):
                if target is None or target.kind == 'Closure':
                    continue
                if target.trait and last_seg(target.trait) in ('Iterator', 'DoubleEndedIterator') and target.self_adt == f.self_adt:
                    continue        # self.next() and friends
                direct.append((g.loc(bb), target.qual))
        if f.name == 'size_hint':
            direct = []             # a hint does not produce items
        calls_own = False
        for g in own:
            for bb, t, target, c in F.call_sites(g):
                if target is not None and target.trait and last_seg(target.trait) in ('Iterator', 'DoubleEndedIterator') and target.self_adt == f.self_adt:
                    calls_own = True
        if not direct and not calls_own and f.name != 'size_hint':
            res.append(bad(rule, '%s | override does not go through next()' % f.qual,
                           '%s, an override of a provided iterator method, never calls this type\'s own `next` (it forwards to an inner iterator or computes the answer itself): '
                           'whatever `next` filters, skips or bounds is bypassed' % f.qual, where='%s:%d' % (f.file, f.line)))
            continue
        if direct:
            res.append(bad(rule, '%s | override produces items without next()' % f.qual,
                           '%s, an override of a provided iterator method, calls %s at %s instead of getting its items from `next`: it bypasses what `next` does to skip emptied '
                           'leaves and to honour bounds, so it can disagree with a plain scan' % (f.qual, direct[0][1], direct[0][0]), where=direct[0][0]))
        else:
            res.append(ok(rule, '%s gets its items from next()' % f.qual, sites=1))
    f = floor(rule, 'iterator trait methods implemented by crate types', n, 3)
    if f:
        res.append(f)
    elif nov == 0:
        res.append(ok(rule, 'the %d iterator impls of the crate define `next` only (every provided method is the std default built on next)' % n, sites=n))
    return res


def keys_as_bytes(ctx, rule='C08.keys-as-bytes'):
    """keys are ordered as byte strings everywhere: on the page (the writer sorts with `Ord for [u8]`), in the overlay and in every search.  A comparator that decodes key
    bytes into integers (`i64::from_be_bytes` as a fast path for 8-byte keys) orders keys with the top bit set before all others: searches then disagree with the order the
    entries are stored in"""
    import re
    res = []
    F = ctx.facts
    roots = [ctx.A.get(q) or F.fn(q) for q in ITER_API]
    roots = [r for r in roots if r is not None]
    sr = ctx.A.get('search-role')
    if sr is not None:
        roots.append(sr)
    reach = set()
    for r in roots:
        reach |= set(F.reachable_fns([r]))
    reach |= {f for f in F.fns if f.kind == 'Closure' and (f.owner in reach)}
    f0 = floor(rule, 'functions reachable from the iterator API and the tree search', len(reach), 10)
    if f0:
        return [f0]
    n = 0
    for fn in sorted(reach, key=lambda g: g.path):
        for bb in sorted(fn.reachable_blocks()):
            t = fn.term(bb)
            c = callee_of(t) if t['k'] == 'call' else None
            if c and re.search(r'::from_(be|le|ne)_bytes$', strip_generics(c['path'])):
                n += 1
                res.append(bad(rule, '%s | key bytes decoded into an integer' % fn.qual,
                               '%s calls %s at %s on the way of a key lookup: keys are stored in byte-string order, an integer (signed or little-endian) order disagrees with it for some '
                               'keys, and seek / range / put then land in the wrong place' % (fn.qual, last_seg(strip_generics(c['path'])), fn.loc(bb)), where=fn.loc(bb)))
    if not n:
        res.append(ok(rule, 'no integer decoding of bytes in the %d functions reachable from the iterator API and the tree search' % len(reach), sites=len(reach)))
    return res


def run(ctx, tier):
    results = []
    results += bounds_total(ctx)
    results += end_justified(ctx)
    results += end_checked(ctx)
    results += seek_searches(ctx)
    import c07
    results += c07.scan_skips_empty(ctx, rule='C08.scan-skips-empty')
    results += c07.reresolve(ctx, rule='C08.reresolve')
    results += c07.id_form_opaque(ctx, rule='C08.id-form-opaque')
    results += start_compare(ctx)
    results += no_underflow(ctx)
    results += filter_total(ctx)
    results += seek_reset(ctx)
    results += index_bounds(ctx)
    results += stack_never_emptied(ctx)
    results += index_agreement(ctx)
    results += key_order(ctx)
    results += keys_as_bytes(ctx)
    import c05
    results += c05.no_narrowing(ctx, rule='C08.no-narrowing')
    results += iterator_overrides(ctx)
    import c01
    results += c01.carriers(ctx, rule='C08.carriers')
    return dict(
        results=results, stats=dict(ctx.stats),
        explanation=(
            'Order and exactly-once of iteration are binary-search and index arithmetic and are NOT decided. Decided: (keys-as-bytes) no integer decoding of key bytes on lookup paths; (index-agreement, third clause) positions come out of a binary search. (bounds-total) Range::next consults both bounds, the Included and '
            'Excluded variants each have their own arm that reads the payload and they do not decide with the same comparison, Unbounded is separate; (start-compare) each start arm '
            'compares the current entry\'s key with the bound (seek may rest on either neighbour); (no-underflow) no plain `len - k` without a dominating length test is reachable from '
            'the iterator API; (filter-total) the bucket-only and pair-only filters return None only when the inner iterator is exhausted; (seek-reset) installing a new search stack '
            'clears next_called and nothing sets it again behind the reset; (start-compare, second clause) no path through a payload start arm skips the search for the bound; (reresolve) a cursor keeps ids and indices, never a page or node;  (index-bounds) a cursor index is advanced only under a test against the node length; (stack-never-emptied) the search stack is never emptied once iteration started (repeated next() after the end is harmless); (index-agreement) page-backed and node-backed lookups resolve a missing key identically.'),
        assumptions=['Cursor::seek positions on the key or an immediate neighbour (property statement)'])
