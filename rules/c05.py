"""C05 Every committed file is well-formed and accounts for each page exactly once (bookkeeping-order and serialiser clauses)"""
from core import ok, bad, unresolved, floor
from anchors import AnchorError
from facts import callee_of, op_local, op_place, op_const_val, last_seg, strip_generics
from util import calls_to_fn, calls_named, has_field, has_call, stores_to_field, aggregates_of, all_call_sites
import commit, c02


def _stored_fields(fn, adt):
    return {s['p']['pr'][-1]['name'] if s['p']['pr'][-1]['k'] == 'field' else None for bb, si, s in _all_stores(fn, adt)}


def _all_stores(fn, adt):
    out = []
    for bb in sorted(fn.reachable_blocks()):
        for si, s in enumerate(fn.blocks[bb]['stmts']):
            if s['k'] != 'assign':
                continue
            fs = [e for e in s['p']['pr'] if e['k'] == 'field']
            if fs and fs[-1].get('adt') and last_seg(fs[-1]['adt']) == adt:
                out.append((bb, si, s))
    return out


def serialiser_total(ctx, rule='C05.serialiser-total'):
    res = []
    F = ctx.facts
    try:
        ser, txalloc = ctx.need('node-serialiser', 'tx-alloc-role')
    except AnchorError as e:
        return [unresolved(rule, str(e))]
    ser, txalloc = ctx.A.xf(ser), ctx.A.xf(txalloc)       # module-private helpers (write_branch_elements ...) folded in
    for adt in ('LeafElement', 'BranchElement'):
        want = {f['name'] for f in F.adt_fields(adt) or []}
        got = {s['p']['pr'][-1]['name'] for bb, si, s in _all_stores(ser, adt) if s['p']['pr'][-1]['k'] == 'field'}
        miss = want - got
        if not want:
            res.append(unresolved(rule, 'type ' + adt))
        elif miss:
            for m in sorted(miss):
                res.append(bad(rule, '%s | %s.%s never assigned' % (ser.qual, adt, m),
                               'the node serialiser %s never assigns %s.%s: pages live in an uninitialised bump arena, so the field is persisted as garbage' % (ser.qual, adt, m),
                               where='%s:%d' % (ser.file, ser.line)))
        else:
            res.append(ok(rule, '%s assigns all %d fields of %s' % (ser.qual, len(want), adt), sites=len(want)))
    for fn, fields, what in ((ser, ('page_type', 'count'), 'node serialiser'), (txalloc, ('id', 'overflow'), 'allocation wrapper')):
        got = {s['p']['pr'][-1]['name'] for bb, si, s in _all_stores(fn, 'Page') if s['p']['pr'][-1]['k'] == 'field'}
        for f in fields:
            if f in got:
                res.append(ok(rule, '%s sets Page.%s' % (fn.qual, f), sites=1))
            else:
                res.append(bad(rule, '%s | Page.%s never assigned' % (fn.qual, f), 'the %s never assigns Page.%s of a freshly allocated (uninitialised) page' % (what, f),
                               where='%s:%d' % (fn.file, fn.line)))
    # the free-list page written by the commit
    T = commit.commit_trace(ctx)
    flfn = None
    for n in T.nodes:
        if n.virt is None and n.bb is not None:
            t = n.fn.term(n.bb)
            c = callee_of(t) if t['k'] == 'call' else None
            if c and ctx.A.get('freelist-view-mut') is not None and c['path'] == ctx.A.get('freelist-view-mut').path:
                flfn = n.fn
    if flfn is None:
        res.append(unresolved(rule, 'free-list page write in the commit trace'))
    else:
        got = {s['p']['pr'][-1]['name'] for bb, si, s in _all_stores(flfn, 'Page') if s['p']['pr'][-1]['k'] == 'field'}
        for f in ('page_type', 'count'):
            if f in got:
                res.append(ok(rule, '%s sets Page.%s of the free-list page' % (flfn.qual, f), sites=1))
            else:
                res.append(bad(rule, '%s | free-list Page.%s never assigned' % (flfn.qual, f), 'the commit never assigns Page.%s of the new free-list page' % f, where='%s:%d' % (flfn.file, flfn.line)))
    return res


def reader_writer_tables(ctx, rule='C05.reader-writer-tables'):
    res = []
    F = ctx.facts
    try:
        (ser,) = ctx.need('node-serialiser')
        ser = ctx.A.xf(ser)
    except AnchorError as e:
        return [unresolved(rule, str(e))]
    n = 0
    for adt in ('LeafElement', 'BranchElement'):
        written = {s['p']['pr'][-1]['name'] for bb, si, s in _all_stores(ser, adt) if s['p']['pr'][-1]['k'] == 'field'}
        readers = {}
        for fn in F.fns:
            if fn is ser:
                continue
            for bb in fn.reachable_blocks():
                b = fn.blocks[bb]
                places = []
                for s in b['stmts']:
                    if s['k'] == 'assign':
                        from facts import rvalue_places
                        places += rvalue_places(s['rv'])
                t = b['term']
                if t['k'] in ('call', 'switch'):
                    ops = t['args'] if t['k'] == 'call' else [t['discr']]
                    places += [op_place(o) for o in ops if op_place(o) is not None]
                for p in places:
                    for e in p['pr']:
                        if e['k'] == 'field' and e.get('adt') and last_seg(e['adt']) == adt:
                            readers.setdefault(e['name'], set()).add(fn.qual)
        for fld, who in sorted(readers.items()):
            n += 1
            if fld in written:
                res.append(ok(rule, '%s.%s (read by %s) is written by the serialiser' % (adt, fld, ', '.join(sorted(who))[:80]), sites=len(who)))
            else:
                res.append(bad(rule, '%s.%s | read but never written' % (adt, fld), 'readers %s use %s.%s, which the node serialiser never writes' % (sorted(who), adt, fld)))
    f = floor(rule, 'element fields read outside the serialiser', n, 3)
    if f:
        res.append(f)
    return res


def freelist_order(ctx, rule='C05.freelist-order'):
    res = []
    F = ctx.facts
    try:
        txfree, txalloc = ctx.need('tx-free-role', 'tx-alloc-role')
    except AnchorError as e:
        return [unresolved(rule, str(e))]
    T = commit.commit_trace(ctx)
    # the function that fills the free-list page
    fn = None
    copy_bb = None
    for n in T.nodes:
        if n.virt is None and n.bb is not None:
            t = n.fn.term(n.bb)
            c = callee_of(t) if t['k'] == 'call' else None
            if c and last_seg(strip_generics(c['path'])) in ('copy_from_slice', 'clone_from_slice'):
                du = ctx.du(n.fn)
                _, a0 = du.slice_operand(t['args'][0])
                if any(a[0] == 'call' and ctx.A.get('freelist-view-mut') is not None and a[2] == ctx.A.get('freelist-view-mut').path for a in a0):
                    fn, copy_bb = n.fn, n.bb
    # prefer the commit function with its private helpers folded in: the free / size / allocate / snapshot steps may be split between the commit and a helper
    cmf = ctx.A.get('Tx::commit')
    if cmf is not None:
        X = ctx.x(cmf, keep_adts=('Freelist',))
        fvm = ctx.A.get('freelist-view-mut')
        for bb in sorted(X.reachable_blocks()):
            t = X.term(bb)
            c = callee_of(t) if t['k'] == 'call' else None
            if c and last_seg(strip_generics(c['path'])) in ('copy_from_slice', 'clone_from_slice') and fvm is not None:
                _, a0 = ctx.du(X).slice_operand(t['args'][0])
                if any(a[0] == 'call' and a[2] == fvm.path for a in a0):
                    fn, copy_bb = X, bb
    if fn is None:
        return [floor(rule, 'copy of the page-id list into the free-list page', 0, 1)]
    du = ctx.du(fn)
    ct = fn.term(copy_bb)
    _, src_atoms = du.slice_operand(ct['args'][1])
    fl_calls = lambda atoms: [(a[1], a[2]) for a in atoms if a[0] == 'call' and a[2] in F.by_path and F.by_path[a[2]].self_adt and last_seg(F.by_path[a[2]].self_adt) == 'Freelist']
    snaps = fl_calls(src_atoms)
    direct = []
    l0 = op_local(ct['args'][1])
    if l0 is not None:
        r0 = du.root_of(l0)
        ds0 = du.defs.get(r0, [])
        if len(ds0) == 1 and ds0[0][1] is None:
            dc0 = callee_of(fn.term(ds0[0][0]))
            if dc0 and (ds0[0][0], dc0['path']) in snaps:
                direct = [(ds0[0][0], dc0['path'])]
    snaps = direct or snaps
    A = [(bb, t) for bb, t, c in calls_to_fn(F, fn, txalloc)]
    Fr = [(bb, t) for bb, t, c in calls_to_fn(F, fn, txfree) if has_field(du.slice_operand(t['args'][1])[1], 'Meta', 'freelist_page')]
    if not (snaps and A and Fr):
        return [floor(rule, 'free / allocate / snapshot calls of the free-list write (found %d/%d/%d)' % (len(Fr), len(A), len(snaps)), 0, 1)]
    a_bb, a_t = A[0]
    # the call that directly defines the size argument
    sizes = []
    l = op_local(a_t['args'][1])
    if l is not None:
        r = du.root_of(l, through_calls=False)
        ds = du.defs.get(r, [])
        if len(ds) == 1 and ds[0][1] is None:
            dt = fn.term(ds[0][0])
            dc = callee_of(dt)
            if dc and dc['path'] in F.by_path and F.by_path[dc['path']].self_adt and last_seg(F.by_path[dc['path']].self_adt) == 'Freelist':
                sizes = [(ds[0][0], dc['path'])]
    f_bb = Fr[0][0]
    snap_bb = snaps[0][0]
    chain = [('free of the old free-list run', f_bb)] + ([('size query', sizes[0][0])] if sizes else []) + [('allocation of the new free-list page', a_bb), ('snapshot of the page ids', snap_bb)]
    if not sizes:
        res.append(bad(rule, '%s | size of the new free-list page not computed from the free list' % fn.qual, 'the size passed to the allocation at %s does not come from the free list' % fn.loc(a_bb), where=fn.loc(a_bb)))
    okk = True
    for (n1, b1), (n2, b2) in zip(chain, chain[1:]):
        if not (fn.dominates(b1, b2) and b1 != b2):
            okk = False
            res.append(bad(rule, '%s | %s does not precede %s' % (fn.qual, n1, n2),
                           'in the free-list write the %s (%s) must come before the %s (%s): otherwise the page that holds the list is persisted as free, or the arena allocation is too small'
                           % (n1, fn.loc(b1), n2, fn.loc(b2)), where=fn.loc(b2)))
    if okk:
        res.append(ok(rule, 'free(old run) -> size -> allocate -> snapshot are in dominance order at %s' % ', '.join(fn.loc(b) for _, b in chain), sites=len(chain)))
    # the element count stored in the page header and the copied slice have the same source
    cnt = [(bb, si, s) for bb, si, s in stores_to_field(fn, 'Page', 'count')]
    same = False
    for bb, si, s in cnt:
        if s['rv']['k'] in ('use', 'cast'):
            _, ca = du.slice_operand(s['rv']['op'])
            if set(fl_calls(ca)) & set(snaps):
                same = True
    if same:
        res.append(ok(rule, 'Page.count of the free-list page and the copied list come from the same snapshot', sites=1))
    else:
        res.append(bad(rule, '%s | count and copied list from different sources' % fn.qual, 'the element count stored in the free-list page does not come from the same snapshot as the copied page ids', where=fn.loc(copy_bb)))
    return res


def pointers(ctx):
    res = []
    F = ctx.facts
    try:
        cm, txalloc = ctx.need('Tx::commit', 'tx-alloc-role')
    except AnchorError as e:
        return [unresolved('C05.high-water', str(e))]
    T = commit.commit_trace(ctx)
    # the function writing TxInner.meta.{num_pages, freelist_page}
    for fld, rule, need_field, need_call, why in (
            ('num_pages', 'C05.high-water', ('Meta', 'num_pages'), None, 'the high-water mark recorded in the header'),
            ('freelist_page', 'C05.freelist-ptr', ('Page', 'id'), txalloc, 'the free-list pointer recorded in the header')):
        found = False
        X = ctx.x(cm)         # commit with its private helpers folded in: the store may sit in a helper that receives `&mut self.meta`
        folded = set(getattr(X, 'inlined', ()))
        for fn in [X] + sorted((g for g in F.reachable_fns([cm]) if g is not cm and g.qual not in folded), key=lambda f: f.path):
            du = None
            for bb, si, s in stores_to_field(fn, 'Meta', fld):
                # only stores into the transaction's Meta (self.meta.*): root is a &mut TxInner parameter
                fs = [e for e in s['p']['pr'] if e['k'] == 'field']
                du = du or ctx.du(fn)
                if len(fs) >= 2:
                    if fs[-2].get('adt') is None or last_seg(fs[-2]['adt']) != 'TxInner':
                        continue
                elif not any(len(path) >= 2 and path[-2] == 'meta' and 'freelist' not in path for (_r, path) in du._place_cells(s['p'])):
                    continue
                found = True
                _, atoms = du.slice_operand(s['rv']['op']) if s['rv']['k'] == 'use' else (None, set())
                good = has_field(atoms, *need_field) and (need_call is None or has_call(atoms, need_call.path))
                if fld == 'num_pages':
                    good = good and has_field(atoms, 'TxFreelist', 'meta')
                    # no allocation can follow the store
                    later = [b2 for b2, t, c in calls_to_fn(F, fn, txalloc) if b2 in fn.reach_from(fn.succ(bb))]
                    trace_nodes = [n for n in T.nodes if n.fn is fn and n.bb == bb and n.virt is None]
                    An = {e['node'] for e in T.events('A')}
                    after = set()
                    for n in trace_nodes:
                        after |= T.reach(T.succ.get(n.id, set()))
                    if later or (after & An):
                        res.append(bad(rule, '%s | allocation after the high-water mark was recorded' % fn.qual,
                                       'a page allocation is reachable after the header\'s num_pages was copied at %s: pages beyond the recorded high-water mark would be written' % fn.loc(bb, si), where=fn.loc(bb, si)))
                        continue
                if good:
                    res.append(ok(rule, '%s at %s is taken from %s' % (why, fn.loc(bb, si), 'the allocator\'s mark after the last allocation' if fld == 'num_pages' else 'the id of the newly allocated free-list page'), sites=1))
                else:
                    res.append(bad(rule, '%s | %s not derived from the allocator' % (fn.qual, fld),
                                   '%s stored at %s does not derive from %s' % (why, fn.loc(bb, si), 'TxFreelist.meta.num_pages' if fld == 'num_pages' else 'the page returned by the allocation of the free-list page'), where=fn.loc(bb, si)))
        if not found:
            res.append(floor(rule, 'store of TxInner.meta.%s in the commit trace' % fld, 0, 1))
    # root pointer
    rule = 'C05.root-ptr'
    cm = ctx.x(cm)           # rebalance / spill / the store may sit in a private helper of commit
    du = ctx.du(cm)
    sp = ctx.A.get('spill-role')
    rb = ctx.A.get('rebalance-role')
    def _tx_root(pl):
        fs = [e for e in pl['pr'] if e['k'] == 'field']
        if len(fs) >= 2:
            return fs[-1].get('name') == 'root' and bool(fs[-2].get('adt')) and last_seg(fs[-2]['adt']) == 'TxInner'
        return False
    # the transaction's own header copy (`tx.meta.root = ..`), not the header image built from it later
    st = [(bb, si, s) for bb, si, s in stores_to_field(cm, 'Meta', 'root') if _tx_root(s['p'])]
    if sp is None or rb is None:
        res.append(unresolved(rule, 'InnerBucket::spill / rebalance'))
    elif not st:
        res.append(bad(rule, '%s | root of the spilled tree never recorded' % cm.qual,
                       'commit never stores the value returned by the spill of the root bucket into the transaction\'s header (TxInner.meta.root): the new header keeps '
                       'pointing at the old root page', where='%s:%d' % (cm.file, cm.line)))
    else:
        for bb, si, s in st:
            _, atoms = du.slice_operand(s['rv']['op']) if s['rv']['k'] == 'use' else (None, set())
            if has_call(atoms, sp.path):
                res.append(ok(rule, 'header root at %s is the value returned by the spill of the root bucket' % cm.loc(bb, si), sites=1))
            else:
                res.append(bad(rule, '%s | root not from spill' % cm.qual, 'the root recorded in the header at %s is not the value returned by spilling the root bucket' % cm.loc(bb, si), where=cm.loc(bb, si)))
        spc = calls_to_fn(F, cm, sp)
        rbc = calls_to_fn(F, cm, rb)
        if spc and rbc and all(cm.dominates(r[0], s2[0]) for r in rbc for s2 in spc):
            res.append(ok(rule, 'rebalance precedes spill in commit', sites=2))
        else:
            res.append(bad(rule, '%s | rebalance does not precede spill' % cm.qual, 'commit must rebalance (merge) before it spills (splits and writes) the tree', where='%s:%d' % (cm.file, cm.line)))
    return res


def page_kinds(ctx, rule='C05.page-kinds'):
    res = []
    F = ctx.facts
    try:
        chk, ser = ctx.need('check-role', 'node-serialiser')
        ser = ctx.A.xf(ser)
    except AnchorError as e:
        return [unresolved(rule, str(e))]
    meta_kind = F.const_val('Page::TYPE_META')
    stored = {}
    for fn in F.fns:
        for bb, si, s in stores_to_field(fn, 'Page', 'page_type'):
            if s['rv']['k'] == 'use':
                v = op_const_val(s['rv']['op'])
                if v is not None:
                    stored.setdefault(v, set()).add(fn.qual)
    f = floor(rule, 'page kinds stored anywhere in the crate', len(stored), 4)
    if f:
        res.append(f)

    def handled(fn):
        du = ctx.du(fn)
        vals = set()
        for bb in fn.reachable_blocks():
            t = fn.term(bb)
            if t['k'] == 'switch':
                _, atoms = du.slice_operand(t['discr'])
                if has_field(atoms, 'Page', 'page_type') and not any(a[0] == 'bin' for a in atoms):
                    vals |= {v for v, _ in t['targets']}
            # `if page_type == CONST` form
            for s in fn.blocks[bb]['stmts']:
                if s['k'] == 'assign' and s['rv']['k'] == 'bin' and s['rv']['op'] in ('Eq', 'Ne'):
                    _, aa = du.slice_operand(s['rv']['a'])
                    if has_field(aa, 'Page', 'page_type'):
                        v = op_const_val(s['rv']['b'])
                        if v is not None:
                            vals.add(v)
        return vals
    hc = handled(chk)
    for k, who in sorted(stored.items()):
        if k == meta_kind:
            continue
        if k in hc:
            res.append(ok(rule, 'page kind %d (stored by %s) has an explicit arm in the built-in check' % (k, ', '.join(sorted(who))), sites=1))
        else:
            res.append(bad(rule, '%s | page kind %d not handled' % (chk.qual, k), 'page kind %d is stored by %s but the built-in check has no arm for it (it would reject or ignore such pages)' % (k, sorted(who)),
                           where='%s:%d' % (chk.file, chk.line)))
    node_kinds = {k for k, who in stored.items() if ser.qual in who}
    for q in ('delete-walk', 'node-from-page'):
        fn = ctx.A.get(q)
        if fn is None:
            res.append(unresolved(rule, q))
            continue
        h = handled(fn)
        miss = node_kinds - h
        if miss:
            res.append(bad(rule, '%s | node page kind(s) %s not handled' % (fn.qual, sorted(miss)), '%s does not handle page kind(s) %s that the node serialiser writes: such pages would leak or be rejected' % (fn.qual, sorted(miss)),
                           where='%s:%d' % (fn.file, fn.line)))
        else:
            res.append(ok(rule, '%s handles all node page kinds %s' % (fn.qual, sorted(node_kinds)), sites=len(node_kinds)))
    return res


def run_length(ctx, rule='C05.run-length'):
    """sibling agreement on the length of a page run: wherever a run is freed or a node is sized from a page header, the
    length is `overflow + 1` (the allocation wrapper stores overflow = n - 1)"""
    res = []
    F = ctx.facts
    try:
        txfree, txalloc = ctx.need('tx-free-role', 'tx-alloc-role')
    except AnchorError as e:
        return [unresolved(rule, str(e))]
    n = 0
    # writer side: overflow = count - 1
    du = ctx.du(txalloc)
    for bb, si, s in stores_to_field(txalloc, 'Page', 'overflow'):
        _, atoms = du.slice_operand(s['rv']['op']) if s['rv']['k'] == 'use' else (None, set())
        n += 1
        if any(a[0] == 'bin' and a[1].startswith('Sub') for a in atoms) and any(a[0] == 'const' and a[1] == 1 for a in atoms):
            res.append(ok(rule, 'allocation wrapper stores overflow = run length - 1 at %s' % txalloc.loc(bb, si), sites=1))
        else:
            res.append(bad(rule, '%s | overflow not stored as length - 1' % txalloc.qual, 'Page.overflow stored at %s is not the run length minus one' % txalloc.loc(bb, si), where=txalloc.loc(bb, si)))
    # reader side: every value derived from a load of Page.overflow that reaches a free call or Node.num_pages / TxInner.num_freelist_pages
    for fn in F.fns:
        du = None
        # direct consumers: statements `x = AddWithOverflow(copy (*p).overflow, const 1)`; anything else that reads overflow and feeds a free is suspicious
        for bb, t, c in calls_to_fn(F, fn, txfree):
            du = du or ctx.du(fn)
            _, atoms = du.slice_operand(t['args'][2]) if len(t['args']) > 2 else (None, set())
            if len(t['args']) > 2 and not (ctx.A.module_private(fn) and fn.self_adt == txfree.self_adt):
                e = du.sym(t['args'][2])
                if e[0] == 'const':
                    n += 1
                    res.append(bad(rule, '%s | constant number of pages freed' % fn.qual,
                                   '%s frees a run with the literal length %s at %s: pages are allocated in runs of `overflow + 1` pages (a node or value larger than a page spills '
                                   'into overflow pages), so the overflow pages of such a run are never freed' % (fn.qual, e[1], fn.loc(bb)), where=fn.loc(bb)))
                    continue
            if has_field(atoms, 'Page', 'overflow'):
                n += 1
                plus1 = any(a[0] == 'bin' and a[1].startswith('Add') for a in atoms) and any(a[0] == 'const' and a[1] == 1 for a in atoms)
                other = any(a[0] == 'call' and last_seg(strip_generics(a[2])) in ('max', 'min', 'saturating_sub', 'saturating_add', 'wrapping_add') for a in atoms)
                if plus1 and not other:
                    res.append(ok(rule, 'run freed at %s has length overflow + 1' % fn.loc(bb), sites=1))
                else:
                    res.append(bad(rule, '%s | freed run length is not overflow + 1' % fn.qual,
                                   'the number of pages freed at %s is derived from Page.overflow but not as `overflow + 1`: the last page(s) of every overflow run would leak (or a foreign page be freed)'
                                   % fn.loc(bb), where=fn.loc(bb)))
        for adt, fld in (('Node', 'num_pages'), ('TxInner', 'num_freelist_pages')):
            sites = []
            for bb, si, s in aggregates_of(fn, adt):
                if fld in s['rv']['fields']:
                    sites.append((bb, si, s['rv']['ops'][s['rv']['fields'].index(fld)]))
            for bb, si, s in stores_to_field(fn, adt, fld):
                if s['rv']['k'] == 'use':
                    sites.append((bb, si, s['rv']['op']))
            for bb, si, o in sites:
                du = du or ctx.du(fn)
                _, atoms = du.slice_operand(o)
                if has_field(atoms, 'Page', 'overflow'):
                    n += 1
                    plus1 = any(a[0] == 'bin' and a[1].startswith('Add') for a in atoms) and any(a[0] == 'const' and a[1] == 1 for a in atoms)
                    if plus1:
                        res.append(ok(rule, '%s.%s at %s is overflow + 1' % (adt, fld, fn.loc(bb, si)), sites=1))
                    else:
                        res.append(bad(rule, '%s | %s.%s is not overflow + 1' % (fn.qual, adt, fld), '%s.%s at %s is derived from Page.overflow but not as `overflow + 1`' % (adt, fld, fn.loc(bb, si)), where=fn.loc(bb, si)))
    f = floor(rule, 'run-length computations from Page.overflow', n, 2)
    if f:
        res.append(f)
    return res


def free_once(ctx, rule='C05.free-once'):
    """a node gives its old page run back at most once: the free is guarded by "the node has a page" and followed by clearing the page id"""
    res = []
    F = ctx.facts
    try:
        (txfree,) = ctx.need('tx-free-role')
    except AnchorError as e:
        return [unresolved(rule, str(e))]
    n = 0
    for fn in F.fns:
        if not (fn.self_adt and last_seg(fn.self_adt) == 'Node'):
            continue
        du = None
        for bb, t, c in calls_to_fn(F, fn, txfree):
            du = du or ctx.du(fn)
            _, atoms = du.slice_operand(t['args'][1]) if len(t['args']) > 1 else (None, set())
            if not has_field(atoms, 'Node', 'page_id'):
                continue
            n += 1
            guarded = False
            for (a, sx) in fn.control_deps_transitive(bb):
                at = fn.term(a)
                if at['k'] == 'switch':
                    _, da = du.slice_operand(at['discr'])
                    if has_field(da, 'Node', 'page_id') and any(x[0] == 'bin' and x[1] in ('Ne', 'Eq', 'Gt') for x in da):
                        guarded = True
            resets = [b2 for b2, si, s in stores_to_field(fn, 'Node', 'page_id') if s['rv']['k'] == 'use' and op_const_val(s['rv']['op']) == 0]
            leak = [x for x in fn.reach_from(fn.succ(bb), avoid=set(resets)) if fn.term(x)['k'] == 'return']
            if guarded and resets and not leak:
                res.append(ok(rule, 'free of the node\'s page run at %s is guarded by "has a page" and followed by clearing the page id' % fn.loc(bb), sites=1))
            else:
                res.append(bad(rule, '%s | node page run can be freed twice' % fn.qual,
                               '%s frees the node\'s page run at %s %s: a node is written (and therefore freed) more than once per commit when it splits, so the same run would be '
                               'filed as free twice' % (fn.qual, fn.loc(bb), 'without testing that it has a page' if not guarded else 'without clearing the page id afterwards on every path'),
                               where=fn.loc(bb)))
    f = floor(rule, 'frees of a node\'s own page run', n, 1)
    if f:
        res.append(f)
    return res


def freelist_is_set(ctx, rule='C05.freelist-set'):
    """"never two of these": the persisted free list must name each page once.  Pending pages are kept per transaction in a Vec, and a page can be freed twice in
    one transaction (deleting a nested bucket and then its parent walks the committed pages of the nested bucket again), so the function that builds the list
    for the free-list page has to make it a set: sort, then dedup, after the last element was added"""
    res = []
    F = ctx.facts
    fl = F.adt('Freelist')
    if not fl:
        return [unresolved(rule, 'type Freelist')]
    fields = {f['name']: f['ty'] for f in fl['variants'][0]['fields']}
    multiset = [n for n, t in fields.items() if 'Vec<u64>' in t]
    producers = []
    for fn in F.fns:
        if fn.kind == 'Closure' or not fn.self_adt or last_seg(fn.self_adt) != 'Freelist' or fn.locals[0]['ty'] != 'std::vec::Vec<u64>':
            continue
        _, ra = ctx.du(fn).slice_local(0)
        if has_field(ra, 'Freelist', 'free_pages') and has_field(ra, 'Freelist', 'pending_pages'):
            producers.append(fn)
    f = floor(rule, 'functions of Freelist that build the list of all free and pending page ids', len(producers), 1)
    if f:
        return [f]
    if not multiset:
        return [ok(rule, 'no field of Freelist can hold a page id twice (fields: %s)' % ', '.join('%s: %s' % kv for kv in sorted(fields.items())), sites=1)]
    ADD = {'append', 'extend', 'push', 'extend_from_slice', 'insert', 'extend_from_within'}
    for fn in producers:
        adds, sorts, dedups = set(), set(), set()
        for bb in fn.reachable_blocks():
            t = fn.term(bb)
            c = callee_of(t) if t['k'] == 'call' else None
            if not c or not t['args']:
                continue
            l = op_local(t['args'][0])
            if l is None or 'Vec<u64>' not in fn.locals[l]['ty'] and '[u64]' not in fn.locals[l]['ty']:
                continue
            nm = last_seg(strip_generics(c['path']))
            if nm in ADD:
                adds.add(bb)
            elif nm.startswith('sort'):
                sorts.add(bb)
            elif nm.startswith('dedup'):
                dedups.add(bb)
        rets = {bb for bb in fn.reachable_blocks() if fn.term(bb)['k'] == 'return'}
        starts = set()
        for a in adds or {0}:
            starts |= set(fn.succ(a)) if adds else {0}
        leak = fn.reach_from(list(starts), avoid=dedups) & rets
        unsorted = set()
        for a in adds:
            unsorted |= fn.reach_from(fn.succ(a), avoid=sorts) & dedups
        if dedups and not leak and not unsorted:
            res.append(ok(rule, '%s sorts and dedups the list after the last element is added (Freelist.%s can hold duplicates)' % (fn.qual, ','.join(multiset)), sites=1))
        else:
            why = 'is never deduplicated' if not dedups else ('can be returned without passing the dedup' if leak else 'is deduplicated before it is sorted')
            res.append(bad(rule, '%s | persisted free list can name a page twice' % fn.qual,
                           '%s builds the page-id list for the free-list page from Freelist.%s, which is a Vec and receives a page twice when a nested bucket and then its parent are '
                           'deleted in one transaction; the list %s, so the committed free-list page names the page twice and the built-in check rejects the file'
                           % (fn.qual, ','.join(multiset), why), where='%s:%d' % (fn.file, fn.line)))
    return res


KEEP_FIRST = {'entry', 'or_insert', 'or_insert_with', 'or_insert_with_key', 'or_default', 'try_insert', 'get_or_insert_with', 'get_or_insert'}


def parent_links_refreshed(ctx, rule='C05.parent-links-refreshed'):
    """InnerBucket.page_parents caches "which page is the parent of this page" as seen by the last descent; merges during the commit move children to another
    parent and the following descent must overwrite the entry -- a keep-the-first-value update attaches the re-spilled child to a node that no longer exists,
    so a page stays reachable and free at once"""
    from effects import fn_effect_sites
    res = []
    F = ctx.facts
    n = 0
    for fn in F.fns:
        if fn.kind == 'Closure':
            continue
        hows = {}
        for (bb, adt, field, how) in fn_effect_sites(F, fn):
            if adt and last_seg(adt) == 'InnerBucket' and field == 'page_parents':
                hows.setdefault(how, bb)
        if not hows:
            continue
        writes = {h: b for h, b in hows.items() if h in KEEP_FIRST or h in ('insert', 'extend', 'store')}
        if not writes:
            continue
        n += 1
        keep = sorted(h for h in writes if h in KEEP_FIRST)
        if keep:
            bb = writes[keep[0]]
            res.append(bad(rule, '%s | parent link kept from the first descent (%s)' % (fn.qual, ','.join(keep)),
                           '%s records the parent of a page with `%s` at %s, which keeps an older entry instead of overwriting it: after a merge moved the page under another '
                           'parent the stale link makes the commit write the child below a deleted node' % (fn.qual, ', '.join(keep), fn.loc(bb)), where=fn.loc(bb)))
        else:
            res.append(ok(rule, '%s overwrites the parent link on every descent (%s)' % (fn.qual, ','.join(sorted(writes))), sites=1))
    f = floor(rule, 'functions that record parent links', n, 1)
    if f:
        res.append(f)
    return res


def separator_refreshed(ctx, rule='C05.separator-refreshed'):
    """when the merge pass moves a node's data into its RIGHT neighbour (the child chosen with `index + 1`), the neighbour now starts with smaller keys than its
    separator in the parent says: the pass must refresh that separator (a store into Branch.key) and the neighbour's own record of it (Node.original_key) -- the
    entries of nested buckets are rewritten later in the same commit by a search that descends by separators"""
    res = []
    F = ctx.facts
    try:
        (rb,) = ctx.need('rebalance-role')
    except AnchorError as e:
        return [unresolved(rule, str(e))]
    n = 0
    for g0 in sorted(F.reachable_fns([rb]), key=lambda f: f.path):
        if g0.kind == 'Closure' or not (g0.self_adt and last_seg(g0.self_adt) == 'InnerBucket'):
            continue
        g = ctx.A.xf(g0)
        merges = [bb for bb, t, c in calls_named(F, g, 'NodeData::merge')]
        if not merges:
            continue
        du = ctx.du(g)
        right = []
        for bb, t, c in calls_named(F, g, 'Index::index', 'IndexMut::index_mut'):
            if 'Branch' not in (c.get('self_ty') or '') or len(t['args']) < 2:
                continue
            e = du.sym(t['args'][1])
            if e[0] == 'bin' and e[1] == 'Add' and any(x == ('const', 1) for x in e[2:]):
                right.append(bb)
        n += 1
        if not right:
            res.append(ok(rule, '%s merges nodes but never into the right neighbour (no `index + 1` child access)' % g0.qual, sites=len(merges)))
            continue
        ks = [(bb, si) for bb, si, st in stores_to_field(g, 'Branch', 'key')]
        oks = [(bb, si) for bb, si, st in stores_to_field(g, 'Node', 'original_key')]
        if ks and oks:
            res.append(ok(rule, '%s merges into the right neighbour (%s) and refreshes its separator (%s) and original key (%s)' % (
                g0.qual, g.loc(right[0]), g.loc(*ks[0]), g.loc(*oks[0])), sites=len(right)))
        else:
            res.append(bad(rule, '%s | right-merge without refreshing the separator' % g0.qual,
                           '%s moves a node\'s data into its right neighbour (chosen at %s) but %s: the neighbour keeps a separator larger than its first key, a later search for a '
                           'moved key descends to the wrong leaf, and rewriting a nested bucket\'s entry inserts a duplicate' % (
                               g0.qual, g.loc(right[0]), 'never stores Branch.key' if not ks else 'never updates the neighbour\'s original_key'), where=g.loc(right[0])))
    f = floor(rule, 'functions of the rebalance step that merge node data', n, 1)
    if f:
        res.append(f)
    return res


def children_follow_data(ctx, rule='C05.children-follow-data'):
    """when a node's entries are merged into a sibling, its loaded children go with them: the hand-over (`sibling.children.append(&mut node.children)` and the re-parenting
    loop) runs whenever the data merge runs, except that it may be skipped when the SOURCE has no loaded children.  Guarded by anything else -- the sibling's children, a flag --
    the modified children of the merged node are never written and the sibling's new entries point at their old pages"""
    import c16
    res = []
    F = ctx.facts
    n = 0
    for fn in sorted(F.fns, key=lambda f: f.path):
        if fn.kind == 'Closure' or not fn.self_adt or last_seg(fn.self_adt) != 'InnerBucket':
            continue
        if ctx.A.module_private(fn) and F.callers(fn):
            continue
        X = ctx.A.xf(fn)
        du = None
        merges, appends = [], []
        for bb in sorted(X.reachable_blocks()):
            t = X.term(bb)
            c = callee_of(t) if t['k'] == 'call' else None
            if not c or len(t['args']) != 2:
                continue
            du = du or ctx.du(X)
            trees = [du.sym(a) for a in t['args']]

            def fld(tr):
                while tr[0] in ('un', 'ref') or (tr[0] == 'call' and len(tr[2]) == 1 and last_seg(strip_generics(tr[1])) in ('deref', 'deref_mut', 'borrow_mut', 'as_mut')):
                    tr = tr[2] if tr[0] == 'un' else (tr[1] if tr[0] == 'ref' else tr[2][0])
                return (tr[2][-1], tr[1]) if tr[0] == 'field' and tr[2] else (None, None)
            (fa, ba), (fb, bb_) = fld(trees[0]), fld(trees[1])
            if fa == fb == 'data' and ba != bb_:
                merges.append(bb)
            if fa == fb == 'children' and ba != bb_ and last_seg(strip_generics(c['path'])) in ('append', 'extend', 'extend_from_slice'):
                appends.append((bb, ba, bb_))
        if not merges or not appends:
            continue
        for (ab, dst, src) in appends:
            ms = [m for m in merges if X.dominates(m, ab)] or merges
            m = ms[-1]
            n += 1
            # the tests that lie between the data merge and the hand-over (the walk is one big loop, so control dependence in the large says nothing): switches reached
            # from the merge without passing the hand-over, one side of which can still get to it before the next merge and the other cannot
            between = X.reach_from(X.succ(m), avoid={ab, m})
            extra = []
            for a in sorted(between):
                if X.term(a)['k'] != 'switch':
                    continue
                can = [ab in X.reach_from([y], avoid={m}) for y in X.succ(a)]
                if any(can) and not all(can):
                    extra.append(a)
            wrong = None
            for a in extra:
                tr = du.sym(X.term(a)['discr'])
                def norm(b):
                    # `*node.borrow()` and `*node.borrow_mut()` are the same node
                    while b[0] == 'call' and len(b[2]) == 1 and last_seg(strip_generics(b[1])) in ('deref', 'deref_mut', 'borrow', 'borrow_mut', 'as_ref', 'as_mut'):
                        b = b[2][0]
                    return b
                nsrc, ndst = norm(src), norm(dst)
                on_src = c16._tree_has(tr, lambda x: x[0] == 'field' and x[2] and x[2][-1] == 'children' and norm(x[1]) == nsrc)
                on_dst = c16._tree_has(tr, lambda x: x[0] == 'field' and x[2] and x[2][-1] == 'children' and norm(x[1]) == ndst)
                if on_dst or not on_src:
                    wrong = (a, 'the children of the node that RECEIVES the entries' if on_dst else 'something other than the children of the node being merged')
            if wrong:
                res.append(bad(rule, '%s | hand-over of loaded children guarded by the wrong condition' % fn.qual,
                               'the children of a merged node are handed to the sibling at %s only under a test (%s) of %s: when that test fails the modified children stay attached to '
                               'the deleted node, are never written, and the entries moved to the sibling point at their old pages' % (X.loc(ab), X.loc(wrong[0]), wrong[1]), where=X.loc(wrong[0])))
            else:
                res.append(ok(rule, '%s: loaded children follow the merged entries at %s (skipped at most when the merged node has none)' % (fn.qual, X.loc(ab)), sites=1))
    f = floor(rule, 'hand-overs of loaded children next to a data merge', n, 1)
    if f:
        res.append(f)
    return res


def no_narrowing(ctx, rule='C05.no-narrowing'):
    """lengths, counts, positions, page ids, sizes and checksums are 64-bit quantities end to end: no integer cast to a narrower type, except of a value that is bounded by
    construction (a remainder, a masked value, a bool, the header slot number 0 / 1).  A count narrowed to `u16` "because pages hold a few thousand elements at most" wraps for a
    free list of 65 536 ids or a leaf that took 70 000 puts in one transaction; a checksum narrowed to 32 bits lets a crafted overwrite pass"""
    import c16
    res = []
    F = ctx.facts
    W = {'u8': 8, 'i8': 8, 'u16': 16, 'i16': 16, 'u32': 32, 'i32': 32, 'u64': 64, 'i64': 64, 'usize': 64, 'isize': 64, 'u128': 128, 'i128': 128}
    n = 0
    for fn in sorted(F.fns, key=lambda g: g.path):
        du = None
        for bb in sorted(fn.reachable_blocks()):
            for si, st in enumerate(fn.blocks[bb]['stmts']):
                if st['k'] != 'assign' or st['rv']['k'] != 'cast' or st['rv'].get('ck') != 'IntToInt':
                    continue
                a, b = st['rv'].get('from'), st['rv'].get('to')
                if a not in W or b not in W or W[b] >= W[a]:
                    continue
                if any(x.startswith('macro:') and ('assert' in x or 'format' in x or 'panic' in x or 'write' in x) for x in st.get('span', {}).get('exp', [])):
                    continue
                n += 1
                du = du or ctx.du(fn)
                e = du.sym(st['rv']['op'])
                bounded = c16._tree_has(e, lambda x: (x[0] == 'bin' and x[1] in ('Rem', 'BitAnd', 'Eq', 'Ne', 'Lt', 'Le', 'Gt', 'Ge') ) or
                                        (x[0] == 'call' and last_seg(strip_generics(x[1])) in ('min', 'clamp', 'from') and 'bool' in str(x)) or
                                        (x[0] == 'field' and x[2] and x[2][-1] == 'meta_page'))
                if e[0] == 'call' and last_seg(strip_generics(e[1])) == 'from' and e[2] and e[2][0][0] == 'bin' and e[2][0][1] in ('Eq', 'Ne', 'Lt', 'Gt', 'Le', 'Ge'):
                    bounded = True
                # the header slot number (0 / 1) is stored as a u32
                dl = st['p']['l']
                if any(s2['rv']['k'] == 'use' and op_local(s2['rv']['op']) == dl for b2, i2, s2 in stores_to_field(fn, 'Meta', 'meta_page')):
                    bounded = True
                if any(e2['k'] == 'field' and e2.get('name') == 'meta_page' for e2 in st['p']['pr']):
                    bounded = True
                if bounded:
                    res.append(ok(rule, 'narrowing cast at %s is of a value bounded by construction' % fn.loc(bb, si), sites=1))
                else:
                    res.append(bad(rule, '%s | %s narrowed to %s' % (fn.qual, a, b),
                                   '%s casts `%s` from %s to %s at %s: a length, count, position, id, size or checksum that exceeds the narrow type wraps silently (the free list of a '
                                   'large delete, a leaf filled in one transaction, a key longer than 64 KiB), and what is stored or compared is a different number'
                                   % (fn.qual, c16._fmt(e)[:60], a, b, fn.loc(bb, si)), where=fn.loc(bb, si)))
    f = floor(rule, 'narrowing integer casts in the crate', n, 1)
    if f:
        res.append(f)
    return res


def run(ctx, tier):
    results = []
    results += freelist_order(ctx)
    results += pointers(ctx)
    results += c02.cow_write_set(ctx)
    results += serialiser_total(ctx)
    results += reader_writer_tables(ctx)
    results += page_kinds(ctx)
    results += run_length(ctx)
    results += no_narrowing(ctx)
    results += children_follow_data(ctx)
    # the built-in check (which strict mode runs inside every commit) accounts for the whole run of every page kind, or it rejects well-formed trees
    import c16
    results += c16.check_counts_runs(ctx, rule='C05.check-counts-runs')
    # the library's own check accepts every file the library writes: it refuses at no more sites than the pinned one
    results += c16.check_refusals(ctx, rule='C05.check-refusals')
    results += c16.block_extent(ctx, rule='C05.block-extent')
    import c07
    results += c07.position_from_search(ctx, rule='C05.position-from-search')
    # a torn header write falls back to the other slot: that slot has to hold the commit before, not the header of file creation
    results += c02.alternate_rule(ctx, rule='C05.alternate')
    results += free_once(ctx)
    results += freelist_is_set(ctx)
    results += parent_links_refreshed(ctx)
    results += separator_refreshed(ctx)
    import c08
    results += c08.key_order(ctx, rule='C05.key-order')
    import c16
    results += c16.no_pow2_arith(ctx, rule='C05.no-pow2-arith')
    results += commit.complete_writes(ctx, rule='C05.complete-writes')
    results += c02.reload_rule(ctx, rule='C05.reload')
    import c16
    results += c16.grow(ctx, rule='C05.grow')
    import c13
    results += c13.file_lock_clauses(ctx, 'C05')
    import profile
    results += profile.debug_pure(ctx, 'C05.debug-pure')
    import c01
    results += c01.rebalance_gates(ctx, rule='C05.rebalance-gates')
    import c11
    results += c11.remap_on_success(ctx, rule='C05.remap-on-success')
    _ob = commit.obligations(ctx)
    results += _ob['O4'] + _ob['O5']
    results += c02.cow_free_set(ctx, rule='C05.cow.free-set')
    import c10, c06
    results += c10.delete_walk_guard(ctx, rule='C05.delete-walk-guard')
    results += c06.shared_freelist(ctx, rule='C05.shared-freelist')
    import c09
    results += c09.writer_reads_after_lock(ctx, rule='C05.writer-snapshot')
    for r in results:
        if r.rule.startswith('C02.cow.write-set'):
            r.rule = 'C05.write-set-complete'
            r.key = r.key.replace('C02.cow.write-set', 'C05.write-set-complete')
    return dict(
        results=results, stats=dict(ctx.stats),
        explanation=(
            'Page accounting over histories is a value invariant and is NOT decided (e.g. the double free when a nested bucket and then its ancestor are deleted in one transaction). '
            'Decided are bookkeeping-order, pointer and serialiser clauses, each of which, when broken, yields a malformed file for some history: (freelist-order) free(old run) -> size -> '
            'allocate -> snapshot in dominance order, count and copied list from one snapshot; (high-water / freelist-ptr / root-ptr) the header\'s num_pages, freelist_page and root '
            'derive from the allocator\'s final mark, the newly allocated free-list page and the spill of the root bucket (rebalance before spill); (write-set-complete) commit writes '
            'exactly the allocation map; (serialiser-total, reader-writer-tables) every element / page-header field is assigned and every field read is one that is written; (page-kinds) '
            'every stored page kind is handled by the built-in check and the tree walkers; (run-length) every run length derived from Page.overflow is overflow + 1; (writer-snapshot) a writer takes header and free list as one snapshot under the writer lock.'),
        assumptions=['the built-in check and the tree walkers are the only consumers of page kinds'])
