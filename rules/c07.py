"""C07 A write transaction reads its own uncommitted changes (routing of reads)"""
from core import ok, bad, unresolved, floor
from anchors import AnchorError
from facts import callee_of, op_local, op_place, last_seg, strip_generics
from flow import _discr_switch
from util import calls_to_fn, calls_named, has_field, has_call, all_call_sites
from reach import reach_specialised, pruned_blocks, const_args

READ_API = ('Tx::get_bucket', 'Tx::buckets', 'Bucket::get', 'Bucket::get_kv', 'Bucket::get_bucket', 'Bucket::cursor', 'Bucket::range', 'Bucket::buckets',
            'Bucket::kv_pairs', 'Bucket::next_int', 'Cursor::seek', 'Cursor::current', '<Cursor as Iterator>::next', '<Range as Iterator>::next',
            '<Buckets as Iterator>::next', '<KVPairs as Iterator>::next')


def overlay_first(ctx, rule='C07.overlay-first'):
    res = []
    try:
        ol, mv = ctx.need('overlay-lookup', 'map-view')
    except AnchorError as e:
        return [unresolved(rule, str(e))]
    fn = ctx.x(ol)       # with its private helpers folded in (`page_node_for_page(id)` holding the `Page(..)` arm)
    du = ctx.du(fn)
    views = calls_to_fn(ctx.facts, fn, mv)
    f = floor(rule, 'map-view calls in the overlay lookup', len(views), 1)
    if f:
        return [f]
    # lookups in the page -> node map
    lookups = []
    for bb, t, c in calls_named(ctx.facts, fn, 'HashMap::get', 'HashMap::contains_key', 'HashMap::get_mut', 'BTreeMap::get'):
        _, atoms = du.slice_operand(t['args'][0])
        if has_field(atoms, 'InnerBucket', 'page_node_ids'):
            lookups.append((bb, t))
    if not lookups:
        return [bad(rule, '%s | node map not consulted' % fn.qual, 'the overlay lookup returns mapped pages without consulting the page -> node map: a write transaction would not see its own modified pages',
                    where='%s:%d' % (fn.file, fn.line))]
    for vb, vt, vc in views:
        behind = False
        for lb, lt in lookups:
            sw = _discr_switch(fn, lt['target'], lt['dest']['l']) if lt['target'] is not None else None
            if sw:
                sbb, tg, oth = sw
                none_t = tg.get(0, oth)
                if vb not in fn.reach_from([0], avoid_edges={(sbb, none_t)}):
                    behind = True
            # the lookup sits in a folded accessor (`node_by_page(id) -> Option<..>`): the test is made on the Option the accessor returns, which depends on the lookup
            if not behind:
                for b2 in fn.reachable_blocks():
                    t2 = fn.term(b2)
                    if t2['k'] != 'switch':
                        continue
                    dl2 = op_local(t2['discr'])
                    src = [st for st in fn.blocks[b2]['stmts'] if st['k'] == 'assign' and st['p']['l'] == dl2 and st['rv']['k'] == 'discr']
                    if not src or 'Option<' not in fn.locals[src[0]['rv']['p']['l']]['ty']:
                        continue
                    locs2, _ = du.slice_local(src[0]['rv']['p']['l'])
                    if lt['dest']['l'] not in locs2:
                        continue
                    tg2 = dict((v, x) for v, x in t2['targets'])
                    none2 = tg2.get(0, t2['otherwise'])
                    if vb not in fn.reach_from([0], avoid_edges={(b2, none2)}):
                        behind = True
            else:
                # bool result (contains_key): view behind the false edge
                nt = fn.term(lt['target']) if lt['target'] is not None else None
                if nt and nt['k'] == 'switch' and op_local(nt['discr']) == lt['dest']['l']:
                    tgm = dict((v, b) for v, b in nt['targets'])
                    if 0 in tgm and vb not in fn.reach_from([0], avoid_edges={(lt['target'], tgm[0])}):
                        behind = True
        if behind:
            res.append(ok(rule, 'mapped page is used at %s only when the page -> node lookup found no materialised node' % fn.loc(vb), sites=1))
        else:
            res.append(bad(rule, '%s | mapped page used although a node may exist' % fn.qual,
                           'in the overlay lookup the mapped page is returned at %s on a path where the page -> node map was not consulted or had an entry: a write transaction would read the stale committed page '
                           'instead of its own modified node' % fn.loc(vb), where=fn.loc(vb)))
    return res


def read_via_overlay(ctx, rule='C07.read-via-overlay'):
    res = []
    F = ctx.facts
    try:
        ol, mv = ctx.need('overlay-lookup', 'map-view')
    except AnchorError as e:
        return [unresolved(rule, str(e))]
    roots = [ctx.A.get(q) or F.fn(q) for q in READ_API]
    roots = [r for r in roots if r is not None]
    f = floor(rule, 'read API methods resolved', len(roots), 14)
    if f:
        res.append(f)
    nsites = 0
    # private helpers that only the overlay lookup calls are part of it (`page_node_for_page`)
    import c03
    ol_parts = {g for g in F.reachable_fns([ol]) if g is not ol and g.kind != 'Closure' and not g.eff_pub and c03._only_via(F, g, ol)}
    for r in roots:
        live = {}
        reach_specialised(F, r, live_out=live)
        for g, blocks in live.items():
            for bb, t, c in calls_to_fn(F, g, mv):
                if bb not in blocks:
                    continue
                nsites += 1
                if g is ol or g in ol_parts:
                    continue
                res.append(bad(rule, '%s | %s reads a mapped page directly' % (r.qual, g.qual),
                               'read API %s reaches %s, which dereferences a mapped page at %s without going through the overlay lookup (%s): inside a write transaction the read misses the '
                               'transaction\'s own uncommitted changes' % (r.qual, g.qual, g.loc(bb), ol.qual), where=g.loc(bb)))
    # how the read API obtains nodes: through the overlay lookup
    via = sum(1 for r in roots if ol in reach_specialised(F, r))
    ctx.stats['read_api_methods'] = len(roots)
    ctx.stats['read_api_methods_using_overlay'] = via
    f = floor(rule, 'read API methods that reach the overlay lookup', via, 8)
    if f:
        res.append(f)
    if not any(not x.ok for x in res):
        res.append(ok(rule, '%d read API methods: mapped pages are dereferenced only inside the overlay lookup (%d call sites seen)' % (len(roots), nsites), sites=len(roots)))
    return res


def id_form_opaque(ctx, rule='C07.id-form-opaque'):
    """inside a write transaction the same leaf goes by two names -- `Page(p)` when a cursor steps into it, `Node(n)` once the search found it copied into the overlay.  Only
    the overlay owner (InnerBucket: page_node / node) may tell the forms apart or take the number out; everywhere else an id is opaque: no test of its variant, no equality
    or order between ids, no extraction of the payload.  A decision taken on the form (skip only `Node` leaves; "same leaf" by id equality; a cache keyed by the bare number)
    is right for committed data and wrong for data the transaction itself changed"""
    res = []
    F = ctx.facts
    a = F.adt('PageNodeID')
    if a is None:
        return [unresolved(rule, 'type PageNodeID')]
    n = 0
    owner_sites = 0
    for fn in sorted(F.fns, key=lambda g: g.path):
        owner = (fn.owner or fn) if fn.kind == 'Closure' else fn
        in_owner = bool(owner.self_adt and last_seg(owner.self_adt) == 'InnerBucket')
        if fn.trait and last_seg(fn.trait) in ('Debug', 'Clone', 'Copy', 'PartialEq', 'Eq', 'PartialOrd', 'Ord', 'Hash') and fn.self_adt and last_seg(fn.self_adt) == 'PageNodeID':
            continue        # derived impls: what matters is who calls them
        for bb in sorted(fn.reachable_blocks()):
            what = None
            for st in fn.blocks[bb]['stmts']:
                if st['k'] != 'assign':
                    continue
                rv = st['rv']
                if rv['k'] == 'discr':
                    pl = rv['p']
                    ty = fn.locals[pl['l']]['ty'] if not pl['pr'] else str(pl['pr'][-1].get('ty') or pl['pr'][-1].get('of') or '')
                    if 'PageNodeID' in ty and 'Option' not in ty.split('PageNodeID')[0][-8:]:
                        what = 'tests the variant of an id'
                from facts import rvalue_places
                for pl in rvalue_places(rv):
                    for i, e in enumerate(pl['pr']):
                        if e['k'] == 'downcast' and 'PageNodeID' in str(e.get('adt') or e.get('of') or ''):
                            what = what or 'takes the number out of an id'
            t = fn.term(bb)
            c = callee_of(t) if t['k'] == 'call' else None
            if c and c.get('trait') in ('std::cmp::PartialEq', 'std::cmp::PartialOrd', 'std::cmp::Ord', 'std::hash::Hash') and 'PageNodeID' in c['path'] + str(c.get('self_ty') or ''):
                what = 'compares or hashes ids'
            if what:
                if in_owner:
                    owner_sites += 1
                else:
                    n += 1
                    res.append(bad(rule, '%s | %s' % (fn.qual, what),
                                   '%s %s at %s: a leaf changed in this transaction is `Node(n)` to the search and `Page(p)` to a cursor that steps into it, so a decision '
                                   'based on the form or the identity of an id treats the same leaf in two ways' % (fn.qual, what, fn.loc(bb)), where=fn.loc(bb)))
    f = floor(rule, 'places where the overlay owner interprets an id', owner_sites, 2)
    if f:
        res.append(f)
    if not n:
        res.append(ok(rule, 'ids are interpreted only by the overlay owner (%d sites in InnerBucket)' % owner_sites, sites=owner_sites))
    return res


def overlay_kept(ctx, rule='C07.overlay-kept'):
    """what a transaction has opened or changed stays in its overlay until the commit: entries leave `InnerBucket.buckets` / `nodes` only where a bucket is deleted.  A bound on
    the number of cached child buckets ("evict the clean ones") judges cleanliness by a shallow flag and drops a bucket whose nested bucket was written: the write is invisible
    to later reads of the transaction and lost at commit"""
    from effects import fn_effect_sites, REMOVING
    res = []
    F = ctx.facts
    n = 0
    # helpers of the commit's rebalance / spill pass and of deletion (`absorb_only_child` ...) remove what the tree no longer has
    import c03
    roots = [g for g in F.fns if g.self_adt and last_seg(g.self_adt) == 'InnerBucket' and g.kind != 'Closure' and g.name in ('merge_nodes', 'rebalance', 'spill')]
    tidy = set()
    for r0 in roots:
        tidy |= set(F.reachable_fns([r0]))
    for d0 in [g for g in F.fns if g.self_adt and last_seg(g.self_adt) == 'InnerBucket' and g.kind != 'Closure' and 'delete' in g.name]:
        tidy |= {g for g in F.reachable_fns([d0]) if g is not d0 and c03._only_via(F, g, d0)}
    for fn in sorted(F.fns, key=lambda g: g.path):
        owner = (fn.owner or fn) if fn.kind == 'Closure' else fn
        for (bb, adt, field, how) in fn_effect_sites(F, fn):
            if not (adt and last_seg(adt) == 'InnerBucket' and field in ('buckets', 'nodes', 'page_node_ids') and how in REMOVING):
                continue
            n += 1
            if 'delete' in owner.name or owner.name in ('merge_nodes', 'rebalance', 'spill') or owner in tidy:
                continue
            res.append(bad(rule, '%s | removes entries from InnerBucket.%s (%s)' % (fn.qual, field, how),
                           '%s takes entries out of the transaction\'s overlay (InnerBucket.%s, `%s` at %s) although nothing is being deleted: whatever was changed behind the evicted '
                           'entry is no longer seen by the transaction and never reaches the file' % (fn.qual, field, how, fn.loc(bb)), where=fn.loc(bb)))
    if not any(not r.ok for r in res):
        res.append(ok(rule, 'entries leave the overlay only where a bucket is deleted or the tree is rebalanced (%d removal sites)' % n, sites=max(n, 1)))
    return res


def reresolve(ctx, rule='C07.reresolve'):
    res = []
    F = ctx.facts
    for name in ('Cursor', 'SearchPath'):
        a = F.adt(name)
        if a is None:
            res.append(unresolved(rule, 'type ' + name))
            continue
        badf = []
        for f in a['variants'][0]['fields']:
            t = f['ty']
            if 'page::Page' in t and 'PageNodeID' not in t and ('&' in t or '*' in t) or 'node::Node<' in t or 'page_node::PageNode<' in t:
                badf.append('%s: %s' % (f['name'], t))
        if badf:
            res.append(bad(rule, '%s | caches a page or node' % name, '%s stores %s: a cursor created before a put would keep reading the stale page instead of re-resolving its position through the overlay'
                           % (name, badf)))
        else:
            res.append(ok(rule, '%s holds only ids / indices (%s); every step re-resolves them through the overlay' % (name, ', '.join(f['name'] for f in a['variants'][0]['fields'])), sites=len(a['variants'][0]['fields'])))
    return res


def single_root(ctx, rule='C07.single-root'):
    """bucket views are created from the committed header root only when the transaction begins; everything else goes through the live root"""
    res = []
    F = ctx.facts
    fm = ctx.A.get('view-from-meta')
    bf = ctx.A.get('begin-role')
    if fm is None or bf is None:
        return [unresolved(rule, 'view-from-meta / begin-role')]
    sites = all_call_sites(F, fm)
    f = floor(rule, 'constructions of bucket views (from_meta)', len(sites), 2)
    if f:
        res.append(f)
    for fn, bb, t in sites:
        du = ctx.du(fn)
        _, atoms = du.slice_operand(t['args'][0])
        from_header = has_field(atoms, 'TxInner', 'meta') or (has_field(atoms, 'Meta', 'root') and not has_field(atoms, 'InnerBucket', 'meta'))
        import c09
        if from_header and fn is not bf and not c09.part_of(ctx, fn, c09.begin_fn(ctx)):
            res.append(bad(rule, '%s | bucket view built from the committed header root' % fn.qual,
                           '%s builds a bucket view at %s from the header root recorded when the transaction began instead of using the transaction\'s live root bucket: buckets created, deleted '
                           'or modified earlier in the same write transaction are not reflected' % (fn.qual, fn.loc(bb)), where=fn.loc(bb)))
        else:
            res.append(ok(rule, 'bucket view at %s is %s' % (fn.loc(bb), 'the root view created at begin' if (fn is bf or from_header) else 'a child view whose meta comes from a lookup through the overlay'), sites=1))
    return res


def _search_role(ctx):
    """the tree search: function returning (bool, Vec<SearchPath>) -- exact-match flag plus the descent stack"""
    return ctx.A.get('search-role')


def exact_match_used(ctx, rule='C07.exact-match-used'):
    """the search positions on the entry BEFORE the insertion point when the key is absent, so the only way to tell "found" from "neighbour" is the exact-match
    flag it returns: every caller must test it (or hand it on); a caller that drops it acts on the neighbour of an absent key"""
    res = []
    F = ctx.facts
    sr = _search_role(ctx)
    if sr is None:
        return [unresolved(rule, 'search role (function returning (bool, Vec<SearchPath>))')]
    n = 0
    for fn in F.fns:
        sites = calls_to_fn(F, fn, sr)
        if not sites:
            continue
        du = ctx.du(fn)
        for bb, t, c in sites:
            n += 1
            d = t['dest']['l']
            # locals that receive the flag
            from util import search_flag_locals
            flags = search_flag_locals(fn, t)
            used = (d == 0)      # `search(..)` as the tail expression: the flag is handed on as this function's own result
            for b2 in sorted(fn.reachable_blocks()):
                tt = fn.term(b2)
                ops = []
                if tt['k'] == 'switch':
                    ops.append(tt['discr'])
                for st in fn.blocks[b2]['stmts']:
                    if st['k'] == 'assign' and st['p']['l'] == 0:
                        from facts import rvalue_operands
                        ops.extend(rvalue_operands(st['rv']))
                for o in ops:
                    pl = op_place(o)
                    if pl is None:
                        continue
                    if pl['l'] == d and pl['pr'] and pl['pr'][0]['k'] == 'field' and pl['pr'][0].get('name') == '0':
                        used = True
                    elif flags and (du.slice_operand(o)[0] & flags):
                        used = True
            if used:
                res.append(ok(rule, '%s tests (or returns) the exact-match flag of the search at %s' % (fn.qual, fn.loc(bb)), sites=1))
            else:
                res.append(bad(rule, '%s | exact-match flag of the search dropped' % fn.qual,
                               '%s calls the tree search at %s and never looks at the exact-match flag it returns: for an absent key the search stops on the neighbouring entry, '
                               'so the caller reads, replaces or deletes the wrong entry' % (fn.qual, fn.loc(bb)), where=fn.loc(bb)))
    f = floor(rule, 'call sites of the tree search', n, 2)
    if f:
        res.append(f)
    return res


REGISTRIES = {'InnerBucket': 'buckets', 'Node': 'nodes'}


def overlay_registered(ctx, rule='C07.overlay-registered'):
    """a transaction sees its own writes only if every handle to a child bucket or a materialised node is the ONE shared copy registered in the parent
    (InnerBucket.buckets / InnerBucket.nodes): a freshly built Rc<RefCell<..>> must be registered before the method can return normally"""
    from effects import fn_effect_sites
    res = []
    F = ctx.facts
    n = 0
    for fn in F.fns:
        if fn.kind == 'Closure' or not fn.self_adt or last_seg(fn.self_adt) != 'InnerBucket':
            continue
        creations = []
        for bb in sorted(fn.reachable_blocks()):
            t = fn.term(bb)
            c = callee_of(t) if t['k'] == 'call' else None
            if c and strip_generics(c['path']) in ('std::rc::Rc::new', 'alloc::rc::Rc::new') and not t['dest']['pr']:
                ty = fn.locals[t['dest']['l']]['ty']
                for what, reg in REGISTRIES.items():
                    if ty.startswith('std::rc::Rc<std::cell::RefCell<') and ('::%s<' % what in ty or '::%s>' % what in ty):
                        creations.append((bb, what, reg))
        if not creations:
            continue
        sites = fn_effect_sites(F, fn)
        for bb, what, reg in creations:
            n += 1
            regs = {b2 for (b2, adt, field, how) in sites if adt and last_seg(adt) == 'InnerBucket' and field == reg and how in ('insert', 'push', 'entry', 'or_insert', 'or_insert_with', 'extend', 'store')}
            # ... or it becomes the registry of a bucket that is being built (InnerBucket { nodes: vec![..], .. })
            du = ctx.du(fn)
            dl = fn.term(bb)['dest']['l']
            for b2 in fn.reachable_blocks():
                for st in fn.blocks[b2]['stmts']:
                    if st['k'] == 'assign' and st['rv']['k'] == 'agg' and st['rv'].get('ak') == 'adt' and last_seg(st['rv']['adt']) == 'InnerBucket':
                        for nme, o in zip(st['rv']['fields'], st['rv']['ops']):
                            if nme == reg and op_place(o) is not None and dl in du.slice_operand(o)[0]:
                                regs.add(b2)
            reach = fn.reach_from(fn.succ(bb), avoid=regs)
            leaks = [b2 for b2 in sorted(reach) if fn.term(b2)['k'] == 'return']
            if regs and not leaks:
                res.append(ok(rule, '%s: the %s handle built at %s is registered in InnerBucket.%s on every path to a return' % (fn.qual, what, fn.loc(bb), reg), sites=1))
            else:
                res.append(bad(rule, '%s | %s handle not registered in InnerBucket.%s' % (fn.qual, what, reg),
                               '%s builds a new shared %s at %s and can return without registering it in InnerBucket.%s: the caller gets a private copy, so writes made through it are '
                               'invisible to every other lookup in the same transaction and are lost at commit' % (fn.qual, what, fn.loc(bb), reg), where=fn.loc(bb)))
    f = floor(rule, 'constructions of shared bucket / node handles in InnerBucket methods', n, 3)
    if f:
        res.append(f)
    return res


def scan_skips_empty(ctx, rule='C07.scan-skips-empty'):
    """deleting every key of a leaf leaves an empty node in the tree until the commit rebalances it, and `current()` is None there: the cursor's advance has to
    look at the entry it is about to return and go on when it is None below the root; returning it unexamined ends the scan at the first emptied leaf and hides
    every later key of the transaction's own view"""
    res = []
    F = ctx.facts
    try:
        nxt, cur = ctx.need('<Cursor as Iterator>::next', 'Cursor::current')
    except AnchorError as e:
        return [unresolved(rule, str(e))]
    nxt = ctx.x(nxt)       # with its private helpers folded in (`settle`, `advance`, `current_or_following` ...)
    sites = calls_to_fn(F, nxt, cur)
    f = floor(rule, 'calls of Cursor::current in Cursor::next', len(sites), 1)
    if f:
        return [f]
    for bb, t, c in sites:
        d = t['dest']['l']
        examined = False
        option_tests = []
        if d != 0 and not t['dest']['pr']:
            for b2 in nxt.reachable_blocks():
                tt = nxt.term(b2)
                if tt['k'] != 'switch':
                    continue
                for st in nxt.blocks[b2]['stmts']:
                    if st['k'] == 'assign' and st['rv']['k'] == 'discr' and st['rv']['p']['l'] == d and op_local(tt['discr']) == st['p']['l']:
                        # the None arm must be able to come back to the advance (a loop), not just return
                        tg = dict((v, x) for v, x in tt['targets'])
                        none_arm = tg.get(0, tt['otherwise'])
                        if bb in nxt.reach_from([none_arm]):
                            examined = True
            # `data.is_none()` / `data.is_some()` is the same examination
            for b2 in nxt.reachable_blocks():
                t2 = nxt.term(b2)
                c2 = callee_of(t2) if t2['k'] == 'call' else None
                if c2 and last_seg(strip_generics(c2['path'])) in ('is_none', 'is_some') and t2['args'] and d in ctx.du(nxt).slice_operand(t2['args'][0])[0] and t2['target'] is not None:
                    for b3 in nxt.reach_from([t2['target']]):
                        t3 = nxt.term(b3)
                        if t3['k'] == 'switch' and t2['dest']['l'] in ctx.du(nxt).slice_operand(t3['discr'])[0] and any(bb in nxt.reach_from([y]) for y in nxt.succ(b3)) \
                                and not all(bb in nxt.reach_from([y], avoid={b3}) for y in nxt.succ(b3)):
                            examined = True
                            option_tests.append((b3, t2['dest']['l']))
        # ... and whether a None ends the scan or sends it on is decided by the depth of the stack alone (the root may be empty, nothing below it may end the scan): a
        # budget ("step over one empty leaf per call"), a flag or the form of the id lets the scan stop in the middle of a run of emptied leaves
        other = None
        if examined:
            du = ctx.du(nxt)
            for b2 in nxt.reachable_blocks():
                tt = nxt.term(b2)
                if tt['k'] != 'switch' or not any(st['k'] == 'assign' and st['rv']['k'] == 'discr' and st['rv']['p']['l'] == d and op_local(tt['discr']) == st['p']['l']
                                                  for st in nxt.blocks[b2]['stmts']):
                    continue
                tg = dict((v, x) for v, x in tt['targets'])
                none_arm = tg.get(0, tt['otherwise'])
                back = nxt.reach_from([none_arm])
                cands = [h for h in back if nxt.dominates(h, bb) and h != bb]
                heads = [h for h in cands if all(nxt.dominates(h, o) for o in cands)]
                if not heads:
                    continue
                H = heads[0]
                region = nxt.reach_from([none_arm], avoid={H})
                for sb in sorted(region):
                    ts = nxt.term(sb)
                    if ts['k'] != 'switch':
                        continue
                    ends = [any(nxt.term(x)['k'] == 'return' for x in nxt.reach_from([y], avoid={H})) for y in nxt.succ(sb)]
                    if any(ends) and not all(ends):
                        _, atoms = du.slice_operand(ts['discr'])
                        if not has_field(atoms, 'Cursor', 'stack'):
                            other = sb
        if examined and other is not None:
            res.append(bad(rule, '%s | skipping an emptied leaf depends on more than the stack depth' % nxt.qual,
                           'after current() returned None at %s, the test at %s decides between going on and ending the scan without looking at the depth of the cursor stack: '
                           'with two emptied leaves in a row (or a leaf reached by stepping rather than by search) the scan ends although later entries exist'
                           % (nxt.loc(bb), nxt.loc(other)), where=nxt.loc(other)))
        elif examined:
            res.append(ok(rule, 'the entry fetched at %s is examined; a None below the root sends the cursor on to the next leaf' % nxt.loc(bb), sites=1))
        else:
            res.append(bad(rule, '%s | entry returned unexamined' % nxt.qual,
                           'Cursor::next returns the result of current() at %s without looking at it: on a leaf whose keys were all deleted in this transaction current() is None, '
                           'so the scan (and every range built on it) ends there and hides all later keys' % nxt.loc(bb), where=nxt.loc(bb)))
    return res


def position_from_search(ctx, rule='C07.position-from-search'):
    """the position at which an entry is read, replaced or deleted comes from a tree search made in the same operation: the transaction's overlay changes
    between operations (inserts shift indices, nodes are materialised), so a position kept from an earlier operation -- a cached last lookup -- addresses
    another entry.  Judged on the expression tree of the index handed to PageNode::val / Node::delete, with module-private helpers folded in."""
    import c16
    res = []
    F = ctx.facts
    sr = ctx.A.get('search-role')
    if sr is None:
        return [unresolved(rule, 'search role')]
    n = 0
    for fn in sorted(F.fns, key=lambda f: f.path):
        if fn.kind == 'Closure' or not fn.self_adt or last_seg(fn.self_adt) != 'InnerBucket':
            continue
        if ctx.A.module_private(fn) and F.callers(fn) and all(((g.owner or g) if g.kind == 'Closure' else g).self_adt == fn.self_adt for g in F.callers(fn)):
            continue        # folded into the InnerBucket methods that call it (a private method called from the handle types is looked at here)
        X = ctx.A.xf(fn)
        du = None
        for bb in sorted(X.reachable_blocks()):
            t = X.term(bb)
            c = callee_of(t) if t['k'] == 'call' else None
            if not c or len(t['args']) < 2:
                continue
            q = strip_generics(c['path'])
            if not (q.endswith('PageNode::val') or q.endswith('Node::delete')):
                continue
            du = du or ctx.du(X)
            e = du.sym(t['args'][1])
            n += 1
            from_search = c16._tree_has(e, lambda x: x[0] == 'call' and x[1] == sr.path)
            if not from_search:
                # the stack is a local that the search filled through a `&mut` parameter in this same function
                locs_e, _ = du.slice_operand(t['args'][1])
                for sb, stt, sc in calls_to_fn(F, X, sr):
                    for a in stt['args']:
                        pl = op_place(a)
                        if pl is not None and X.locals[pl['l']]['ty'].startswith('&mut std::vec::Vec<') and (du.slice_local(pl['l'])[0] & locs_e) and X.dominates(sb, bb):
                            from_search = True
            merged = c16._tree_has(e, lambda x: x[0] == 'phi')
            if from_search and not merged:
                res.append(ok(rule, '%s: position used at %s comes from the search made in this call' % (fn.qual, X.loc(bb)), sites=1))
            else:
                res.append(bad(rule, '%s | position not from a search made in the same operation' % fn.qual,
                               '%s %s an entry at %s at a position `%s` that %s: a position remembered from an earlier operation is stale as soon as the transaction '
                               'inserts, deletes or materialises anything in that leaf' % (fn.qual, 'reads' if q.endswith('val') else 'deletes', X.loc(bb), c16._fmt(e)[:120],
                                                                                            'can also come from somewhere else than the search' if from_search else 'does not come from a tree search in this call'),
                               where=X.loc(bb)))
    f = floor(rule, 'positions handed to PageNode::val / Node::delete in InnerBucket methods', n, 4)
    if f:
        res.append(f)
    # the same for the *node* that receives a new entry: it is the leaf the search of this operation ended in, not a node id remembered from when a placeholder was
    # inserted (the merge pass may have emptied and unlinked that node since)
    nins = 0
    for fn in sorted(F.fns, key=lambda f: f.path):
        if fn.kind == 'Closure' or not fn.self_adt or last_seg(fn.self_adt) != 'InnerBucket':
            continue
        if ctx.A.module_private(fn) and F.callers(fn) and all(((g.owner or g) if g.kind == 'Closure' else g).self_adt == fn.self_adt for g in F.callers(fn)):
            continue
        X = ctx.A.xf(fn)
        du = None
        for bb in sorted(X.reachable_blocks()):
            t = X.term(bb)
            c = callee_of(t) if t['k'] == 'call' else None
            if not c or not t['args'] or not strip_generics(c['path']).endswith('Node::insert_data'):
                continue
            du = du or ctx.du(X)
            e = du.sym(t['args'][0])
            nins += 1
            found = c16._tree_has(e, lambda x: x[0] == 'call' and x[1] == sr.path)
            if not found:
                # the stack is a local that the search filled through a `&mut` parameter in this same function
                locs_e, _ = du.slice_operand(t['args'][0])
                for sb, stt, sc in calls_to_fn(F, X, sr):
                    for a in stt['args']:
                        pl = op_place(a)
                        if pl is not None and X.locals[pl['l']]['ty'].startswith('&mut std::vec::Vec<') and (du.slice_local(pl['l'])[0] & locs_e) and X.dominates(sb, bb):
                            found = True
            if found:
                res.append(ok(rule, '%s: the node that receives the entry at %s is the one the search of this call ended in' % (fn.qual, X.loc(bb)), sites=1))
            else:
                res.append(bad(rule, '%s | entry inserted into a node not found by a search in the same operation' % fn.qual,
                               '%s inserts an entry at %s into the node `%s`, which does not come from a tree search made in this call: a node id kept from an earlier operation may '
                               'name a node that has been merged away since, and what is stored there never reaches the file' % (fn.qual, X.loc(bb), c16._fmt(e)[:120]), where=X.loc(bb)))
    f = floor(rule, 'insertions of entries into nodes in InnerBucket methods', nins, 2)
    if f:
        res.append(f)
    return res


def run(ctx, tier):
    results = []
    results += overlay_first(ctx)
    results += read_via_overlay(ctx)
    results += reresolve(ctx)
    results += overlay_kept(ctx)
    results += id_form_opaque(ctx)
    import c08
    results += c08.seek_searches(ctx, rule='C07.seek-searches')
    results += c08.keys_as_bytes(ctx, rule='C07.keys-as-bytes')
    import c05
    results += c05.no_narrowing(ctx, rule='C07.no-narrowing')
    import c09
    results += c09.writer_reads_after_lock(ctx, rule='C07.writer-snapshot')
    results += c08.stack_never_emptied(ctx, rule='C07.stack-never-emptied')
    results += single_root(ctx)
    results += exact_match_used(ctx)
    results += overlay_registered(ctx)
    results += scan_skips_empty(ctx)
    results += position_from_search(ctx)
    import c08 as _c08
    results += _c08.seek_reset(ctx, rule='C07.seek-reset')
    results += _c08.bounds_total(ctx, rule='C07.range-bounds-total')
    results += _c08.end_justified(ctx, rule='C07.range-end-justified')
    import c08
    results += c08.start_compare(ctx, rule='C07.range-start-compare')
    results += c08.index_agreement(ctx, rule='C07.index-agreement')
    results += c08.key_order(ctx, rule='C07.key-order')
    results += c08.iterator_overrides(ctx, rule='C07.iterator-overrides')
    import c01
    results += c01.carriers(ctx, rule='C07.carriers')
    # reads reflect EXACTLY the transaction's own changes: a refused mutation must not leave a partial one behind
    import c06
    results += c06.error_atomic(ctx, rule='C07.error-atomic')
    results += c01.create_refuses_existing(ctx, rule='C07.create-refuses-existing')
    results += c01.counter(ctx, rule='C07.counter')
    return dict(
        results=results, stats=dict(ctx.stats),
        explanation=(
            'Decides the ROUTING of reads, not what the cursor then does with them: (overlay-first) the overlay lookup returns the mapped page only when the page -> node map has no '
            'materialised node; (read-via-overlay) every function reachable (constant-bool specialised) from the public read API dereferences mapped pages only inside the overlay lookup; '
            '(reresolve) cursors hold ids and indices only, never a page or node; (single-root) bucket views are built from the committed header root only at begin; (range-start-compare) a range start is decided by comparing the key of the current entry, not by position (branch keys are stale inside a write transaction); (index-agreement) node-backed (modified) and page-backed (untouched) parts of the tree resolve a missing key identically. (id-form-opaque) only InnerBucket interprets the form of an id; (scan-skips-empty, second clause) the skip is decided by the stack depth alone; (position-from-search, second clause) entries go into the node the same call\'s search ended in. NOT decided: the '
            'cursor\'s treatment of emptied leaves (known early-stop defect), which entries come back.'),
        assumptions=[])
