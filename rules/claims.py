# table of claims, exec'd by gen_manifest.py
TB = 'Trusted: nightly rustc type/borrow checking and MIR construction, the jammlint exporter, the anchor/role table, the necessity arguments of DESIGN.md §5. Only the cfg(unix) library target is analysed. '
claim('C02',
      'Decides, for all commits at once, the ordering and ownership clauses necessary for crash atomicity (sync between data pages and header; nothing written after the header; success implies a sync after the header; creation path synced; copy-on-write write set; free-set discipline; alternating header slot; header selection and free-list reload through the chosen header). Does not decide that the pages chosen are unreachable from the live header, nor torn-sector behaviour.',
      TB + 'Assumes POSIX fsync/write ordering semantics.',
      'MIR path rules (must-pass-through over an inlined event trace), effect/who-may-mutate rules, data-dependence slices', '§5 C02, §2')
claim('C12',
      'Decides the structural clauses that make header fallback possible: checksum covers every header field (both formats); no assertion/panic on header bytes before the checksum test of the same header; a header is selected only behind its own validity test and both can be selected; images sealed last; previous snapshot pages kept pending. Does not decide checksum collision resistance or the rest of open.',
      TB + 'Assumes damage confined to one header page.',
      'taint/control-dependence rule over MIR, field-coverage table rule, dominance rules', '§5 C12')
for p in ('C05','C06','C07','C08','C13','C14','C15','C16'):
    na(p, 'check under construction in this round (rules designed in DESIGN.md §5; not yet registered)')
claim('C03',
      'Decides the bookkeeping clauses that pin a reader snapshot for all histories: release bound read from / tested against the open-reader registry inside its critical section; readers register exactly the id of the Meta they keep; the registry is mutated only by order-preserving single-element operations (push is followed by sort); Drop removes only the own entry of read-only transactions; every transaction owns an Arc of an immutable map and no pointer into the map is made mutable; free-set discipline. Does not decide the comparison inside release or reuse arithmetic.',
      TB + 'Assumes transaction ids are monotone.',
      'lockset + data/control-dependence rules over MIR, who-may-mutate allow-list, type facts', '§5 C03')
claim('C04',
      'Decides the lock-scope part of isolation for all schedules: one exclusively held lock covers the reader header read, its registration and the writer release decision (atomic begin, header read once); publish order (data synced before header, free list only behind the header write); writer snapshots after owning the writer lock. Does not decide linearizability or page-cache coherence.',
      TB + 'Assumes std Mutex semantics and write(2)/MAP_SHARED coherence.',
      'lockset analysis (must-held sets at sites, constant-specialised on the writable flag) + path rules on the commit trace', '§5 C04, §3')
claim('C09',
      'Decides mutual exclusion, read-after-lock and lock order as lockset facts for all schedules: the writable lock variant carries an exclusive blocking guard taken in begin and held on return, constructed nowhere else; all commit file operations go through the File in that guard; writer reads header/free list after the lock; nothing published after the lock holder is dropped; the lock-order graph (closed over the call graph, all public entries and Drop impls) is acyclic; readers never touch the writer lock. Does not decide progress under OS scheduling.',
      TB + 'Assumes each thread holds at most one transaction.',
      'lockset analysis, lock-order graph cycle check, provenance rules over MIR', '§5 C09, §3')
claim('C10',
      'Decides the links of the reuse chain (each, when cut, makes the file grow without bound): release on every writer begin on the list the transaction allocates from; reuse before extending the high-water mark; persisted list covers free and pending pages; reload through the chosen header; publication on every exit after the header write; readers deregister under the id they registered. Does not decide the plateau itself.',
      TB,
      'must-pass-through / dominance / dependence rules over MIR', '§5 C10')
claim('C11',
      'Decides error discipline and publication order of commit for every fallible call at once: every Result reachable from commit is propagated (never unwrapped, discarded or turned into success); the shared free list is replaced only behind the header write and on every exit after it; the error edge of the header write re-reads the header; the map is replaced only after successful growth and mapping; plus the C02 ordering obligations. Does not decide kernel behaviour after failed fsync or later transactions.',
      TB + 'Assumes failures are reported through Result values.',
      'error-propagation rule over all call sites reachable from commit + path rules on the inlined commit trace', '§5 C11, §2')
na('C01', 'equivalence with a reference ordered map over all histories is a statement about run-time values (search indices, split points, page ids); no path-independent code shape is a necessary condition beyond clauses owned by C05-C08, C10, C15 (DESIGN.md §5 C01, §8)')
