# table of claims, exec'd by gen_manifest.py
TB = 'Trusted: nightly rustc type/borrow checking and MIR construction, the jammlint exporter, the anchor/role table, the necessity arguments of DESIGN.md §5. Only the cfg(unix) library target is analysed. '
claim('C02',
      'Decides, for all commits at once, the ordering and ownership clauses necessary for crash atomicity (sync between data pages and header; nothing written after the header; success implies a sync after the header; creation path synced; copy-on-write write set; free-set discipline; alternating header slot; header selection and free-list reload through the chosen header). Does not decide that the pages chosen are unreachable from the live header, nor torn-sector behaviour.',
      TB + 'Assumes POSIX fsync/write ordering semantics.',
      'MIR path rules (must-pass-through over an inlined event trace), effect/who-may-mutate rules, data-dependence slices', '§5 C02, §2')
claim('C12',
      'Decides the structural clauses that make header fallback possible: checksum covers every header field (both formats); no assertion/panic on header bytes before the checksum test of the same header; a header is selected only behind its own validity test and both can be selected; images sealed last; previous snapshot pages kept pending. Does not decide checksum collision resistance or the rest of open.',
      TB + 'Assumes damage confined to one header page.',
      'taint/control-dependence rule over MIR, field-coverage table rule, dominance rules', '§5 C12')
for p in ('C03','C04','C05','C06','C07','C08','C09','C10','C11','C13','C14','C15','C16'):
    na(p, 'check under construction in this round (rules designed in DESIGN.md §5; not yet registered)')
na('C01', 'equivalence with a reference ordered map over all histories is a statement about run-time values (search indices, split points, page ids); no path-independent code shape is a necessary condition beyond clauses owned by C05-C08, C10, C15 (DESIGN.md §5 C01, §8)')
