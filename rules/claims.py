# table of claims, exec'd by gen_manifest.py
TB = 'Trusted: nightly rustc type/borrow checking and MIR construction, the jammlint exporter, the anchor/role table, the necessity arguments of DESIGN.md §5. Only the cfg(unix) library target is analysed. '
claim('C02',
      'Decides, for all commits at once, the ordering and ownership clauses necessary for crash atomicity (sync between data pages and header; nothing written after the header; success implies a sync after the header; creation path synced; copy-on-write write set; free-set discipline; alternating header slot; header selection and free-list reload through the chosen header). Does not decide that the pages chosen are unreachable from the live header, nor torn-sector behaviour.',
      TB + 'Assumes POSIX fsync/write ordering semantics.',
      'MIR path rules (must-pass-through over an inlined event trace), effect/who-may-mutate rules, data-dependence slices', '§5 C02, §2')
claim('C12',
      'Decides the structural clauses that make header fallback possible: checksum covers every header field (both formats); no assertion/panic on header bytes before the checksum test of the same header; a header is selected only behind its own validity test and both can be selected; images sealed last; previous snapshot pages kept pending. Does not decide checksum collision resistance or the rest of open.',
      TB + 'Assumes damage confined to one header page.',
      'taint/control-dependence rule over MIR, field-coverage table rule, dominance rules', '§5 C12')
claim('C05',
      'Page accounting over histories is a value invariant and is not decided. Decides bookkeeping-order, pointer and serialiser clauses that, when broken, yield a malformed file for some history: free(old list) -> size -> allocate -> snapshot order and one snapshot for count and list; header num_pages / freelist_page / root derived from the allocator and the spill; commit writes exactly the allocation map; every element and page-header field is assigned and only written fields are read; every stored page kind is handled by the built-in check and the tree walkers; every run length is overflow + 1; free-set discipline.',
      TB + 'The undecided remainder (exactly-once reachability, key order, merge/split correctness, the two known accounting defects) is the bulk of the property.',
      'dominance / data-dependence rules over MIR, exhaustiveness against type facts, sibling-agreement rules', '§5 C05')
claim('C06',
      'Effect discipline over the whole call graph: file writes/growth/remap reachable only from Tx::commit and OpenOptions::open among all public entries and Drop impls; writes in open restricted to a fresh (create_new) or empty file, nothing truncates; the shared free list changes only in commit (behind the header write) and DBInner::open; every public method that can reach a state-mutating primitive tests the writable bit first and returns ReadOnlyTx; every carrier takes its writable bit from the transaction. Does not decide that a call returning another error leaves the overlay untouched.',
      TB + 'Logical-state fields and cache exclusions are listed in rules/c06.py.',
      'call-graph reachability with constant-bool specialisation, field-effect (who-may-mutate) analysis, dominance of the writable guard', '§5 C06')
claim('C07',
      'Decides the routing of reads inside a write transaction: overlay lookup consults the page->node map before the mapped page; every function reachable from the read API dereferences mapped pages only inside the overlay lookup; cursors hold ids/indices only; bucket views are built from the committed header root only at begin; range starts are decided by comparing the current key. Does not decide which entries come back (e.g. the known early stop on emptied leaves).',
      TB + 'The undecided remainder is the bulk of the property.',
      'call-graph reachability rules, control-dependence rule, type facts', '§5 C07')
claim('C08',
      'Order and exactly-once of iteration are index arithmetic and are not decided. Decides: both range bounds consulted, Included/Excluded have their own arms reading the payload and comparing differently; start arms compare the current key with the bound; no unguarded `len - k` reachable from the iterator API; filters return None only when the inner iterator is exhausted; seek clears next_called; a cursor index is advanced only under a length test.',
      TB + 'The undecided remainder is the bulk of the property.',
      'switch-arm exhaustiveness and def-use rules over MIR, guarded-arithmetic rule over all functions reachable from the iterator API', '§5 C08')
claim('C13',
      'Decides where the advisory lock is taken and how long it lives: blocking lock_exclusive with checked result dominates every map creation and header read (and every write of the creation branch) in the trace of OpenOptions::open; the locked File is the one stored in DBInner.file; DBInner is built only in DBInner::open and owned only through the Arc in DB; no unlock / try_clone / raw-fd calls. One known finding (creation writes precede the lock). Does not decide flock semantics or waiting behaviour.',
      TB + 'Assumes flock(LOCK_EX) semantics.',
      'dominance over the inlined open trace, provenance and zero-expected call rules with positive control', '§5 C13')
claim('C14',
      'The compile-time half is decided exactly by rustc: 91 client programs (carrier x escape route, short-lived keys, threads, auto traits, use after commit) must be rejected with the expected error code while their twins (differing only by the offending lines) and 5 positive controls compile. The run-time half is replaced by a signature rule over the whole public surface (byte-capable outputs bounded by the transaction borrow; carrier parameters discovered by propagating the &Tx borrow through all signatures) with a variant-sensitive flow rule for rejected signatures, plus: unconstrained-lifetime producers are private, commit consumes the transaction.',
      TB + 'Witnesses are type-checked (never run) with the nightly toolchain.',
      'compile_fail witnesses with compiling twins (borrow checker / trait solver as oracle) + signature/region analysis + MIR flow rule', '§5 C14, §1.2')
claim('C15',
      'The format half is a table comparison and is decided exactly: layout_of of the six on-disk structs, format constants, ordered checksum recipes (hasher, field order, encoding, width) of current and legacy header, and creation-image constants equal format_pinned.json (taken from the pinned release); header selection tries the current format first and reaches the legacy validation; the legacy conversion and the commit header image copy every field from its namesake; a header is used only behind a page-size comparison that refuses a mismatch; serialiser/reader field agreement. Does not decide that a file opens with identical logical contents.',
      TB + 'format_pinned.json was generated from the pinned commit and cross-checked.',
      'layout/constant/recipe table comparison (rustc layout_of, const eval) + dominance and copy-provenance rules over MIR', '§5 C15, §1.3')
claim('C16',
      'Equality of results across the configuration product is a run-time comparison and is not decided. Decides: every public store of a caller-supplied page size is dominated by a divisibility test against the alignment of Page that refuses other values; the strict-mode check runs after data writes/growth/remap and before the header write, under the flag; growth is decided from num_pages*pagesize vs file length after the final high-water mark, the new size derives from both, and the transaction Pages are replaced from the new map.',
      TB + 'The undecided remainder is the bulk of the property (e.g. rounding arithmetic of the growth step).',
      'dominance / data-dependence rules over MIR and the commit trace', '§5 C16')
claim('C03',
      'Decides the bookkeeping clauses that pin a reader snapshot for all histories: release bound read from / tested against the open-reader registry inside its critical section; readers register exactly the id of the Meta they keep; the registry is mutated only by order-preserving single-element operations (push is followed by sort); Drop removes only the own entry of read-only transactions; every transaction owns an Arc of an immutable map and no pointer into the map is made mutable; free-set discipline. Does not decide the comparison inside release or reuse arithmetic.',
      TB + 'Assumes transaction ids are monotone.',
      'lockset + data/control-dependence rules over MIR, who-may-mutate allow-list, type facts', '§5 C03')
claim('C04',
      'Decides the lock-scope part of isolation for all schedules: one exclusively held lock covers the reader header read, its registration and the writer release decision (atomic begin, header read once); publish order (data synced before header, free list only behind the header write); writer snapshots after owning the writer lock. Does not decide linearizability or page-cache coherence.',
      TB + 'Assumes std Mutex semantics and write(2)/MAP_SHARED coherence.',
      'lockset analysis (must-held sets at sites, constant-specialised on the writable flag) + path rules on the commit trace', '§5 C04, §3')
claim('C09',
      'Decides mutual exclusion, read-after-lock and lock order as lockset facts for all schedules: the writable lock variant carries an exclusive blocking guard taken in begin and held on return, constructed nowhere else; all commit file operations go through the File in that guard; writer reads header/free list after the lock; nothing published after the lock holder is dropped; the lock-order graph (closed over the call graph, all public entries and Drop impls) is acyclic; readers never touch the writer lock. Does not decide progress under OS scheduling.',
      TB + 'Assumes each thread holds at most one transaction.',
      'lockset analysis, lock-order graph cycle check, provenance rules over MIR', '§5 C09, §3')
claim('C10',
      'Decides the links of the reuse chain (each, when cut, makes the file grow without bound): release on every writer begin on the list the transaction allocates from; reuse before extending the high-water mark; persisted list covers free and pending pages; reload through the chosen header; publication on every exit after the header write; readers deregister under the id they registered. Does not decide the plateau itself.',
      TB,
      'must-pass-through / dominance / dependence rules over MIR', '§5 C10')
claim('C11',
      'Decides error discipline and publication order of commit for every fallible call at once: every Result reachable from commit is propagated (never unwrapped, discarded or turned into success); the shared free list is replaced only behind the header write and on every exit after it; the error edge of the header write re-reads the header; the map is replaced only after successful growth and mapping; plus the C02 ordering obligations. Does not decide kernel behaviour after failed fsync or later transactions.',
      TB + 'Assumes failures are reported through Result values.',
      'error-propagation rule over all call sites reachable from commit + path rules on the inlined commit trace', '§5 C11, §2')
na('C01', 'equivalence with a reference ordered map over all histories is a statement about run-time values (search indices, split points, page ids); no path-independent code shape is a necessary condition beyond clauses owned by C05-C08, C10, C15 (DESIGN.md §5 C01, §8)')
