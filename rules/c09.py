"""C09 Writers are serialized, no update is lost, and nobody deadlocks (lockset clauses)"""
from core import ok, bad, unresolved, floor
from anchors import AnchorError
from facts import callee_of, op_local, op_place, last_seg, strip_generics
from flow import Prov
from locks import Locks
from util import calls_to_fn, calls_named, aggregates_of
import commit

READ_API = ('Tx::get_bucket', 'Tx::buckets', 'Bucket::get', 'Bucket::get_kv', 'Bucket::get_bucket', 'Bucket::cursor', 'Bucket::range',
            'Bucket::buckets', 'Bucket::kv_pairs', 'Bucket::next_int', 'Cursor::seek', 'Cursor::current',
            '<Cursor as Iterator>::next', '<Range as Iterator>::next', '<Buckets as Iterator>::next', '<KVPairs as Iterator>::next')


def locks_of(ctx):
    if not hasattr(ctx, '_locks'):
        ctx._locks = Locks(ctx.facts)
    return ctx._locks


def writable_param(fn):
    """index of the (unique) bool parameter of the begin function"""
    ps = [i for i in range(1, fn.argc + 1) if fn.locals[i]['ty'] == 'bool']
    return ps[0] if len(ps) == 1 else None


def writer_variant(ctx):
    """(variant name, payload type) of the TxLock variant that `TxLock::writable` maps to true"""
    F = ctx.facts
    w = ctx.A.get('writable-role')
    adt = F.adt('TxLock')
    if w is None or adt is None:
        return None
    # find the switch on the discriminant and the branch that stores `true` into _0
    trues = set()
    for bb in w.reachable_blocks():
        for s in w.blocks[bb]['stmts']:
            if s['k'] == 'assign' and s['p']['l'] == 0 and s['rv']['k'] == 'use' and s['rv']['op']['k'] == 'const' and s['rv']['op']['c'].get('val') == 1:
                trues.add(bb)
    for bb in w.reachable_blocks():
        t = w.term(bb)
        if t['k'] == 'switch':
            for v, tb in t['targets']:
                if tb in trues or any(x in trues for x in w.reach_from([tb]) if len(w.reach_from([tb]) & trues) == 1 and tb in w.reach_from([tb])):
                    if tb in trues:
                        var = [x for x in adt['variants'] if x['vi'] == v]
                        if var:
                            return var[0]['name'], var[0]['fields'][0]['ty'] if var[0]['fields'] else ''
    return None


def begin_fn(ctx):
    """the transaction-begin function with its private, non-role helpers folded in (rules/inline.py): the begin rules reason about lock scopes and dominance
    inside one body and must not depend on how that body is cut into helper functions"""
    return ctx.x(ctx.A.get('begin-role'))


def part_of(ctx, fn, view):
    """is fn the function behind the view, or a helper that was folded into it and is reachable from the public API only through it?"""
    if view is None:
        return False
    raw = getattr(view, 'raw', view)
    if fn is raw or fn is view:
        return True
    if fn.kind == 'Closure' and fn.owner is not None:
        return part_of(ctx, fn.owner, view)
    if fn.qual in set(getattr(view, 'inlined', ())):
        import c03
        return c03._only_via(ctx.facts, fn, raw)
    return False


def writer_excl(ctx, rule='C09.writer-excl'):
    res = []
    F = ctx.facts
    L = locks_of(ctx)
    wv = writer_variant(ctx)
    bf = begin_fn(ctx)
    if wv is None or bf is None:
        return [unresolved(rule, 'TxLock::writable / Tx::new')]
    vname, pty = wv
    excl = ('MutexGuard' in pty) or ('RwLockWriteGuard' in pty)
    if not excl:
        res.append(bad(rule, 'TxLock::%s | payload is not an exclusive guard' % vname,
                       'the transaction-lock variant that marks a transaction writable carries `%s`, which is not an exclusive guard: two writers could be open at once' % pty))
    else:
        res.append(ok(rule, 'writable variant TxLock::%s carries the exclusive guard %s' % (vname, pty), sites=1))
    wp = writable_param(bf)
    if wp is None:
        return res + [unresolved(rule, 'bool parameter of Tx::new')]
    li = L.info(bf, {wp: True})
    # constructions of the writable variant
    nagg = 0
    for f in [bf] + [g for g in F.fns if not part_of(ctx, g, bf)]:
        for bb, si, s in aggregates_of(f, 'TxLock'):
            if s['rv']['variant'] != vname:
                continue
            nagg += 1
            if f is not bf:
                res.append(bad(rule, '%s | constructs TxLock::%s' % (f.qual, vname),
                               '%s builds the writer lock variant at %s; only the transaction-begin function may (a second holder breaks single-writer)' % (f.qual, f.loc(bb, si)), where=f.loc(bb, si)))
                continue
            l = op_local(s['rv']['ops'][0])
            toks = [tok for tok, hs in enumerate(li.holders) if l in hs]
            names = li.names(toks)
            blocking = [tok for tok in toks if not li.sites[tok][4]]
            if not toks or not all(m == 'X' for _, m in names):
                res.append(bad(rule, '%s | writer lock payload not from an exclusive acquisition' % f.qual,
                               'the guard stored in TxLock::%s at %s does not come from an exclusive lock acquisition (%s)' % (vname, f.loc(bb, si), names), where=f.loc(bb, si)))
            elif not blocking:
                res.append(bad(rule, '%s | writer lock taken with try_lock' % f.qual,
                               'the writer lock at %s is acquired with a non-blocking try_* call: a failed attempt must not yield a writable transaction' % f.loc(bb, si), where=f.loc(bb, si)))
            else:
                res.append(ok(rule, 'TxLock::%s at %s holds the guard of %s' % (vname, f.loc(bb, si), names), sites=1))
                ctx._writer_lock = names[0]
    f = floor(rule, 'constructions of the writer lock variant', nagg, 1)
    if f:
        res.append(f)
    # held on (Ok) return of the writer path
    hr = li.held_on_return()
    wl = getattr(ctx, '_writer_lock', None)
    if wl and wl in hr:
        res.append(ok(rule, 'writer begin returns holding %s' % (wl,), sites=1))
    elif wl:
        res.append(bad(rule, '%s | writer lock not held on return' % bf.qual, 'the writer path of %s does not return holding %s' % (bf.qual, wl), where='%s:%d' % (bf.file, bf.line)))
    return res


def file_via_guard(ctx, rule='C09.file-via-guard'):
    res = []
    T = commit.commit_trace(ctx)
    evs = [e for e in T.events('W', 'G', 'S') if not e.get('summary')]
    f = floor(rule, 'file events (W, G, S) in the commit trace', len(evs), 4)
    if f:
        res.append(f)
    for e in evs:
        n = T.nodes[e['node']]
        fn, bb = n.fn, n.bb
        t = fn.term(bb)
        pv = Prov(fn)
        fs, _ = pv.of_operand(t['args'][0])
        okk = any(adt and last_seg(adt) == 'TxLock' for adt, nme in fs)
        if not okk:
            # the receiver is a parameter: follow it up the trace context (helper of a helper ...) to what the outermost caller passed
            cur_fn, cur_op, callers = fn, t['args'][0], list(n.ctx)
            for _ in range(6):
                l = op_local(cur_op)
                root = ctx.du(cur_fn).root_of(l) if l is not None else None
                if root is None or not (1 <= root <= cur_fn.argc) or not callers:
                    break
                cfn, cbb = callers[-1][0], callers[-1][1]
                callers = callers[:-1]
                ct = cfn.term(cbb)
                if root - 1 >= len(ct['args']):
                    break
                cur_fn, cur_op = cfn, ct['args'][root - 1]
                fs2, _ = Prov(cur_fn).of_operand(cur_op)
                if any(adt and last_seg(adt) == 'TxLock' for adt, nme in fs2):
                    okk = True
                    break
        if not okk:
            # the receiver is what a small local accessor returned (`self.file()?`): look at what that accessor returns
            cur_fn, cur_op, callers = fn, t['args'][0], list(n.ctx)
            for _ in range(6):
                l = op_local(cur_op)
                d = ctx.du(cur_fn)
                root = d.root_of(l, through_wraps=True) if l is not None else None
                if root is None:
                    break
                ds = d.defs.get(root, [])
                if len(ds) == 1 and ds[0][1] is None:
                    ct = cur_fn.term(ds[0][0])
                    cc = callee_of(ct)
                    g = None
                    if cc:
                        r = cc.get('resolved')
                        g = ctx.facts.by_path.get(r['path']) if r and r['local'] else (ctx.facts.by_path.get(cc['path']) if cc['local'] else None)
                    if g is not None and len(g.blocks) <= 40:
                        if any(adt and last_seg(adt) == 'TxLock' for adt, nme in Prov(g).prov[0]):
                            okk = True
                        break
                if 1 <= root <= cur_fn.argc and callers:
                    cfn, cbb = callers[-1][0], callers[-1][1]
                    callers = callers[:-1]
                    ct = cfn.term(cbb)
                    if root - 1 >= len(ct['args']):
                        break
                    cur_fn, cur_op = cfn, ct['args'][root - 1]
                    continue
                break
        if okk:
            res.append(ok(rule, '%s at %s operates on the file taken from the writer lock payload' % (e['ev'], e['loc']), sites=1))
        else:
            res.append(bad(rule, '%s | %s receiver not from the writer lock' % (fn.qual, e['ev']),
                           'the file %s at %s does not operate on the File held in the transaction\'s writer lock: the file could be written without holding the writer lock'
                           % (e['callee'], e['loc']), where=e['loc']))
    return res


def writer_reads_after_lock(ctx, rule='C09.writer-reads-after-lock'):
    res = []
    F = ctx.facts
    L = locks_of(ctx)
    bf = begin_fn(ctx)
    try:
        (hdr,) = ctx.need('DBInner::meta')
    except AnchorError as e:
        return [unresolved(rule, str(e))]
    wp = writable_param(bf)
    li = L.info(bf, {wp: True})
    if not hasattr(ctx, '_writer_lock'):
        writer_excl(ctx)
    wl = getattr(ctx, '_writer_lock', None)
    if wl is None:
        return [unresolved(rule, 'writer lock')]
    sites = []
    reach_hdr = {g for g in F.fns if hdr in F.reachable_fns([g])} | set(getattr(ctx.A, 'hdr_helpers', ()))
    for bb, t, target, c in F.call_sites(bf):
        if bb not in li.reach:
            continue
        if target is not None and target in reach_hdr:
            sites.append((bb, 'header read'))
        # clone of the shared free list: Clone::clone on a value derived from the guard of DBInner.freelist
        if c and c['path'] == 'std::clone::Clone::clone' and 'freelist::Freelist' in (c.get('self_ty') or ''):
            sites.append((bb, 'copy of the shared free list'))
        # the transaction's own reference to the map: a writer that waits for the lock with an older map reads the new header's pages beyond its end
        if c and c['path'] == 'std::clone::Clone::clone' and 'Arc<memmap2::Mmap>' in (c.get('self_ty') or ''):
            sites.append((bb, 'copy of the shared map'))
    # the release bound: what the writer reads from the open-reader registry.  Read before the writer lock, it can be older than a reader that opened while this
    # writer was waiting; the pages of that reader's snapshot, freed by the commit in between, would then be released
    import c03
    try:
        li2, hs2, _toks = c03.registry_holders(ctx, bf, {wp: True} if wp else None)
        for bb, t, nm, mut in c03.registry_calls(ctx, bf, hs2):
            if bb in li.reach and nm in ('index', 'first', 'get', 'min', 'iter', 'len', 'is_empty', 'last', 'binary_search', 'contains', 'max', 'first_key_value', 'peek'):
                sites.append((bb, 'read of the reader registry'))
    except Exception:
        pass
    f = floor(rule, 'snapshot reads (header, shared free list) on the writer begin path', len(sites), 2)
    if f:
        res.append(f)
    for bb, what in sites:
        held = li.held_must_at(bb)
        if wl in held:
            res.append(ok(rule, '%s at %s happens while %s is held' % (what, bf.loc(bb), wl), sites=1))
        else:
            res.append(bad(rule, '%s | %s before the writer lock' % (bf.qual, what),
                           'on the writer path the %s at %s is not dominated by the acquisition of the writer lock %s (held: %s): a writer that waits for the lock '
                           'afterwards builds on a stale snapshot (lost update)' % (what, bf.loc(bb), wl, held), where=bf.loc(bb)))
    return res


def publish_before_unlock(ctx, rule='C09.publish-before-unlock'):
    res = []
    T = commit.commit_trace(ctx)
    U = [e for e in T.events('U') if not e.get('summary')]
    late = [e for e in T.events('W', 'S', 'P', 'G', 'M') if not e.get('summary')]
    n = 0
    for u in U:
        after = T.reach(T.succ.get(u['node'], set()))
        off = [e for e in late if e['node'] in after]
        n += 1
        if off:
            res.append(bad(rule, '%s | %s after the writer lock is dropped' % (T.nodes[u['node']].fn.qual, off[0]['ev']),
                           'the value holding the writer lock is dropped at %s before the %s at %s: another writer can start while this commit is still publishing'
                           % (u['loc'], off[0]['ev'], off[0]['loc']), where=u['loc']))
    if not any(not r.ok for r in res):
        res.append(ok(rule, 'no file write, sync or publication is reachable after a drop of the writer lock holder (%d drop sites)' % n, sites=n))
    return res


def lock_order(ctx, rule='C09.lock-order'):
    res = []
    F = ctx.facts
    L = locks_of(ctx)
    if not hasattr(ctx, '_writer_lock'):
        writer_excl(ctx)
    entries = []
    bf = begin_fn(ctx)
    wp = writable_param(bf)
    held_w = set(L.info(bf, {wp: True}).held_on_return())
    held_r = set(L.info(bf, {wp: False}).held_on_return())
    for f in F.fns:
        if f.kind == 'Closure':
            continue
        is_entry = f.eff_pub or (f.trait and last_seg(f.trait) == 'Drop')
        if not is_entry:
            continue
        # methods that run while a transaction exists run under the transaction's lock (either kind)
        st = f.self_adt and last_seg(f.self_adt)
        in_tx = st in ('Tx', 'TxInner', 'Bucket', 'Cursor', 'Range', 'Buckets', 'KVPairs', 'InnerBucket')
        fx = ctx.x(f)       # a writable guard hidden in a helper must still cut the writer-only part off for readers
        if in_tx:
            entries.append((fx, held_w, False))
            entries.append((fx, held_r, True))
        else:
            entries.append((fx, set(), False))
    from guards import writer_only_blocks
    edges = L.order_edges(entries, writer_only=lambda fn: writer_only_blocks(F, fn, ctx.du(fn))[0])
    # the begin function itself: edges inside it are collected with may-held (both paths)
    g = {}
    for (a, b), sites in edges.items():
        g.setdefault(a[0], {}).setdefault(b[0], []).append((a[1], b[1], sites[0]))
    ctx.stats['lock_order_edges'] = sorted('%s(%s)->%s(%s)' % (a[0], a[1], b[0], b[1]) for (a, b) in edges)
    nacq = sum(len(L.info(f).sites) for f in F.fns)
    ctx.stats['lock_acquisition_sites'] = nacq
    f = floor(rule, 'lock acquisition sites on DBInner locks', nacq, 5) or floor(rule, 'lock-order edges', len(edges), 4)
    if f:
        res.append(f)
    # cycle detection over lock names (a shared acquisition conflicts with an exclusive one: std RwLock may block
    # new readers behind a waiting writer); self-edges file->file only arise from user misuse (two writers on one thread)
    cyc = _find_cycle(g)
    if cyc:
        desc = ' -> '.join(cyc)
        sites = []
        for i in range(len(cyc) - 1):
            m = g[cyc[i]][cyc[i + 1]][0]
            sites.append('%s(%s) held while acquiring %s(%s) at %s' % (cyc[i], m[0], cyc[i + 1], m[1], m[2]))
        res.append(bad(rule, 'cycle | ' + desc, 'the lock-order graph over DBInner\'s locks has a cycle: %s; two threads taking the locks in opposite order deadlock' % desc,
                       where=sites[0].split(' at ')[-1].split('@')[-1], path=sites))
    else:
        res.append(ok(rule, 'lock-order graph over %d locks is acyclic (%d edges)' % (len(L.fields), len(edges)), sites=len(edges)))
    unknown = [s for f in F.fns for s in L.info(f).sites if s[1].startswith('?')]
    for (bb, name, mode, tok, tr) in unknown[:3]:
        res.append(bad(rule, 'unknown lock | %s' % name, 'a lock acquisition could not be attributed to a DBInner field (%s)' % name))
    return res


def _find_cycle(g):
    WHITE, GREY, BLACK = 0, 1, 2
    color = {}
    stack = []

    def dfs(u):
        color[u] = GREY
        stack.append(u)
        for v in sorted(g.get(u, {})):
            if v == u:
                return [u, u]
            if color.get(v, WHITE) == GREY:
                i = stack.index(v)
                return stack[i:] + [v]
            if color.get(v, WHITE) == WHITE:
                r = dfs(v)
                if r:
                    return r
        stack.pop()
        color[u] = BLACK
        return None
    for u in sorted(g):
        if color.get(u, WHITE) == WHITE:
            r = dfs(u)
            if r:
                return r
    return None


def reader_free_of_writer(ctx, rule='C09.reader-free-of-writer'):
    res = []
    F = ctx.facts
    L = locks_of(ctx)
    if not hasattr(ctx, '_writer_lock'):
        writer_excl(ctx)
    wl = getattr(ctx, '_writer_lock', None)
    if wl is None:
        return [unresolved(rule, 'writer lock')]
    bf = begin_fn(ctx)
    wp = writable_param(bf)
    li = L.info(bf, {wp: False})
    n = 0
    for (bb, name, mode, tok, tr) in li.sites:
        if bb in li.reach:
            n += 1
            if name == wl[0]:
                res.append(bad(rule, '%s | reader begin acquires the writer lock' % bf.qual,
                               'the read-only begin path acquires %s at %s: a reader would be blocked by an open uncommitted writer' % (name, bf.loc(bb)), where=bf.loc(bb)))
    # callees of the reader path
    for bb, t, target, c in F.call_sites(bf):
        if bb in li.reach and target is not None:
            for (nm, md) in L.acquired_transitively(target):
                if nm == wl[0]:
                    res.append(bad(rule, '%s | reader begin reaches the writer lock via %s' % (bf.qual, target.qual),
                                   'the read-only begin path calls %s at %s, which acquires the writer lock %s' % (target.qual, bf.loc(bb), nm), where=bf.loc(bb)))
    napi = 0
    for q in READ_API:
        f = ctx.A.get(q) or F.fn(q)
        if f is None:
            continue
        napi += 1
        for (nm, md) in L.acquired_transitively(f):
            if nm == wl[0]:
                res.append(bad(rule, '%s | read API acquires the writer lock' % f.qual, 'read API method %s can acquire the writer lock %s' % (f.qual, nm), where='%s:%d' % (f.file, f.line)))
    # transactions the crate begins for itself (DB::check ...): one that is begun writable takes the writer lock, so it has to be one that commits; a read-only walk begun
    # with `true` makes every caller wait for -- and hold up -- the open writer
    from facts import op_const_val
    dbtx = F.fn('DB::tx')
    cm = ctx.A.get('Tx::commit')
    nint = 0
    for fn in F.fns:
        if fn is dbtx or fn is bf:
            continue
        for target in (dbtx, bf):
            if target is None:
                continue
            twp = writable_param(target) if target is bf else next((i for i in range(1, target.argc + 1) if target.locals[i]['ty'] == 'bool'), None)
            for bb, t, c in calls_to_fn(F, fn, target):
                nint += 1
                if twp is None or twp - 1 >= len(t['args']):
                    continue
                v = op_const_val(t['args'][twp - 1])
                if v == 1 and cm is not None and cm not in F.reachable_fns([(fn.owner or fn) if fn.kind == 'Closure' else fn]):
                    res.append(bad(rule, '%s | begins a writable transaction it never commits' % fn.qual,
                                   '%s begins a transaction with writable = true at %s and cannot reach Tx::commit: a read-only operation that takes the writer lock is blocked by an open '
                                   'uncommitted writer and blocks the next one' % (fn.qual, fn.loc(bb)), where=fn.loc(bb)))
    f = floor(rule, 'transactions begun by the crate itself', nint, 1)
    if f:
        res.append(f)
    f = floor(rule, 'read API methods resolved', napi, 12)
    if f:
        res.append(f)
    if not any(not r.ok for r in res):
        res.append(ok(rule, 'the reader begin path (%d acquisitions) and %d read API methods never acquire the writer lock %s' % (n, napi, wl[0]), sites=n + napi))
    return res


def snapshot_source(ctx, rule='C09.snapshot-source'):
    """a transaction's snapshot is the header read from the mapped file under the map lock at begin (after the writer lock, for writers): the header-selection
    role must compute its result from the map alone -- a copy kept in shared state (a cache) can be older or newer than the file and lets a writer start from a
    header that another commit has already replaced (lost update)"""
    res = []
    F = ctx.facts
    try:
        (hdr,) = ctx.need('DBInner::meta')
    except AnchorError as e:
        return [unresolved(rule, str(e))]
    scope = [hdr] + sorted((g for g in F.reachable_fns([hdr]) if g is not hdr and g.kind != 'Closure' and 'meta::Meta' in g.locals[0]['ty']
                            and g.self_adt and last_seg(g.self_adt) == 'DBInner'), key=lambda f: f.path)
    ALLOWED = {'data', 'pagesize', 'flags'}      # the map, and immutable configuration
    nf = 0
    for fn in scope:
        du = ctx.du(fn)
        _, atoms = du.slice_local(0)
        used = sorted({a[2] for a in atoms if a[0] == 'field' and a[1] and last_seg(a[1]) == 'DBInner'})
        nf += len(used)
        extra = [u for u in used if u not in ALLOWED]
        if extra:
            res.append(bad(rule, '%s | header taken from shared state DBInner.%s' % (fn.qual, ','.join(extra)),
                           'the header returned by %s depends on DBInner.%s, not only on the mapped file: a transaction can begin from a header that is not the newest one on '
                           'disk (a writer then overwrites a commit it never saw)' % (fn.qual, ', '.join(extra)), where='%s:%d' % (fn.file, fn.line)))
        else:
            res.append(ok(rule, '%s computes the header from DBInner.%s only' % (fn.qual, '/'.join(used) or '-'), sites=1))
    f = floor(rule, 'DBInner fields read by header selection', nf, 1)
    if f:
        res.append(f)
    # ... and what begin stores as the transaction's header is what that selection returned, not a copy kept next to it
    try:
        bf = begin_fn(ctx)
    except Exception:
        bf = None
    if bf is not None:
        du = ctx.du(bf)
        sel = {g.path for g in scope} | {h.path for h in getattr(ctx.A, 'hdr_helpers', ())}
        nagg = 0
        for bb, si, st in aggregates_of(bf, 'TxInner'):
            for nme, o in zip(st['rv']['fields'], st['rv']['ops']):
                if nme != 'meta':
                    continue
                nagg += 1
                _, atoms = du.slice_operand(o)
                # (the five fields the pinned tree has are locks around the map, the file, the free list and the registry: none of them can hold a header)
                used = sorted({a[2] for a in atoms if a[0] == 'field' and a[1] and last_seg(a[1]) == 'DBInner' and a[2] not in ALLOWED
                               and a[2] not in ('mmap_lock', 'freelist', 'file', 'open_ro_txs')})
                from_sel = any(a[0] == 'call' and a[2] in sel for a in atoms)
                if used:
                    res.append(bad(rule, '%s | transaction header taken from shared state DBInner.%s' % (bf.qual, ','.join(used)),
                                   'the header a transaction begins from (TxInner.meta, built at %s) depends on DBInner.%s: a cached copy is whatever the last writer left there -- its '
                                   'slot number, for one, is the slot *before* that commit, so the next commit overwrites the newest header in place' % (bf.loc(bb, si), ', '.join(used)),
                                   where=bf.loc(bb, si)))
                elif not from_sel:
                    res.append(bad(rule, '%s | transaction header not obtained from header selection' % bf.qual,
                                   'the header stored in TxInner.meta at %s does not come from %s' % (bf.loc(bb, si), hdr.qual), where=bf.loc(bb, si)))
                else:
                    res.append(ok(rule, 'the header stored in TxInner.meta at %s is the result of header selection' % bf.loc(bb, si), sites=1))
        f = floor(rule, 'constructions of TxInner in begin', nagg, 1)
        if f:
            res.append(f)
    return res


def no_busy_wait(ctx, rule='C09.no-busy-wait'):
    """nobody waits for shared state by polling it: on the begin and commit paths there is no loop around `yield_now` / `spin_loop` / `sleep`.  The locks say who waits for
    whom, and the lock model above shows that order to be acyclic; a polling loop is a waiting edge the locks do not show -- a commit that polls the reader registry until it is
    empty never finishes while short readers overlap, a reader that polls a "writers waiting" counter is blocked by an open writer"""
    res = []
    F = ctx.facts
    try:
        cm = ctx.need('Tx::commit')[0]
        bf = begin_fn(ctx)
    except Exception as e:
        return [unresolved(rule, str(e))]
    roots = [x for x in (cm, bf, F.fn('DB::tx'), ctx.A.get('OpenOptions::open')) if x is not None]
    drops = [g for g in F.fns if g.trait and g.trait.endswith('Drop') and g.name == 'drop']
    reach = set()
    for r in roots + drops:
        reach |= set(F.reachable_fns([r]))
    reach |= {f for f in F.fns if f.kind == 'Closure' and f.owner in reach}
    WAIT = ('std::thread::yield_now', 'std::hint::spin_loop', 'std::thread::sleep', 'core::hint::spin_loop', 'std::thread::park', 'std::thread::park_timeout')
    n = 0
    for fn in sorted(reach, key=lambda g: g.path):
        for bb in sorted(fn.reachable_blocks()):
            t = fn.term(bb)
            c = callee_of(t) if t['k'] == 'call' else None
            if c and strip_generics(c['path']) in WAIT:
                n += 1
                if bb in fn.reach_from(fn.succ(bb)):
                    res.append(bad(rule, '%s | polls in a loop (%s)' % (fn.qual, last_seg(c['path'])),
                                   '%s waits in a loop around %s at %s on a path of transaction begin / commit / drop: whatever it polls for, the wait is invisible to the lock order, '
                                   'and it lasts for as long as other transactions keep the polled state as it is (an open writer, overlapping readers)' % (fn.qual, c['path'], fn.loc(bb)),
                                   where=fn.loc(bb)))
    if not any(not r.ok for r in res):
        res.append(ok(rule, 'no polling loop in the %d functions reachable from begin, commit, open and the destructors' % len(reach), sites=len(reach)))
    return res


def run(ctx, tier):
    results = []
    results += writer_excl(ctx)
    results += file_via_guard(ctx)
    results += writer_reads_after_lock(ctx)
    results += publish_before_unlock(ctx)
    results += lock_order(ctx)
    results += no_busy_wait(ctx)
    results += reader_free_of_writer(ctx)
    results += snapshot_source(ctx)
    import c16, c13
    results += c16.grow(ctx, rule='C09.grow')
    import c11
    results += c11.remap_on_success(ctx, rule='C09.remap-on-success')
    # a writer that begins after a growing commit sees that commit: every successful growth replaces the shared map (no `try_write` that gives up while readers are open)
    results += c16.remap_always(ctx, rule='C09.remap-always')
    results += c13.file_lock_clauses(ctx, 'C09')
    # "a writer that begins after another's commit sees that commit" includes its free list: published behind the header on every exit, by the commit itself
    ob = commit.obligations(ctx)
    results += ob['O4'] + ob['O5']
    import c06
    results += c06.shared_freelist(ctx, rule='C09.shared-freelist')
    # no committed update is lost to a second creator: open writes only into a file it has just created exclusively
    results += c06.open_existing(ctx, rule='C09.open-existing')
    # commit consumes the transaction, and with it the writer lock
    import c03
    results += c03.snapshot_fixed(ctx, rule='C09.snapshot-fixed')
    return dict(
        results=results, stats=dict(ctx.stats),
        explanation=(
            'Lockset analysis over the locks of DBInner, for all schedules: (writer-excl) the lock variant that makes a transaction writable carries an exclusive, '
            'blocking guard acquired in the begin function and held on return, and nobody else constructs it; (file-via-guard) every file write/grow/sync of the '
            'commit operates on the File inside that guard; (writer-reads-after-lock) the writer snapshots header and free list only after it owns the lock; '
            '(publish-before-unlock) nothing is written or published after the lock holder is dropped; (lock-order) the lock-order graph closed over the call graph '
            'from all public entry points and Drop impls is acyclic, shared acquisitions counted as conflicting; (reader-free-of-writer) readers never touch the writer '
            'lock; (snapshot-source) the header a transaction starts from is computed from the mapped file only, never from a copy cached in shared state. (reader-free-of-writer, third clause) a transaction the crate begins with writable = true reaches commit; (snapshot-source, second clause) begin stores the header that selection returned. (no-busy-wait) no polling loop on the begin / commit / open / drop paths. NOT decided: progress under OS scheduling, same-thread misuse, starvation.'),
        assumptions=['std::sync::Mutex/RwLock provide mutual exclusion', 'each thread holds at most one transaction (documented contract)'])
