"""Event alphabet (DESIGN.md §2): classifies call sites / stores by resolved callee and receiver type.

 W  file write (sub-class H header image when the written buffer data-depends on the checksum-role, else D)
 G  file grow (fs4 allocate / set_len)          S  sync_all / sync_data
 M  store of a new map into the shared `Arc<Mmap>` slot      MAP creation of a memory map of a file
 P  publish into the shared free list (store / free / alloc / init through the guard of Mutex<Freelist>)
 K  built-in consistency check                  A / F  transaction-level allocate / free
 L  advisory file lock (lock_exclusive ...)     HDR  header read (header-selection role)
 O  observation of the file's state through the handle (metadata / read)
 SH any other shared database state changed (an atomic, or the content of another lock of DBInner)
"""
from facts import callee_of, op_place, op_local, strip_generics, last_seg
from flow import DefUse

FILE_TYS = ('std::fs::File', '&std::fs::File', '&mut std::fs::File')

W_PATHS = {'std::io::Write::write_all', 'std::io::Write::write', 'std::io::Write::write_vectored',
           'std::io::Write::write_all_vectored', 'std::io::Write::write_fmt',
           'std::os::unix::fs::FileExt::write_at', 'std::os::unix::fs::FileExt::write_all_at',
           'std::os::unix::prelude::FileExt::write_at', 'std::os::unix::prelude::FileExt::write_all_at'}
G_PATHS = {'fs4::FileExt::allocate', 'std::fs::File::set_len', 'fs4::fs_std::FileExt::allocate'}
S_PATHS = {'std::fs::File::sync_all', 'std::fs::File::sync_data'}
STD_FILE_LOCKS = {'std::fs::File::lock': 'lock_exclusive', 'std::fs::File::lock_shared': 'lock_shared', 'std::fs::File::try_lock': 'try_lock_exclusive',
                  'std::fs::File::try_lock_shared': 'try_lock_shared', 'std::fs::File::unlock': 'unlock'}
LOCK_PATHS = {'lock_exclusive', 'lock_shared', 'try_lock_exclusive', 'try_lock_shared', 'unlock', 'lock', 'try_lock'}
O_PATHS = {'std::fs::File::metadata', 'std::io::Read::read', 'std::io::Read::read_exact', 'std::io::Read::read_to_end', 'std::io::Read::read_to_string',
           'std::io::Read::read_vectored', 'std::os::unix::fs::FileExt::read_at', 'std::os::unix::fs::FileExt::read_exact_at',
           'std::os::unix::prelude::FileExt::read_at', 'std::os::unix::prelude::FileExt::read_exact_at', 'std::io::Seek::stream_len'}
MAP_PATHS = {'memmap2::MmapOptions::map', 'memmap2::Mmap::map', 'memmap2::MmapOptions::map_mut', 'memmap2::MmapMut::map_mut',
             'memmap2::MmapOptions::map_copy', 'memmap2::MmapOptions::map_copy_read_only', 'memmap2::MmapOptions::map_raw'}


def _self_ty(c):
    return c.get('self_ty') or ''


def is_file_callee(c):
    st = _self_ty(c)
    return st in FILE_TYS


class Events:
    def __init__(self, facts, anchors):
        self.facts = facts
        self.A = anchors
        self._du = {}

    def du(self, fn):
        key = (fn.path, id(fn) if hasattr(fn, 'inlined') else 0)
        if key not in self._du:
            self._du[key] = DefUse(self.facts, fn)
        return self._du[key]

    def _role(self, name):
        return self.A.get(name)

    def _sealers(self):
        """paths of local functions that (transitively) call the checksum role: a buffer they return is a sealed header image"""
        if not hasattr(self, '_sealer_paths'):
            cs = self._role('checksum-role')
            out = set()
            if cs is not None:
                for f in self.facts.fns:
                    if f is not cs and cs in self.facts.reachable_fns([f]):
                        out.add(f.path)
            self._sealer_paths = out
        return self._sealer_paths

    def _through_guard(self, fn, local, inner_ty):
        """is `local` (a reference) derived from DerefMut/Deref on a MutexGuard<inner_ty>?"""
        _, atoms = self.du(fn).slice_local(local)
        for a in atoms:
            if a[0] == 'call' and a[2] in ('std::ops::DerefMut::deref_mut', 'std::ops::Deref::deref'):
                t = fn.term(a[1])
                c = callee_of(t)
                st = _self_ty(c)
                if 'MutexGuard' in st and inner_ty in st:
                    return True
        return False


    KNOWN_SHARED = {'freelist', 'data', 'file', 'open_ro_txs', 'mmap_lock'}

    def _shared_field(self, fn, local):
        """name of the DBInner field whose content `local` (a pointer) refers to: directly (atomics, &self.field) or through the guard of a lock stored in that
        field; None when it does not refer to shared database state"""
        from flow import Prov
        if not hasattr(self, '_prov'):
            self._prov = {}
        pkey = (fn.path, id(fn) if hasattr(fn, 'inlined') else 0)
        if pkey not in self._prov:
            self._prov[pkey] = Prov(fn)
        pv = self._prov[pkey]
        out = set()
        for (adt, name) in pv.prov[local]:
            if adt and last_seg(adt) == 'DBInner':
                out.add(name)
        if not out:
            _, atoms = self.du(fn).slice_local(local)
            for a in atoms:
                if a[0] == 'call' and last_seg(strip_generics(a[2])) in ('lock', 'write', 'try_lock', 'try_write', 'get_mut', 'borrow_mut'):
                    t = fn.term(a[1])
                    if t['args']:
                        l0 = op_local(t['args'][0])
                        if l0 is not None:
                            for (adt, name) in pv.prov[l0]:
                                if adt and last_seg(adt) == 'DBInner':
                                    out.add(name)
        out -= self.KNOWN_SHARED
        return sorted(out)[0] if out else None

    # ---- terminator events
    def classify(self, fn, bb, t, c, target):
        evs = []
        if t['k'] == 'drop':
            ty = t.get('ty', '')
            if not ty.startswith('&') and ('MutexGuard<\'_, std::fs::File>' in ty or 'tx::TxLock<' in ty or ty.startswith('tx::TxInner<') or ty.startswith('tx::Tx<')
                                           or 'RefCell<tx::TxInner<' in ty):
                evs.append(dict(ev='U', ty=ty, callee='drop(' + ty + ')'))
            return evs
        if c is None:
            return evs
        path = c['path']
        rpath = (c.get('resolved') or {}).get('path', path)
        sp = strip_generics(path)
        st0 = _self_ty(c)
        if (path in W_PATHS or rpath in W_PATHS) and ('BufWriter<' in st0 or 'LineWriter<' in st0) and 'std::fs::File' in st0:
            evs.append(dict(ev='W', sub='D', fallible=True, callee=sp, buffered=True))
        if (path in W_PATHS or rpath in W_PATHS) and is_file_callee(c):
            sub = 'D'
            cs = self._role('checksum-role')
            if cs is not None and len(t['args']) > 1:
                _, atoms = self.du(fn).slice_operand(t['args'][1])
                if any(a[0] == 'call' and (a[2] == cs.path or a[2] in self._sealers()) for a in atoms):
                    sub = 'H'
            evs.append(dict(ev='W', sub=sub, fallible=True, callee=sp))
        if path in G_PATHS and is_file_callee(c):
            evs.append(dict(ev='G', fallible=True, callee=sp))
        if path in S_PATHS:
            evs.append(dict(ev='S', fallible=True, callee=sp))
        if (path in O_PATHS or rpath in O_PATHS) and is_file_callee(c):
            evs.append(dict(ev='O', fallible=True, callee=sp))
        if c.get('trait', '').endswith('FileExt') and last_seg(sp) in LOCK_PATHS and 'fs4' in path:
            evs.append(dict(ev='L', fallible=True, callee=sp, method=last_seg(sp)))
        # the same advisory lock through the standard library (File::lock is flock(LOCK_EX) on unix)
        if sp in STD_FILE_LOCKS and is_file_callee(c):
            evs.append(dict(ev='L', fallible=True, callee=sp, method=STD_FILE_LOCKS[sp]))
        if sp in MAP_PATHS or (sp.startswith('memmap2::') and last_seg(sp).startswith('map')):
            evs.append(dict(ev='MAP', fallible=True, callee=sp))
        for role, ev in (('check-role', 'K'), ('tx-alloc-role', 'A'), ('tx-free-role', 'F'), ('DBInner::meta', 'HDR')):
            r = self._role(role)
            if r is not None and (path == r.path or rpath == r.path):
                evs.append(dict(ev=ev, fallible=(ev in ('K', 'A', 'HDR')), callee=r.qual))
            elif r is not None and ev == 'HDR' and any(path == h.path or rpath == h.path for h in getattr(self.A, 'hdr_helpers', ()) if fn is not r):
                evs.append(dict(ev=ev, fallible=False, callee=r.qual))
        # P through a call: free / alloc / init role of Freelist on the shared (guarded) free list
        for role in ('free-role', 'alloc-role', 'init-role'):
            r = self._role(role)
            if r is not None and (path == r.path or rpath == r.path) and t['args']:
                l = op_local(t['args'][0])
                if l is not None and self._through_guard(fn, l, 'freelist::Freelist'):
                    evs.append(dict(ev='P', how=role, callee=r.qual))
        # P through std::mem::{replace, take, swap} on the guarded shared free list (whole-value store)
        if sp in ('std::mem::replace', 'std::mem::take', 'std::mem::swap', 'core::mem::replace', 'core::mem::take', 'core::mem::swap'):
            for a in t['args'][:2]:
                l = op_local(a)
                if l is not None and fn.locals[l]['ty'] == '&mut freelist::Freelist' and self._through_guard(fn, l, 'freelist::Freelist'):
                    evs.append(dict(ev='P', how=last_seg(sp), callee=sp))
        # SH: any other shared (DBInner) state changed: atomics, or a mutable borrow of what another DBInner lock protects handed to a call
        if t['args'] and not c.get('local'):
            l = op_local(t['args'][0])
            if l is not None:
                ty = fn.locals[l]['ty']
                nm = last_seg(sp)
                atomic = 'std::sync::atomic::Atomic' in (st0 or ty) and nm in ('store', 'swap', 'compare_exchange', 'compare_exchange_weak', 'fetch_add', 'fetch_sub', 'fetch_max',
                                                                                 'fetch_min', 'fetch_or', 'fetch_and', 'fetch_xor', 'fetch_update', 'fetch_nand')
                mutref = ty.startswith('&mut') and nm not in ('deref_mut', 'deref', 'borrow_mut', 'as_mut', 'lock', 'unwrap', 'branch', 'drop', 'drop_in_place')
                if atomic or mutref:
                    fld = self._shared_field(fn, l)
                    if fld is not None:
                        evs.append(dict(ev='SH', field=fld, callee=sp, how=nm))
        rr = self._role('release-role')
        if rr is not None and (path == rr.path or rpath == rr.path) and t['args']:
            l = op_local(t['args'][0])
            shared = l is not None and self._through_guard(fn, l, 'freelist::Freelist')
            # pointer provenance (a clone cuts the chain): does the receiver point INTO the guarded shared list?
            shared_ptr = False
            if l is not None:
                from flow import Prov
                pkey = (fn.path, id(fn) if hasattr(fn, 'inlined') else 0)
                if not hasattr(self, '_prov'):
                    self._prov = {}
                if pkey not in self._prov:
                    self._prov[pkey] = Prov(fn)
                pv = self._prov[pkey]
                shared_ptr = any(adt and last_seg(adt) == 'DBInner' and nme == 'freelist' for adt, nme in pv.prov[l])
            evs.append(dict(ev='R', shared=shared, shared_ptr=shared_ptr, callee=rr.qual))
        return evs

    # ---- statement events (stores through guards)
    def classify_stmt(self, fn, bb, si, s):
        evs = []
        if s['k'] != 'assign':
            return evs
        p = s['p']
        if len(p['pr']) == 1 and p['pr'][0]['k'] == 'deref':
            ty = fn.locals[p['l']]['ty']
            if ty == '&mut std::sync::Arc<memmap2::Mmap>':
                evs.append(dict(ev='M', loc='%s:%d' % (s['span']['file'], s['span']['line'])))
            if ty == '&mut freelist::Freelist' and self._through_guard(fn, p['l'], 'freelist::Freelist'):
                evs.append(dict(ev='P', how='store', loc='%s:%d' % (s['span']['file'], s['span']['line'])))
            elif ty.startswith('&mut') and ty != '&mut std::sync::Arc<memmap2::Mmap>':
                fld = self._shared_field(fn, p['l'])
                if fld is not None:
                    evs.append(dict(ev='SH', field=fld, how='store', callee='store', loc='%s:%d' % (s['span']['file'], s['span']['line'])))
        return evs
