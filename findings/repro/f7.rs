use jammdb::*;
fn main() {
    let p = std::env::temp_dir().join("f7.db"); let _ = std::fs::remove_file(&p);
    let db = DB::open(&p).unwrap();
    let tx = db.tx(true).unwrap();
    let b = tx.create_bucket("e").unwrap();
    let mut c = b.cursor();
    println!("first {:?}", c.next().is_none());
    println!("second {:?}", c.next().is_none());
}
