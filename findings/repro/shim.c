#define _GNU_SOURCE
#include <dlfcn.h>
#include <errno.h>
#include <stdlib.h>
static int count = 0;
int fsync(int fd) {
    static int (*real)(int) = 0; if (!real) real = dlsym(RTLD_NEXT, "fsync");
    const char *n = getenv("FAIL_FSYNC_N");
    count++;
    if (n && atoi(n) == count) { errno = EIO; return -1; }
    return real(fd);
}
