use jammdb::*;
use std::io::{Seek, SeekFrom, Write, Read};
fn main() {
    let p = std::env::temp_dir().join("f4.db"); let _ = std::fs::remove_file(&p);
    {
        let db = DB::open(&p).unwrap();
        for i in 0..3u8 { let tx = db.tx(true).unwrap(); let b = tx.get_or_create_bucket("e").unwrap(); b.put([i], [i]).unwrap(); tx.commit().unwrap(); }
    }
    let ps = page_size();
    let which: u64 = std::env::args().nth(1).unwrap().parse().unwrap();
    let mut f = std::fs::OpenOptions::new().read(true).write(true).open(&p).unwrap();
    f.seek(SeekFrom::Start(which*ps + 8)).unwrap();
    let mut b=[0u8;1]; f.read_exact(&mut b).unwrap();
    f.seek(SeekFrom::Start(which*ps + 8)).unwrap();
    f.write_all(&[b[0]^0xff]).unwrap(); drop(f);
    let db = DB::open(&p).unwrap();
    let tx = db.tx(false).unwrap();
    let n = tx.get_bucket("e").unwrap().cursor().count();
    println!("opened, {} keys", n);
}
fn page_size() -> u64 { 4096 }
