use jammdb::{OpenOptions, DB};
use std::collections::BTreeMap;

// tiny deterministic rng
struct R(u64);
impl R { fn n(&mut self, m: u64) -> u64 { self.0 ^= self.0 << 13; self.0 ^= self.0 >> 7; self.0 ^= self.0 << 17; self.0 % m } }

fn key(i: u64) -> Vec<u8> { format!("k{:05}", i).into_bytes() }

#[derive(Default, Clone, Debug, PartialEq)]
struct M { kv: BTreeMap<Vec<u8>, Vec<u8>>, sub: BTreeMap<Vec<u8>, M> }

fn read<'b, 'tx>(b: &jammdb::Bucket<'b, 'tx>, depth: u32) -> M {
    let mut m = M::default();
    let mut last: Option<Vec<u8>> = None;
    for d in b.cursor() {
        let k = match &d { jammdb::Data::KeyValue(kv) => kv.key().to_vec(), jammdb::Data::Bucket(n) => n.name().to_vec() };
        if let Some(l) = &last { assert!(l < &k, "keys not strictly ascending"); }
        last = Some(k);
        match d {
            jammdb::Data::KeyValue(kv) => { m.kv.insert(kv.key().to_vec(), kv.value().to_vec()); }
            jammdb::Data::Bucket(n) => { let name = n.name().to_vec(); let sb = b.get_bucket(name.clone()).unwrap(); m.sub.insert(name, read(&sb, depth + 1)); }
        }
    }
    m
}

fn check(db: &DB, model: &BTreeMap<Vec<u8>, M>, what: &str) {
    let tx = db.tx(false).unwrap();
    let mut got = BTreeMap::new();
    for (n, b) in tx.buckets() { got.insert(n.name().to_vec(), read(&b, 0)); }
    assert!(&got == model, "mismatch {}", what);
    db.check().unwrap();
}

fn history(seed: u64, pagesize: u64) {
    let path = format!("/var/tmp/f14wt/target/model_{}_{}.db", seed, pagesize);
    let _ = std::fs::remove_file(&path);
    let mut db = OpenOptions::new().pagesize(pagesize).strict_mode(true).open(&path).unwrap();
    let mut r = R(seed * 2654435761 + 12345);
    let mut model: BTreeMap<Vec<u8>, M> = BTreeMap::new();
    for step in 0..14 {
        {
            let tx = db.tx(true).unwrap();
            let mut m2 = model.clone();
            let nops = 1 + r.n(4); if std::env::var("MODEL_SEED").is_ok() { println!("-- step {} nops {}", step, nops); }
            for _ in 0..nops {
                let bn = format!("b{}", r.n(3)).into_bytes(); let log = std::env::var("MODEL_SEED").is_ok();
                let b = tx.get_or_create_bucket(bn.clone()).unwrap();
                let mb = m2.entry(bn.clone()).or_default();
                match r.n(9) {
                    0 | 1 => { // bulk insert range
                        let s = r.n(600); let l = 1 + r.n(300); if log { println!("{} insert {}..{}", String::from_utf8_lossy(&bn), s, s+l); }
                        let vlen = [0usize, 10, 40, 200, 1500][r.n(5) as usize];
                        for i in s..s + l { b.put(key(i), vec![b'a' + (step as u8 % 20); vlen]).unwrap(); mb.kv.insert(key(i), vec![b'a' + (step as u8 % 20); vlen]); }
                    }
                    2 | 3 | 4 => { // delete contiguous range of existing keys
                        let s = r.n(600); let l = 1 + r.n(400); if log { println!("{} delete {}..{}", String::from_utf8_lossy(&bn), s, s+l); }
                        for i in s..s + l { if mb.kv.remove(&key(i)).is_some() { b.delete(key(i)).unwrap(); } }
                    }
                    5 => { // nested buckets: create a run with some content
                        let s = r.n(700); let l = 1 + r.n(400); if log { println!("{} mkbuckets {}..{}", String::from_utf8_lossy(&bn), s, s+l); }
                        for i in s..s + l {
                            let n = format!("n{:04}-{}", i, "x".repeat(30)).into_bytes();
                            let sb = b.get_or_create_bucket(n.clone()).unwrap();
                            let ms = mb.sub.entry(n).or_default();
                            for j in 0..r.n(2) { sb.put(key(j), b"x".to_vec()).unwrap(); ms.kv.insert(key(j), b"x".to_vec()); }
                        }
                    }
                    7 | 8 => { // touch a few existing nested buckets (their entry in the parent is rewritten at commit)
                        let names: Vec<Vec<u8>> = mb.sub.keys().cloned().collect();
                        if !names.is_empty() {
                            for _ in 0..1 + r.n(5) {
                                let n = names[r.n(names.len() as u64) as usize].clone(); if log { println!("{} touch {}", String::from_utf8_lossy(&bn), String::from_utf8_lossy(&n[..5])); }
                                let sb = b.get_bucket(n.clone()).unwrap();
                                let k = key(r.n(50));
                                sb.put(k.clone(), b"t".to_vec()).unwrap();
                                mb.sub.get_mut(&n).unwrap().kv.insert(k, b"t".to_vec());
                            }
                        }
                    }
                    _ => { // delete a run of nested buckets
                        let s = r.n(700); let l = 1 + r.n(300); if log { println!("{} rmbuckets {}..{}", String::from_utf8_lossy(&bn), s, s+l); }
                        for i in s..s + l {
                            let n = format!("n{:04}-{}", i, "x".repeat(30)).into_bytes();
                            if mb.sub.remove(&n).is_some() { b.delete_bucket(n).unwrap(); }
                        }
                    }
                }
            }
            let log = std::env::var("MODEL_SEED").is_ok(); if r.n(6) == 0 { if log { println!("rollback"); } drop(tx); } else { if log { println!("commit"); } tx.commit().unwrap(); model = m2; }
        }
        check(&db, &model, &format!("seed {} step {}", seed, step));
        if r.n(4) == 0 { drop(db); db = OpenOptions::new().pagesize(pagesize).strict_mode(true).open(&path).unwrap(); check(&db, &model, "reopen"); }
    }
    let _ = std::fs::remove_file(&path);
}

#[test]
fn model() {
    let n: u64 = std::env::var("MODEL_N").ok().and_then(|s| s.parse().ok()).unwrap_or(200);
    let mut bad = 0;
    let only: Option<u64> = std::env::var("MODEL_SEED").ok().and_then(|s| s.parse().ok());
    for seed in 1..=n {
        if let Some(o) = only { if o != seed { continue; } }
        for ps in [1024u64, 4096] {
            if std::panic::catch_unwind(|| history(seed, ps)).is_err() { bad += 1; println!("FAILED seed {} ps {}", seed, ps); }
        }
    }
    println!("bad histories: {}", bad);
    assert_eq!(bad, 0);
}
