// F12: after deleting every key of a non-last leaf inside a write transaction, a cursor scan stops at the emptied leaf
use jammdb::OpenOptions;
fn main() {
    let p = "/var/tmp/f12/t.db"; let _ = std::fs::remove_file(p);
    let db = OpenOptions::new().pagesize(1024).open(p).unwrap();
    {
        let tx = db.tx(true).unwrap();
        let b = tx.create_bucket("b").unwrap();
        for i in 0..200u32 { b.put(format!("k{:04}", i), vec![7u8; 40]).unwrap(); }
        tx.commit().unwrap();
    }
    let tx = db.tx(true).unwrap();
    let b = tx.get_bucket("b").unwrap();
    // find the keys of the first leaf: delete keys from the front until the scan misbehaves
    let mut bad = None;
    for i in 0..100u32 {
        b.delete(format!("k{:04}", i)).unwrap();
        let n = b.cursor().count();
        let expect = (200 - i - 1) as usize;
        if n != expect { bad = Some((i, n, expect)); break; }
    }
    match bad {
        Some((i, n, e)) => { println!("after deleting k0000..=k{:04}: scan yields {} entries, expected {}", i, n, e); std::process::exit(1) }
        None => println!("scan complete after every delete"),
    }
    // ranges and seeks too
    let r = b.range("k0000".as_bytes().."k0150".as_bytes()).count();
    println!("range count {}", r);
}
