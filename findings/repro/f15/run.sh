#!/bin/sh
# usage: run.sh <worktree of jammdb>   -- exits non-zero iff the defect shows
set -e
WT=$1
HERE=$(cd "$(dirname "$0")" && pwd)
cc -shared -fPIC -O1 -o "$WT/target/f15_mmapfail.so" "$HERE/mmapfail.c" -ldl 2>/dev/null || { mkdir -p "$WT/target"; cc -shared -fPIC -O1 -o "$WT/target/f15_mmapfail.so" "$HERE/mmapfail.c" -ldl; }
cp "$HERE/f15.rs" "$WT/tests/f15_repro.rs"
cd "$WT"
cargo test --offline --test f15_repro --no-run >/dev/null 2>&1
BIN=$(ls -t target/debug/deps/f15_repro-* | grep -v '\.d$' | head -1)
FLAG="$WT/target/f15.flag"; rm -f "$FLAG"
set +e
F15_FLAG="$FLAG" LD_PRELOAD="$WT/target/f15_mmapfail.so" timeout 300 "$BIN" --test-threads=1
RC=$?
rm -f "$WT/tests/f15_repro.rs" "$FLAG"
exit $RC
