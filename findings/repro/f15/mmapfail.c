// LD_PRELOAD shim for the F15 reproduction: while the file named by $F15_FLAG exists, a file-backed mmap() fails once with ENOMEM.
#define _GNU_SOURCE
#include <dlfcn.h>
#include <errno.h>
#include <stdlib.h>
#include <sys/mman.h>
#include <sys/types.h>
#include <unistd.h>
typedef void *(*mmap_t)(void *, size_t, int, int, int, off_t);
static void *fail_once(mmap_t real, void *a, size_t l, int p, int f, int fd, off_t o) {
    const char *flag = getenv("F15_FLAG");
    if (fd >= 0 && flag && access(flag, F_OK) == 0) {
        unlink(flag);
        errno = ENOMEM;
        return MAP_FAILED;
    }
    return real(a, l, p, f, fd, o);
}
void *mmap(void *a, size_t l, int p, int f, int fd, off_t o) { return fail_once((mmap_t)dlsym(RTLD_NEXT, "mmap"), a, l, p, f, fd, o); }
void *mmap64(void *a, size_t l, int p, int f, int fd, off_t o) { return fail_once((mmap_t)dlsym(RTLD_NEXT, "mmap64"), a, l, p, f, fd, o); }
