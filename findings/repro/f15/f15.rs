// F15: a commit whose remap fails after the file has been extended leaves the handle with a map shorter than the file; the next growing commit
// decides from the FILE length that nothing is to do and then reads / publishes pages beyond the map (index out of bounds panic).
use jammdb::{Error, OpenOptions};
use std::panic::{catch_unwind, AssertUnwindSafe};

#[test]
fn failed_remap_then_commit() {
    let flag = std::env::var("F15_FLAG").expect("run through run.sh");
    let path = std::env::temp_dir().join(format!("f15_{}.db", std::process::id()));
    let _ = std::fs::remove_file(&path);
    let db = OpenOptions::new().pagesize(4096).num_pages(4).strict_mode(false).open(&path).unwrap();
    {
        let tx = db.tx(true).unwrap();
        tx.create_bucket("b").unwrap().put("small", "v").unwrap();
        tx.commit().unwrap();
    }
    // a commit that has to extend the file; the remap after the extension fails
    std::fs::write(&flag, b"x").unwrap();
    let big = vec![7u8; 9 * 1024 * 1024];   // more than one growth step (8 MiB)
    let r = {
        let tx = db.tx(true).unwrap();
        tx.get_bucket("b").unwrap().put("big", big.clone()).unwrap();
        tx.commit()
    };
    assert!(!std::path::Path::new(&flag).exists(), "the shim did not fire");
    assert!(matches!(r, Err(Error::Io(_))), "the commit should report the failed remap, got {:?}", r);
    // the handle must keep working: the same commit again, and a read of what it stored
    let outcome = catch_unwind(AssertUnwindSafe(|| {
        let tx = db.tx(true).unwrap();
        tx.get_bucket("b").unwrap().put("big", big.clone()).unwrap();
        tx.commit().unwrap();
        let tx = db.tx(false).unwrap();
        let b = tx.get_bucket("b").unwrap();
        assert_eq!(b.get_kv("big").unwrap().value(), &big[..]);
        assert_eq!(b.get_kv("small").unwrap().value(), b"v");
        drop(b);
        drop(tx);
        db.check().unwrap();
    }));
    let _ = std::fs::remove_file(&path);
    assert!(outcome.is_ok(), "after a failed remap the next commit / read on the same handle panicked");
}
