use jammdb::*;
fn main() {
    let p = std::env::temp_dir().join("f3.db"); let _ = std::fs::remove_file(&p);
    let db = OpenOptions::new().pagesize(1024).num_pages(64).open(&p).unwrap();
    let fill = |db: &DB, byte: u8| { let tx = db.tx(true).unwrap(); let b = tx.get_or_create_bucket("b").unwrap();
        for i in 0..40u32 { b.put(i.to_be_bytes(), vec![byte; 100]).unwrap(); } tx.commit().unwrap(); };
    fill(&db, 1); fill(&db, 2); // snapshot N has all values = 2
    let db2 = db.clone();
    let h = std::thread::spawn(move || {
        std::env::set_var("F3_SLEEP", "1");
        let tx = db2.tx(false).unwrap(); // reads header N, sleeps, then registers
        std::thread::sleep(std::time::Duration::from_millis(300));
        let b = tx.get_bucket("b").unwrap();
        let mut bad = 0; let mut n = 0;
        for d in b.cursor() { if let Data::KeyValue(kv) = d { n += 1; if kv.value().iter().any(|x| *x != 2) { bad += 1; } } }
        println!("reader of snapshot 2 saw {} keys, {} with foreign bytes", n, bad);
    });
    std::thread::sleep(std::time::Duration::from_millis(200));
    fill(&db, 3); fill(&db, 4); fill(&db, 5);
    h.join().unwrap();
}
