use jammdb::*;
fn main() {
    let p = std::env::temp_dir().join("f6.db"); let _ = std::fs::remove_file(&p);
    let db = OpenOptions::new().num_pages(4).open(&p).unwrap();
    { let tx = db.tx(true).unwrap(); let b = tx.create_bucket("outer").unwrap(); b.create_bucket("inner-bucket-name").unwrap(); tx.commit().unwrap(); }
    let escaped = {
        let tx = db.tx(false).unwrap();
        let b = tx.get_bucket("outer").unwrap();
        let (name, _) = b.buckets().next().unwrap();
        name.to_bytes()
    };
    // grow the file so the map is replaced and the old one unmapped
    { let tx = db.tx(true).unwrap(); let b = tx.get_bucket("outer").unwrap(); b.put("big", vec![7u8; 20*1024*1024]).unwrap(); tx.commit().unwrap(); }
    let s: &[u8] = escaped.as_ref();
    println!("{:?}", String::from_utf8_lossy(s));
}
