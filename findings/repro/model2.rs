use jammdb::{OpenOptions, DB, Data, Bucket};
use std::collections::BTreeMap;

struct R(u64);
impl R { fn n(&mut self, m: u64) -> u64 { self.0 ^= self.0 << 13; self.0 ^= self.0 >> 7; self.0 ^= self.0 << 17; self.0 % m } }

// keys of very different lengths, including the empty key and keys longer than a page
fn key(r: &mut R, universe: u64) -> Vec<u8> {
    let i = r.n(universe);
    match i % 7 {
        0 if i == 0 => vec![],
        1 => format!("{:03}", i).into_bytes(),
        2 => { let mut v = format!("L{:04}-", i).into_bytes(); v.extend(std::iter::repeat(b'x').take(300 + (i as usize % 5) * 400)); v }
        3 => vec![(i % 256) as u8, 0, 255, (i / 256) as u8],
        _ => format!("k{:05}", i).into_bytes(),
    }
}

#[derive(Default, Clone, Debug, PartialEq)]
struct M { kv: BTreeMap<Vec<u8>, Vec<u8>>, sub: BTreeMap<Vec<u8>, M>, next_int: u64 }

fn read<'b, 'tx>(b: &Bucket<'b, 'tx>) -> M {
    let mut m = M::default();
    m.next_int = b.next_int();
    let mut last: Option<Vec<u8>> = None;
    for d in b.cursor() {
        let k = d.key().to_vec();
        if let Some(l) = &last { assert!(l < &k, "keys not strictly ascending"); }
        last = Some(k.clone());
        match d {
            Data::KeyValue(kv) => { m.kv.insert(k, kv.value().to_vec()); }
            Data::Bucket(_) => { let sb = b.get_bucket(k.clone()).unwrap(); m.sub.insert(k, read(&sb)); }
        }
    }
    m
}

fn check(db: &DB, model: &M, what: &str) {
    let tx = db.tx(false).unwrap();
    let mut got = M::default();
    for (n, b) in tx.buckets() { got.sub.insert(n.name().to_vec(), read(&b)); }
    // the root's counter is not observable; compare children only
    assert!(got.sub == model.sub, "mismatch {}", what);
    db.check().unwrap();
}

// apply `nops` random operations to bucket b / model m, possibly descending
fn ops<'b, 'tx>(r: &mut R, b: &Bucket<'b, 'tx>, m: &mut M, depth: u32, universe: u64) {
    let nops = 1 + r.n(30);
    for _ in 0..nops {
        let k = key(r, universe);
        match r.n(10) {
            0 | 1 | 2 | 3 => {
                if m.sub.contains_key(&k) { assert!(b.put(k.clone(), "x").is_err()); continue; }
                let vlen = [0usize, 1, 40, 200, 900, 5000][r.n(6) as usize];
                let v = vec![b'a' + (r.n(26) as u8); vlen];
                let old = b.put(k.clone(), v.clone()).unwrap();
                let mold = m.kv.insert(k, v);
                if mold.is_none() { m.next_int += 1; }
                assert_eq!(old.map(|kv| kv.value().to_vec()), mold);
            }
            4 | 5 => {
                let r1 = b.delete(k.clone());
                match m.kv.remove(&k) { Some(v) => assert_eq!(r1.unwrap().value(), &v[..]), None => assert!(r1.is_err()) }
            }
            6 => {
                // delete a whole run of adjacent keys (empties leaves)
                let keys: Vec<Vec<u8>> = m.kv.range(k.clone()..).take(1 + r.n(60) as usize).map(|(k, _)| k.clone()).collect();
                for k2 in keys { b.delete(k2.clone()).unwrap(); m.kv.remove(&k2); }
            }
            7 | 8 => {
                if m.kv.contains_key(&k) { assert!(b.get_or_create_bucket(k.clone()).is_err()); continue; }
                let existed = m.sub.contains_key(&k);
                let sb = b.get_or_create_bucket(k.clone()).unwrap();
                if !existed { m.next_int += 1; }
                let ms = m.sub.entry(k).or_default();
                if depth < 2 && r.n(2) == 0 { ops(r, &sb, ms, depth + 1, universe); }
            }
            _ => {
                let r1 = b.delete_bucket(k.clone());
                match m.sub.remove(&k) { Some(_) => r1.unwrap(), None => assert!(r1.is_err()) }
            }
        }
    }
}

fn history(seed: u64, pagesize: u64) {
    let path = format!("/var/tmp/modelwt/target/m2_{}_{}.db", seed, pagesize);
    let _ = std::fs::remove_file(&path);
    let mut db = OpenOptions::new().pagesize(pagesize).num_pages(4).strict_mode(true).open(&path).unwrap();
    let mut r = R(seed * 2654435761 + 99);
    let universe = [40u64, 400, 3000][(seed % 3) as usize];
    let mut model = M::default();
    for step in 0..12 {
        {
            let tx = db.tx(true).unwrap();
            let mut m2 = model.clone();
            for _ in 0..1 + r.n(3) {
                let bn = format!("b{}", r.n(3)).into_bytes();
                let b = tx.get_or_create_bucket(bn.clone()).unwrap();
                let mb = m2.sub.entry(bn).or_default();
                ops(&mut r, &b, mb, 0, universe);
            }
            if r.n(6) == 0 { drop(tx); } else { tx.commit().unwrap(); model = m2; }
        }
        check(&db, &model, &format!("seed {} ps {} step {}", seed, pagesize, step));
        if r.n(4) == 0 { drop(db); db = OpenOptions::new().pagesize(pagesize).strict_mode(true).open(&path).unwrap(); check(&db, &model, "reopen"); }
    }
    drop(db);
    let _ = std::fs::remove_file(&path);
}

#[test]
fn model2() {
    let n: u64 = std::env::var("MODEL_N").ok().and_then(|s| s.parse().ok()).unwrap_or(100);
    let only: Option<u64> = std::env::var("MODEL_SEED").ok().and_then(|s| s.parse().ok());
    let mut bad = 0;
    for seed in 1..=n {
        if let Some(o) = only { if o != seed { continue; } }
        for ps in [1024u64, 3000, 4096] {
            if std::panic::catch_unwind(|| history(seed, ps)).is_err() { bad += 1; println!("FAILED seed {} ps {}", seed, ps); }
        }
    }
    println!("bad histories: {}", bad);
    assert_eq!(bad, 0);
}
