use jammdb::*;
use std::collections::BTreeMap;
fn main() {
    let p = std::env::temp_dir().join("f2.db"); let _ = std::fs::remove_file(&p);
    let db = OpenOptions::new().pagesize(1024).num_pages(64).open(&p).unwrap(); // fsync #1
    let mut model: BTreeMap<Vec<u8>, Vec<u8>> = BTreeMap::new();
    let mut round = 0u8;
    let mut step = |db: &DB, model: &mut BTreeMap<Vec<u8>, Vec<u8>>| -> Result<(), Error> {
        round += 1;
        let tx = db.tx(true)?; let b = tx.get_or_create_bucket("b")?;
        let mut m2 = model.clone();
        for i in 0..30u32 { let k = ((i * 7 + round as u32) % 40).to_be_bytes().to_vec(); let v = vec![round; 90];
            b.put(k.clone(), v.clone())?; m2.insert(k, v); }
        let r = tx.commit();
        if r.is_ok() { *model = m2.clone(); }
        // after an error either state is acceptable: adopt what the handle shows
        if r.is_err() {
            let tx = db.tx(false)?; let b = tx.get_bucket("b")?;
            let seen: BTreeMap<Vec<u8>, Vec<u8>> = b.kv_pairs().map(|kv| (kv.key().to_vec(), kv.value().to_vec())).collect();
            println!("commit {} failed: {:?}; handle shows {}", round, r, if seen == m2 {"NEW state"} else if seen == *model {"OLD state"} else {"neither"});
            *model = seen;
        }
        Ok(())
    };
    for i in 0..12 {
        if let Err(e) = step(&db, &mut model) { println!("step {i}: error {e}"); }
        let chk = db.check();
        let tx = db.tx(false).unwrap();
        let seen: BTreeMap<Vec<u8>, Vec<u8>> = match tx.get_bucket("b") { Ok(b) => b.kv_pairs().map(|kv| (kv.key().to_vec(), kv.value().to_vec())).collect(), Err(_) => BTreeMap::new() };
        if chk.is_err() || seen != model { println!("after step {i}: check={:?} contents_match_model={}", chk.err(), seen == model); break; }
        if i == 11 { println!("12 steps fine"); }
    }
}
