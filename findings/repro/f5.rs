use jammdb::*;
fn main() {
    let who = std::env::args().nth(1).unwrap();
    let p = std::env::temp_dir().join("f5.db");
    let r = std::panic::catch_unwind(|| {
        let db = DB::open(&p).map_err(|e| format!("{e}"))?;
        let tx = db.tx(true).map_err(|e| format!("{e}"))?;
        tx.get_or_create_bucket(who.clone()).map_err(|e| format!("{e}"))?;
        tx.commit().map_err(|e| format!("{e}"))?;
        Ok::<(), String>(())
    });
    println!("{who}: {:?}", r.map_err(|_| "PANIC"));
}
