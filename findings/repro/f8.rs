use jammdb::*;
use std::ops::Bound;
fn main() {
    let p = std::env::temp_dir().join("f8.db"); let _ = std::fs::remove_file(&p);
    let db = DB::open(&p).unwrap();
    let tx = db.tx(true).unwrap();
    let b = tx.create_bucket("e").unwrap();
    for k in ["a","b","c"] { b.put(k, "v").unwrap(); }
    let lo: &[u8] = b"a";
    let got: Vec<Vec<u8>> = b.range((Bound::Excluded(lo), Bound::Unbounded)).map(|d| d.key().to_vec()).collect();
    println!("{:?}", got.iter().map(|k| String::from_utf8_lossy(k).to_string()).collect::<Vec<_>>());
}
