use jammdb::OpenOptions;
use std::collections::BTreeMap;
fn main() {
    let mut seed: u64 = 12345;
    let mut rnd = move || { seed ^= seed << 13; seed ^= seed >> 7; seed ^= seed << 17; seed };
    for round in 0..30 {
        let p = "/var/tmp/f12/m.db"; let _ = std::fs::remove_file(p);
        let db = OpenOptions::new().pagesize(1024).open(p).unwrap();
        let mut model: BTreeMap<Vec<u8>, Vec<u8>> = BTreeMap::new();
        let n = 50 + (rnd() % 600) as u32;
        {
            let tx = db.tx(true).unwrap();
            let b = tx.create_bucket("b").unwrap();
            for i in 0..n { let k = format!("k{:05}", i * 3).into_bytes(); b.put(k.clone(), vec![1u8; 30]).unwrap(); model.insert(k, vec![1u8; 30]); }
            tx.commit().unwrap();
        }
        let tx = db.tx(true).unwrap();
        let b = tx.get_bucket("b").unwrap();
        for step in 0..200 {
            let r = rnd();
            if r % 4 != 0 {
                // delete a contiguous run
                let start = (rnd() % (n as u64)) as u32; let len = (rnd() % 40) as u32;
                for i in start..(start + len).min(n) { let k = format!("k{:05}", i * 3).into_bytes(); if model.remove(&k).is_some() { b.delete(k).unwrap(); } }
            } else {
                let i = (rnd() % (n as u64 * 3)) as u32; let k = format!("k{:05}", i).into_bytes(); b.put(k.clone(), vec![2u8; 20]).unwrap(); model.insert(k, vec![2u8; 20]);
            }
            let got: Vec<Vec<u8>> = b.cursor().map(|d| d.kv().key().to_vec()).collect();
            let want: Vec<Vec<u8>> = model.keys().cloned().collect();
            assert_eq!(got, want, "scan differs round {} step {}", round, step);
            let lo = format!("k{:05}", rnd() % (n as u64 * 3)).into_bytes(); let hi = format!("k{:05}", rnd() % (n as u64 * 3)).into_bytes();
            if lo <= hi {
                let got: Vec<Vec<u8>> = b.range(lo.as_slice()..=hi.as_slice()).map(|d| d.kv().key().to_vec()).collect();
                let want: Vec<Vec<u8>> = model.range(lo.clone()..=hi.clone()).map(|(k, _)| k.clone()).collect();
                assert_eq!(got, want, "range differs round {} step {}", round, step);
                use std::ops::Bound::*;
                let got: Vec<Vec<u8>> = b.range((Excluded(lo.as_slice()), Excluded(hi.as_slice()))).map(|d| d.kv().key().to_vec()).collect();
                let want: Vec<Vec<u8>> = if lo == hi { vec![] } else { model.range((Excluded(lo.clone()), Excluded(hi.clone()))).map(|(k, _)| k.clone()).collect() };
                assert_eq!(got, want, "excl range differs round {} step {}", round, step);
            }
        }
        drop(b);
        tx.commit().unwrap();
        let tx = db.tx(false).unwrap();
        let b = tx.get_bucket("b").unwrap();
        let got: Vec<Vec<u8>> = b.cursor().map(|d| d.kv().key().to_vec()).collect();
        let want: Vec<Vec<u8>> = model.keys().cloned().collect();
        assert_eq!(got, want, "after commit round {}", round);
    }
    println!("model agrees");
}
