use jammdb::{OpenOptions, Error};

fn key(i: u32) -> Vec<u8> { format!("k{:06}", i).into_bytes() }

fn run(n: u32, del: std::ops::Range<u32>, name: &str) -> Result<(), Error> {
    let path = format!("/var/tmp/c01wt/target/{}.db", name);
    let _ = std::fs::remove_file(&path);
    let db = OpenOptions::new().pagesize(1024).strict_mode(true).open(&path)?;
    {
        let tx = db.tx(true)?;
        let b = tx.create_bucket("b")?;
        for i in 0..n { b.put(key(i), vec![b'v'; 40])?; }
        tx.commit()?;
    }
    {
        let tx = db.tx(true)?;
        let b = tx.get_bucket("b")?;
        for i in del.clone() { b.delete(key(i))?; }
        tx.commit()?;
    }
    let tx = db.tx(false)?;
    let b = tx.get_bucket("b")?;
    let got: Vec<Vec<u8>> = b.kv_pairs().map(|kv| kv.key().to_vec()).collect();
    let want: Vec<Vec<u8>> = (0..n).filter(|i| !del.contains(i)).map(key).collect();
    assert_eq!(got, want, "{}", name);
    Ok(())
}

#[test]
fn sweep() {
    let mut bad = vec![];
    for n in [20u32, 30, 40, 60, 100, 200, 400] {
        for start in (0..n).step_by(3) {
            for len in [1u32, 5, 8, 10, 12, 15, 17, 20, 25, 34, 50, 100, 200] {
                if start + len > n { continue; }
                let name = format!("n{}_s{}_l{}", n, start, len);
                let r = std::panic::catch_unwind(|| run(n, start..start + len, &name));
                match r {
                    Ok(Ok(())) => {}
                    Ok(Err(e)) => bad.push(format!("{} -> Err({:?})", name, e)),
                    Err(_) => bad.push(format!("{} -> PANIC", name)),
                }
            }
        }
    }
    for b in bad.iter().take(40) { println!("{}", b); }
    println!("bad: {}", bad.len());
    assert!(bad.is_empty());
}
