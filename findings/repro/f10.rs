// Demonstration for seed B (C11): a commit whose META PAGE WRITE is cut short (the first
// `write` call stores only the first N bytes of the page, the retry issued by `write_all`
// fails with EIO) must leave the database in exactly the pre-transaction state (the torn
// meta page does not validate), structurally sound, and able to run further transactions.
//
// N is chosen so that the tear falls INSIDE the Meta struct (bytes 32..104 of the page:
// 32-byte page header, then meta_page/magic/version/pagesize/root/num_pages/freelist_page/
// tx_id and finally the hash at byte 96).  The torn page therefore carries some new fields
// with the old hash and must be rejected.
//
// Fault injection: this test binary defines its own `write` symbol.  Rust's std is linked
// statically into the test executable, so `File::write_all` ends up calling this function
// instead of libc's.  It forwards everything to the real syscall except the write we want
// to tear: the first write to the database file at an offset inside the two meta pages
// after the shim has been armed.
//
// Copy to tests/seed_demo_b.rs and run `cargo test --offline --test seed_demo_b`.

use std::collections::BTreeMap;

use jammdb::{Data, Error, OpenOptions, DB};

mod shim {
    use std::{
        os::raw::{c_int, c_void},
        sync::atomic::{AtomicI64, AtomicU64, AtomicUsize, Ordering::SeqCst},
    };

    /// inode of the database file (0 = shim inactive)
    pub static TARGET_INO: AtomicU64 = AtomicU64::new(0);
    /// writes starting below this offset are meta page writes (2 * pagesize)
    pub static META_LIMIT: AtomicI64 = AtomicI64::new(0);
    /// 0 = disarmed, 1 = tear the next meta page write, 2 = fail its continuation
    pub static STATE: AtomicUsize = AtomicUsize::new(0);
    /// how many bytes of the meta page write get through before the error
    pub static SHORT: AtomicUsize = AtomicUsize::new(0);
    /// number of injected failures
    pub static HITS: AtomicUsize = AtomicUsize::new(0);

    unsafe fn is_target(fd: c_int) -> bool {
        let ino = TARGET_INO.load(SeqCst);
        if ino == 0 {
            return false;
        }
        let mut st: libc::stat = std::mem::zeroed();
        libc::fstat(fd, &mut st) == 0 && st.st_ino as u64 == ino
    }

    #[no_mangle]
    pub unsafe extern "C" fn write(fd: c_int, buf: *const c_void, count: usize) -> isize {
        let state = STATE.load(SeqCst);
        if state != 0 && is_target(fd) {
            let off = libc::lseek(fd, 0, libc::SEEK_CUR);
            if off >= 0 && off < META_LIMIT.load(SeqCst) {
                let short = SHORT.load(SeqCst);
                if state == 1 && short > 0 && short < count {
                    // short write: only the first `short` bytes reach the file
                    STATE.store(2, SeqCst);
                    return libc::syscall(libc::SYS_write, fd, buf, short) as isize;
                }
                STATE.store(0, SeqCst);
                HITS.fetch_add(1, SeqCst);
                *libc::__errno_location() = libc::EIO;
                return -1;
            }
        }
        libc::syscall(libc::SYS_write, fd, buf, count) as isize
    }
}

type Model = BTreeMap<String, BTreeMap<Vec<u8>, Vec<u8>>>;

const PAGESIZE: u64 = 1024;

struct TmpFile(std::path::PathBuf);
impl Drop for TmpFile {
    fn drop(&mut self) {
        let _ = std::fs::remove_file(&self.0);
    }
}

fn key(i: u32) -> Vec<u8> {
    format!("key-{:05}", i).into_bytes()
}

fn val(gen: u32, i: u32) -> Vec<u8> {
    format!("value-{}-{}-", gen, i).repeat(6).into_bytes()
}

/// put `keys` into `bucket` (created on demand) in one transaction; returns commit's result.
/// The model is only updated when the commit succeeds.
fn put_tx(
    db: &DB,
    model: &mut Model,
    bucket: &str,
    keys: std::ops::Range<u32>,
    gen: u32,
) -> Result<(), Error> {
    let tx = db.tx(true)?;
    let mut staged = Vec::new();
    {
        let b = tx.get_or_create_bucket(bucket)?;
        for i in keys {
            b.put(key(i), val(gen, i))?;
            staged.push((key(i), val(gen, i)));
        }
    }
    tx.commit()?;
    let m = model.entry(bucket.to_string()).or_default();
    for (k, v) in staged {
        m.insert(k, v);
    }
    Ok(())
}

/// The database must contain exactly the model.
fn verify(db: &DB, model: &Model, what: &str) {
    let tx = db.tx(false).unwrap();
    let mut names: Vec<String> = tx
        .buckets()
        .map(|(name, _)| String::from_utf8(name.name().to_vec()).unwrap())
        .collect();
    names.sort();
    let expected: Vec<String> = model.keys().cloned().collect();
    assert_eq!(names, expected, "{}: bucket names differ", what);
    for (name, kvs) in model {
        let b = tx
            .get_bucket(name.as_str())
            .unwrap_or_else(|e| panic!("{}: bucket {} unreadable: {:?}", what, name, e));
        let mut got = BTreeMap::new();
        for data in b.cursor() {
            match data {
                Data::KeyValue(kv) => {
                    got.insert(kv.key().to_vec(), kv.value().to_vec());
                }
                Data::Bucket(_) => panic!("{}: unexpected nested bucket in {}", what, name),
            }
        }
        assert!(&got == kvs, "{}: contents of bucket {} differ from the model", what, name);
    }
    drop(tx);
    if let Err(e) = db.check() {
        panic!("{}: structural check failed: {:?}", what, e);
    }
}

fn scenario(short: usize) {
    use std::sync::atomic::Ordering::SeqCst;
    let path = std::env::temp_dir().join(format!(
        "seed_demo_b_{}_{}.db",
        std::process::id(),
        short
    ));
    let _ = std::fs::remove_file(&path);
    let _guard = TmpFile(path.clone());
    let what = |s: &str| format!("[meta write torn after {} bytes] {}", short, s);

    let mut model = Model::new();
    {
        let db = OpenOptions::new().pagesize(PAGESIZE).open(&path).unwrap();
        {
            use std::os::unix::fs::MetadataExt;
            shim::TARGET_INO.store(std::fs::metadata(&path).unwrap().ino(), SeqCst);
            shim::META_LIMIT.store(2 * PAGESIZE as i64, SeqCst);
        }

        // Some committed history.
        put_tx(&db, &mut model, "x", 0..40, 0).unwrap();
        put_tx(&db, &mut model, "y", 0..40, 0).unwrap();
        for gen in 1..4 {
            put_tx(&db, &mut model, "x", 0..10, gen).unwrap();
            put_tx(&db, &mut model, "y", 0..10, gen).unwrap();
        }
        verify(&db, &model, &what("before the fault"));

        // The faulty commit: its meta page write is torn after `short` bytes, then EIO.
        let hits = shim::HITS.load(SeqCst);
        shim::SHORT.store(short, SeqCst);
        shim::STATE.store(1, SeqCst);
        let res = put_tx(&db, &mut model, "x", 5..35, 100);
        assert_eq!(shim::HITS.load(SeqCst), hits + 1, "fault was not injected");
        assert_eq!(shim::STATE.load(SeqCst), 0);
        match res {
            Err(Error::Io(_)) => (),
            other => panic!("commit should have reported the I/O error, got {:?}", other),
        }
        // F10: the short write covered the whole 104-byte header record, so the NEW header validates and is
        // visible through the map: the handle shows exactly the post-state (allowed by C11) ...
        {
            let m = model.entry("x".to_string()).or_default();
            for i in 5..35 { m.insert(key(i), val(100, i)); }
        }
        verify(&db, &model, &what("same handle, right after the failed commit (post-state)"));
        // ... but the shared free list is still the pre-state one, so follow-up commits corrupt the tree.

        // Further transactions on the same handle must commit correctly.
        put_tx(&db, &mut model, "y", 20..30, 200).unwrap();
        verify(&db, &model, &what("same handle, after a follow-up commit to y"));
        put_tx(&db, &mut model, "z", 0..60, 300).unwrap();
        verify(&db, &model, &what("same handle, after a follow-up commit to z"));
    }
    // Reopen.
    {
        let db = OpenOptions::new().pagesize(PAGESIZE).open(&path).unwrap();
        verify(&db, &model, &what("after reopening"));
        put_tx(&db, &mut model, "y", 0..40, 600).unwrap();
        verify(&db, &model, &what("after reopening and one more commit"));
    }
    shim::TARGET_INO.store(0, SeqCst);
}

// One test function so the scenarios (which share the shim's globals) run sequentially.
#[test]
fn torn_meta_write_leaves_pre_state_and_a_usable_db() {
    // tears inside the Meta struct: after meta_page..pagesize (64), after root (72),
    // after tx_id but before the hash (96), and in the middle of a field (85)
    for short in [512] {
        scenario(short);
    }
}
