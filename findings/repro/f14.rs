use jammdb::OpenOptions;

fn name(i: u32) -> Vec<u8> { format!("n{:04}-{}", i, "x".repeat(30)).into_bytes() }

fn scenario(c1: std::ops::Range<u32>, c2: std::ops::Range<u32>, putmod: u32, del: std::ops::Range<u32>, tag: &str) -> Result<(), String> {
    let path = format!("/var/tmp/f14wt/target/min2_{}.db", tag);
    let _ = std::fs::remove_file(&path);
    let db = OpenOptions::new().pagesize(1024).strict_mode(true).open(&path).map_err(|e| format!("{:?}", e))?;
    {
        let tx = db.tx(true).unwrap();
        let p = tx.create_bucket("p").unwrap();
        for i in c1.clone() { let b = p.create_bucket(name(i)).unwrap(); if i % 2 == 0 { b.put("k", "v").unwrap(); } }
        tx.commit().map_err(|e| format!("setup commit {:?}", e))?;
    }
    {
        let tx = db.tx(true).unwrap();
        let p = tx.get_bucket("p").unwrap();
        for i in c2.clone() { let b = p.get_or_create_bucket(name(i)).unwrap(); if putmod > 0 && i % putmod == 0 { b.put("t", "t").unwrap(); } }
        for i in del.clone() { if c1.contains(&i) || c2.contains(&i) { p.delete_bucket(name(i)).unwrap(); } }
        tx.commit().map_err(|e| format!("commit {:?}", e))?;
    }
    db.check().map_err(|e| format!("check {:?}", e))?;
    let tx = db.tx(false).unwrap();
    let p = tx.get_bucket("p").unwrap();
    let got: Vec<Vec<u8>> = p.buckets().map(|(n, _)| n.name().to_vec()).collect();
    let mut want: Vec<Vec<u8>> = (0..2000).filter(|i| (c1.contains(i) || c2.contains(i)) && !del.contains(i)).map(name).collect();
    want.sort();
    if got != want { return Err(format!("listing differs: got {} want {}", got.len(), want.len())); }
    Ok(())
}

#[test]
fn min2() {
    let mut bad = 0;
    for (c1, c2, pm, del) in [
        (114u32..507, 434u32..750, 2u32, 252u32..454),
        (114..507, 434..750, 0, 252..454),
        (114..507, 434..507, 2, 252..454),
        (114..507, 507..750, 0, 252..454),
        (114..507, 0..0, 0, 252..454),
        (114..507, 434..750, 1, 252..454),
        (114..507, 434..750, 2, 0..0),
        (114..507, 434..750, 2, 252..434),
        (114..507, 434..460, 1, 430..454),
        (0..100, 90..120, 1, 80..95),
        (0..100, 90..100, 1, 80..95),
        (0..40, 30..40, 1, 25..35),
        (0..40, 30..50, 1, 25..35),
    ] {
        let tag = format!("{}_{}_{}_{}_{}_{}_{}", c1.start, c1.end, c2.start, c2.end, pm, del.start, del.end);
        let r = std::panic::catch_unwind(|| scenario(c1.clone(), c2.clone(), pm, del.clone(), &tag));
        match r { Ok(Ok(())) => println!("{} ok", tag), Ok(Err(e)) => { bad += 1; println!("{} -> {}", tag, e) }, Err(_) => { bad += 1; println!("{} -> PANIC", tag) } }
    }
    assert_eq!(bad, 0);
}
