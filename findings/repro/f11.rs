use jammdb::{DB, OpenOptions};
fn main() {
    let p = "/var/tmp/dfree/t.db"; let _ = std::fs::remove_file(p);
    let db = OpenOptions::new().strict_mode(false).open(p).unwrap();
    {
        let tx = db.tx(true).unwrap();
        let a = tx.create_bucket("a").unwrap();
        let b = a.create_bucket("b").unwrap();
        for i in 0..2000u32 { b.put(format!("k{:06}", i), vec![7u8; 100]).unwrap(); }
        for i in 0..50u32 { a.put(format!("x{:06}", i), vec![1u8; 50]).unwrap(); }
        tx.commit().unwrap();
    }
    {
        let tx = db.tx(true).unwrap();
        { let a = tx.get_bucket("a").unwrap(); a.delete_bucket("b").unwrap(); }
        tx.delete_bucket("a").unwrap();
        println!("commit: {:?}", tx.commit());
    }
    println!("check: {:?}", db.check());
    for r in 0..3 {
        let tx = db.tx(true).unwrap();
        let c = tx.get_or_create_bucket("c").unwrap();
        for i in 0..500u32 { c.put(format!("r{}k{:06}", r, i), vec![9u8; 100]).unwrap(); }
        println!("commit{}: {:?}", r, tx.commit());
        println!("check{}: {:?}", r, db.check());
    }
    drop(db);
    let db = DB::open(p).unwrap();
    println!("reopen check: {:?}", db.check());
    let tx = db.tx(false).unwrap();
    let c = tx.get_bucket("c").unwrap();
    println!("c entries {}", c.kv_pairs().count());
}
