// F1: crash image that contains only the header write of a commit (admissible under
// "any subset of the writes issued since the last completed sync").
use jammdb::*;
fn dump(p: &std::path::Path) -> Result<Vec<(Vec<u8>, Vec<u8>)>, String> {
    let r = std::panic::catch_unwind(|| {
        let db = DB::open(p).map_err(|e| format!("{e}"))?;
        db.check().map_err(|e| format!("check: {e}"))?;
        let tx = db.tx(false).map_err(|e| format!("{e}"))?;
        let b = tx.get_bucket("b").map_err(|e| format!("{e}"))?;
        Ok(b.kv_pairs().map(|kv| (kv.key().to_vec(), kv.value().to_vec())).collect::<Vec<_>>())
    });
    match r { Ok(x) => x, Err(_) => Err("panic".into()) }
}
fn main() {
    let d = std::env::temp_dir();
    let p = d.join("f1.db"); let _ = std::fs::remove_file(&p);
    let ps = 4096usize;
    {
        let db = DB::open(&p).unwrap();
        for round in 0..3u8 { let tx = db.tx(true).unwrap(); let b = tx.get_or_create_bucket("b").unwrap();
            for i in 0..50u32 { b.put(i.to_be_bytes(), vec![round; 64]).unwrap(); } tx.commit().unwrap(); }
    }
    let pre = std::fs::read(&p).unwrap();
    {
        let db = DB::open(&p).unwrap();
        let tx = db.tx(true).unwrap(); let b = tx.get_bucket("b").unwrap();
        for i in 0..50u32 { b.put(i.to_be_bytes(), vec![9u8; 64]).unwrap(); } tx.commit().unwrap();
    }
    let post = std::fs::read(&p).unwrap();
    let before = dump(&p); // state after
    // image: pre + only the header page that the last commit wrote
    let mut img = pre.clone();
    let slot = (0..2).find(|s| pre[s*ps..(s+1)*ps] != post[s*ps..(s+1)*ps]).unwrap();
    img[slot*ps..(slot+1)*ps].copy_from_slice(&post[slot*ps..(slot+1)*ps]);
    let q = d.join("f1_img.db"); std::fs::write(&q, &img).unwrap();
    let pre_p = d.join("f1_pre.db"); std::fs::write(&pre_p, &pre).unwrap();
    let old = dump(&pre_p); let new = before; let got = dump(&q);
    println!("old ok={} new ok={}", old.is_ok(), new.is_ok());
    match &got { Ok(g) => println!("image opens; equals old: {}, equals new: {}", Some(g)==old.as_ref().ok(), Some(g)==new.as_ref().ok()),
                 Err(e) => println!("image fails: {e}") }
}
