use jammdb::*;
fn main() {
    let p = std::env::temp_dir().join("f9.db"); let _ = std::fs::remove_file(&p);
    let db = OpenOptions::new().pagesize(1028).open(&p).unwrap();
    let tx = db.tx(true).unwrap();
    tx.create_bucket("e").unwrap();
    tx.commit().unwrap();
    println!("ok");
}
