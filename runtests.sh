#!/bin/sh
# runs the pinned baseline suite of /repo (guard off); prints the summary line
cd /repo && cargo nextest run --workspace --no-fail-fast --tool-config-file pb:/w/lib/nextest.toml --profile pb --test-threads 8 --offline 2>&1 | grep -E "Summary|FAIL|error" | head -20
