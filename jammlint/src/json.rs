// Minimal JSON value + writer (no dependencies).
pub enum J {
    Null,
    Bool(bool),
    Int(i128),
    Str(String),
    Arr(Vec<J>),
    Obj(Vec<(&'static str, J)>),
}

impl J {
    pub fn s<T: Into<String>>(t: T) -> J {
        J::Str(t.into())
    }
    pub fn opt_s(t: Option<String>) -> J {
        match t {
            Some(s) => J::Str(s),
            None => J::Null,
        }
    }
    pub fn write(&self, out: &mut String) {
        match self {
            J::Null => out.push_str("null"),
            J::Bool(b) => out.push_str(if *b { "true" } else { "false" }),
            J::Int(i) => out.push_str(&i.to_string()),
            J::Str(s) => write_str(s, out),
            J::Arr(v) => {
                out.push('[');
                for (i, x) in v.iter().enumerate() {
                    if i > 0 {
                        out.push(',');
                    }
                    x.write(out);
                }
                out.push(']');
            }
            J::Obj(v) => {
                out.push('{');
                for (i, (k, x)) in v.iter().enumerate() {
                    if i > 0 {
                        out.push(',');
                    }
                    write_str(k, out);
                    out.push(':');
                    x.write(out);
                }
                out.push('}');
            }
        }
    }
}

fn write_str(s: &str, out: &mut String) {
    out.push('"');
    for c in s.chars() {
        match c {
            '"' => out.push_str("\\\""),
            '\\' => out.push_str("\\\\"),
            '\n' => out.push_str("\\n"),
            '\r' => out.push_str("\\r"),
            '\t' => out.push_str("\\t"),
            c if (c as u32) < 0x20 => out.push_str(&format!("\\u{:04x}", c as u32)),
            c => out.push(c),
        }
    }
    out.push('"');
}
