use crate::json::J;
use rustc_hir::def::DefKind;
use rustc_hir::def_id::{DefId, LocalDefId};
use rustc_middle::mir::{
    self, AggregateKind, BasicBlock, Body, BorrowKind, Operand, Place, ProjectionElem, Rvalue,
    StatementKind, TerminatorKind, UnwindAction,
};
use rustc_middle::ty::print::with_no_trimmed_paths;
use rustc_middle::ty::{self, GenericArgKind, Ty, TyCtxt, TypingEnv};
use rustc_span::Span;

fn tys<'tcx>(ty: Ty<'tcx>) -> String {
    with_no_trimmed_paths!(format!("{}", ty))
}

fn path_of(tcx: TyCtxt<'_>, id: DefId) -> String {
    with_no_trimmed_paths!(tcx.def_path_str(id))
}

fn span_json(tcx: TyCtxt<'_>, span: Span) -> J {
    // location of the user-written construct: for expansions, the outermost call site
    let sm = tcx.sess.source_map();
    let site = span.source_callsite();
    let loc = sm.lookup_char_pos(site.lo());
    let file = match &loc.file.name {
        rustc_span::FileName::Real(r) => match r.local_path() {
            Some(p) => p.to_string_lossy().to_string(),
            None => format!("{:?}", loc.file.name),
        },
        other => format!("{:?}", other),
    };
    let mut v = vec![("file", J::s(file)), ("line", J::Int(loc.line as i128))];
    if span.from_expansion() {
        // chain of expansion kinds, innermost first (e.g. ["macro:assert_eq"] or ["desugar:QuestionMark"])
        let mut kinds = Vec::new();
        let mut cur = span;
        let mut guard = 0;
        while cur.from_expansion() && guard < 16 {
            let data = cur.ctxt().outer_expn_data();
            let k = match data.kind {
                rustc_span::ExpnKind::Macro(_, name) => format!("macro:{}", name),
                rustc_span::ExpnKind::Desugaring(d) => format!("desugar:{:?}", d),
                rustc_span::ExpnKind::AstPass(p) => format!("astpass:{:?}", p),
                rustc_span::ExpnKind::Root => "root".to_string(),
            };
            kinds.push(J::s(k));
            cur = data.call_site;
            guard += 1;
        }
        v.push(("exp", J::Arr(kinds)));
    }
    J::Obj(v)
}

// ---------------------------------------------------------------- structured types

fn named_region(tcx: TyCtxt<'_>, def_id: DefId) -> String {
    // elided lifetimes are all called `'_`: make them distinguishable
    let n = tcx.item_name(def_id).to_string();
    if n == "'_" {
        format!("'_#{}", def_id.index.as_u32())
    } else {
        n
    }
}

fn region_json<'tcx>(tcx: TyCtxt<'tcx>, r: ty::Region<'tcx>) -> J {
    match r.kind() {
        ty::ReEarlyParam(p) => J::s(p.name.to_string()),
        ty::ReStatic => J::s("'static"),
        ty::ReBound(_, br) => match br.kind {
            ty::BoundRegionKind::Named(def_id) => J::s(named_region(tcx, def_id)),
            _ => J::s(format!("'_anon{}", br.var.as_u32())),
        },
        ty::ReLateParam(fr) => match fr.kind {
            ty::LateParamRegionKind::Named(def_id) => J::s(named_region(tcx, def_id)),
            other => J::s(format!("'_late{:?}", other)),
        },
        ty::ReErased => J::s("'_erased"),
        other => J::s(format!("'_{:?}", other)),
    }
}

fn ty_tree<'tcx>(tcx: TyCtxt<'tcx>, t: Ty<'tcx>, depth: usize) -> J {
    if depth > 12 {
        return J::Obj(vec![("k", J::s("deep")), ("s", J::s(tys(t)))]);
    }
    let args_json = |args: ty::GenericArgsRef<'tcx>| -> J {
        J::Arr(
            args.iter()
                .map(|a| match a.kind() {
                    GenericArgKind::Lifetime(r) => J::Obj(vec![("r", region_json(tcx, r))]),
                    GenericArgKind::Type(t) => ty_tree(tcx, t, depth + 1),
                    GenericArgKind::Const(c) => J::Obj(vec![("k", J::s("const")), ("s", J::s(format!("{}", c)))]),
                })
                .collect(),
        )
    };
    match t.kind() {
        ty::Ref(r, inner, m) => J::Obj(vec![
            ("k", J::s("ref")),
            ("r", region_json(tcx, *r)),
            ("mut", J::Bool(m.is_mut())),
            ("t", ty_tree(tcx, *inner, depth + 1)),
        ]),
        ty::RawPtr(inner, m) => J::Obj(vec![
            ("k", J::s("ptr")),
            ("mut", J::Bool(m.is_mut())),
            ("t", ty_tree(tcx, *inner, depth + 1)),
        ]),
        ty::Adt(def, args) => J::Obj(vec![
            ("k", J::s("adt")),
            ("path", J::s(path_of(tcx, def.did()))),
            ("local", J::Bool(def.did().is_local())),
            ("args", args_json(args)),
        ]),
        ty::Slice(inner) => J::Obj(vec![("k", J::s("slice")), ("t", ty_tree(tcx, *inner, depth + 1))]),
        ty::Array(inner, _) => J::Obj(vec![("k", J::s("array")), ("t", ty_tree(tcx, *inner, depth + 1))]),
        ty::Tuple(ts) => J::Obj(vec![
            ("k", J::s("tuple")),
            ("ts", J::Arr(ts.iter().map(|t| ty_tree(tcx, t, depth + 1)).collect())),
        ]),
        ty::Param(p) => J::Obj(vec![("k", J::s("param")), ("name", J::s(p.name.to_string()))]),
        ty::Alias(alias) => {
            let def_id = alias.kind.def_id();
            let mut v = vec![
                ("k", J::s("alias")),
                ("path", J::s(path_of(tcx, def_id))),
                ("args", args_json(alias.args)),
                ("s", J::s(tys(t))),
            ];
            if matches!(tcx.def_kind(def_id), DefKind::OpaqueTy) && def_id.is_local() {
                let hidden = tcx.type_of(def_id).instantiate(tcx, alias.args).skip_norm_wip();
                v.push(("hidden", ty_tree(tcx, hidden, depth + 1)));
            }
            J::Obj(v)
        }
        ty::Dynamic(..) => J::Obj(vec![("k", J::s("dyn")), ("s", J::s(tys(t)))]),
        ty::FnPtr(..) | ty::FnDef(..) | ty::Closure(..) => J::Obj(vec![("k", J::s("fn")), ("s", J::s(tys(t)))]),
        _ => J::Obj(vec![("k", J::s("prim")), ("s", J::s(tys(t)))]),
    }
}

fn predicates_json<'tcx>(tcx: TyCtxt<'tcx>, def_id: DefId) -> J {
    // all predicates (own + parents), as strings plus structured outlives facts
    let mut out = Vec::new();
    let preds = tcx.predicates_of(def_id).instantiate_identity(tcx);
    for (p, _) in preds.predicates.iter().zip(preds.spans.iter()) {
        let p = p.clone().skip_norm_wip();
        let kind = p.kind().skip_binder();
        match kind {
            ty::ClauseKind::RegionOutlives(ty::OutlivesPredicate(a, b)) => {
                out.push(J::Obj(vec![
                    ("k", J::s("region_outlives")),
                    ("a", region_json(tcx, a)),
                    ("b", region_json(tcx, b)),
                ]));
            }
            ty::ClauseKind::TypeOutlives(ty::OutlivesPredicate(t, r)) => {
                out.push(J::Obj(vec![
                    ("k", J::s("type_outlives")),
                    ("t", ty_tree(tcx, t, 0)),
                    ("r", region_json(tcx, r)),
                ]));
            }
            ty::ClauseKind::Trait(tp) => {
                out.push(J::Obj(vec![
                    ("k", J::s("trait")),
                    ("self", ty_tree(tcx, tp.self_ty(), 0)),
                    ("trait", J::s(path_of(tcx, tp.def_id()))),
                    ("s", J::s(with_no_trimmed_paths!(format!("{}", p)))),
                ]));
            }
            _ => out.push(J::Obj(vec![
                ("k", J::s("other")),
                ("s", J::s(with_no_trimmed_paths!(format!("{}", p)))),
            ])),
        }
    }
    J::Arr(out)
}

// ---------------------------------------------------------------- MIR

struct Cx<'a, 'tcx> {
    tcx: TyCtxt<'tcx>,
    body: &'a Body<'tcx>,
    env: TypingEnv<'tcx>,
}

impl<'a, 'tcx> Cx<'a, 'tcx> {
    fn place(&self, p: &Place<'tcx>) -> J {
        let mut projs = Vec::new();
        for (base, elem) in p.iter_projections() {
            let base_ty = base.ty(self.body, self.tcx);
            let j = match elem {
                ProjectionElem::Deref => J::Obj(vec![("k", J::s("deref")), ("of", J::s(tys(base_ty.ty)))]),
                ProjectionElem::Field(f, fty) => {
                    let mut v = vec![("k", J::s("field")), ("i", J::Int(f.as_u32() as i128)), ("ty", J::s(tys(fty)))];
                    match base_ty.ty.kind() {
                        ty::Adt(def, _) => {
                            let variant = match base_ty.variant_index {
                                Some(vi) => def.variant(vi),
                                None => def.non_enum_variant(),
                            };
                            v.push(("name", J::s(variant.fields[f].name.to_string())));
                            v.push(("adt", J::s(path_of(self.tcx, def.did()))));
                            if def.is_enum() {
                                v.push(("variant", J::s(variant.name.to_string())));
                            }
                        }
                        ty::Closure(def_id, _) => {
                            v.push(("name", J::s(format!("upvar{}", f.as_u32()))));
                            v.push(("adt", J::s(path_of(self.tcx, *def_id))));
                        }
                        _ => {
                            v.push(("name", J::s(format!("{}", f.as_u32()))));
                            v.push(("adt", J::s(tys(base_ty.ty))));
                        }
                    }
                    J::Obj(v)
                }
                ProjectionElem::Index(l) => J::Obj(vec![("k", J::s("index")), ("l", J::Int(l.as_u32() as i128))]),
                ProjectionElem::ConstantIndex { offset, from_end, .. } => J::Obj(vec![
                    ("k", J::s("cindex")),
                    ("off", J::Int(offset as i128)),
                    ("from_end", J::Bool(from_end)),
                ]),
                ProjectionElem::Subslice { .. } => J::Obj(vec![("k", J::s("subslice"))]),
                ProjectionElem::Downcast(name, vi) => J::Obj(vec![
                    ("k", J::s("downcast")),
                    ("variant", J::opt_s(name.map(|s| s.to_string()))),
                    ("vi", J::Int(vi.as_u32() as i128)),
                    ("adt", J::s(match base_ty.ty.kind() { ty::Adt(def, _) => path_of(self.tcx, def.did()), _ => tys(base_ty.ty) })),
                ]),
                ProjectionElem::OpaqueCast(_) => J::Obj(vec![("k", J::s("opaquecast"))]),
                ProjectionElem::UnwrapUnsafeBinder(_) => J::Obj(vec![("k", J::s("unwrapbinder"))]),
            };
            projs.push(j);
        }
        J::Obj(vec![("l", J::Int(p.local.as_u32() as i128)), ("pr", J::Arr(projs))])
    }

    fn constant(&self, c: &mir::ConstOperand<'tcx>) -> J {
        let ty = c.const_.ty();
        let mut v = vec![("ty", J::s(tys(ty)))];
        match ty.kind() {
            ty::FnDef(def_id, args) => {
                v.push(("fn", self.callee(*def_id, args)));
            }
            _ => {
                if ty.is_integral() || ty.is_bool() || ty.is_char() {
                    if let Some(s) = c.const_.try_eval_scalar_int(self.tcx, self.env) {
                        let size = s.size();
                        let val: i128 = if ty.is_signed() {
                            s.to_int(size)
                        } else {
                            s.to_uint(size) as i128
                        };
                        v.push(("val", J::Int(val)));
                    }
                }
                v.push(("s", J::s(with_no_trimmed_paths!(format!("{}", c.const_)))));
            }
        }
        J::Obj(v)
    }

    fn callee(&self, def_id: DefId, args: ty::GenericArgsRef<'tcx>) -> J {
        let tcx = self.tcx;
        let mut v = vec![
            ("path", J::s(path_of(tcx, def_id))),
            ("local", J::Bool(def_id.is_local())),
            ("krate", J::s(tcx.crate_name(def_id.krate).to_string())),
            ("full", J::s(with_no_trimmed_paths!(tcx.def_path_str_with_args(def_id, args)))),
            (
                "args",
                J::Arr(
                    args.iter()
                        .map(|a| match a.kind() {
                            GenericArgKind::Type(t) => J::s(tys(t)),
                            GenericArgKind::Lifetime(_) => J::s("'_"),
                            GenericArgKind::Const(c) => J::s(format!("{}", c)),
                        })
                        .collect(),
                ),
            ),
        ];
        if let Some(tr) = tcx.trait_of_assoc(def_id) {
            v.push(("trait", J::s(path_of(tcx, tr))));
            if let Some(a) = args.get(0) {
                if let GenericArgKind::Type(t) = a.kind() {
                    v.push(("self_ty", J::s(tys(t))));
                }
            }
        } else if let Some(imp) = tcx.inherent_impl_of_assoc(def_id) {
            let st = tcx.type_of(imp).instantiate(tcx, args).skip_norm_wip();
            v.push(("self_ty", J::s(tys(st))));
        }
        // resolve through the trait system where possible
        if let Ok(Some(inst)) = ty::Instance::try_resolve(tcx, self.env, def_id, args) {
            let rid = inst.def_id();
            let shim = !matches!(inst.def, ty::InstanceKind::Item(_));
            v.push((
                "resolved",
                J::Obj(vec![
                    ("path", J::s(path_of(tcx, rid))),
                    ("local", J::Bool(rid.is_local())),
                    ("krate", J::s(tcx.crate_name(rid.krate).to_string())),
                    ("kind", J::s(format!("{:?}", inst.def).split('(').next().unwrap_or("").to_string())),
                    ("shim", J::Bool(shim)),
                ]),
            ));
        }
        J::Obj(v)
    }

    fn operand(&self, o: &Operand<'tcx>) -> J {
        match o {
            Operand::Copy(p) => J::Obj(vec![("k", J::s("copy")), ("p", self.place(p))]),
            Operand::Move(p) => J::Obj(vec![("k", J::s("move")), ("p", self.place(p))]),
            Operand::Constant(c) => J::Obj(vec![("k", J::s("const")), ("c", self.constant(c))]),
            other => J::Obj(vec![("k", J::s("other")), ("s", J::s(format!("{:?}", other)))]),
        }
    }

    fn rvalue(&self, rv: &Rvalue<'tcx>) -> J {
        match rv {
            Rvalue::Use(op, ..) => J::Obj(vec![("k", J::s("use")), ("op", self.operand(op))]),
            Rvalue::CopyForDeref(p) => J::Obj(vec![
                ("k", J::s("use")),
                ("op", J::Obj(vec![("k", J::s("copy")), ("p", self.place(p))])),
            ]),
            Rvalue::Ref(_, bk, p) => J::Obj(vec![
                ("k", J::s("ref")),
                ("mut", J::Bool(matches!(bk, BorrowKind::Mut { .. }))),
                ("p", self.place(p)),
            ]),
            Rvalue::RawPtr(kind, p) => J::Obj(vec![
                ("k", J::s("rawptr")),
                ("mut", J::Bool(format!("{:?}", kind).contains("Mut"))),
                ("p", self.place(p)),
            ]),
            Rvalue::Cast(kind, op, ty) => J::Obj(vec![
                ("k", J::s("cast")),
                ("ck", J::s(format!("{:?}", kind).split('(').next().unwrap_or("").to_string())),
                ("op", self.operand(op)),
                ("from", J::s(tys(op.ty(self.body, self.tcx)))),
                ("to", J::s(tys(*ty))),
            ]),
            Rvalue::BinaryOp(op, ab) => J::Obj(vec![
                ("k", J::s("bin")),
                ("op", J::s(format!("{:?}", op))),
                ("a", self.operand(&ab.0)),
                ("b", self.operand(&ab.1)),
                ("ty", J::s(tys(ab.0.ty(self.body, self.tcx)))),
            ]),
            Rvalue::UnaryOp(op, a) => J::Obj(vec![
                ("k", J::s("un")),
                ("op", J::s(format!("{:?}", op))),
                ("a", self.operand(a)),
            ]),
            Rvalue::Discriminant(p) => {
                let pty = p.ty(self.body, self.tcx).ty;
                J::Obj(vec![
                    ("k", J::s("discr")),
                    ("p", self.place(p)),
                    ("adt", J::s(match pty.kind() { ty::Adt(def, _) => path_of(self.tcx, def.did()), _ => tys(pty) })),
                ])
            }
            Rvalue::Aggregate(kind, ops) => {
                let mut v = vec![("k", J::s("agg"))];
                match &**kind {
                    AggregateKind::Adt(def_id, vi, _, _, active) => {
                        let def = self.tcx.adt_def(*def_id);
                        let variant = def.variant(*vi);
                        v.push(("ak", J::s("adt")));
                        v.push(("adt", J::s(path_of(self.tcx, *def_id))));
                        v.push(("variant", J::s(variant.name.to_string())));
                        v.push(("vi", J::Int(vi.as_u32() as i128)));
                        let names: Vec<J> = match active {
                            Some(f) => vec![J::s(variant.fields[*f].name.to_string())],
                            None => variant.fields.iter().map(|f| J::s(f.name.to_string())).collect(),
                        };
                        v.push(("fields", J::Arr(names)));
                    }
                    AggregateKind::Tuple => v.push(("ak", J::s("tuple"))),
                    AggregateKind::Array(_) => v.push(("ak", J::s("array"))),
                    AggregateKind::Closure(def_id, _) => {
                        v.push(("ak", J::s("closure")));
                        v.push(("closure", J::s(path_of(self.tcx, *def_id))));
                    }
                    AggregateKind::RawPtr(ty, m) => {
                        v.push(("ak", J::s("rawptr")));
                        v.push(("pointee", J::s(tys(*ty))));
                        v.push(("mut", J::Bool(m.is_mut())));
                    }
                    other => {
                        v.push(("ak", J::s("other")));
                        v.push(("s", J::s(format!("{:?}", other))));
                    }
                }
                v.push(("ops", J::Arr(ops.iter().map(|o| self.operand(o)).collect())));
                J::Obj(v)
            }
            Rvalue::Repeat(op, _) => J::Obj(vec![("k", J::s("repeat")), ("op", self.operand(op))]),
            other => J::Obj(vec![("k", J::s("other")), ("s", J::s(format!("{:?}", other)))]),
        }
    }

    fn unwind(&self, u: &UnwindAction) -> J {
        match u {
            UnwindAction::Cleanup(bb) => J::Int(bb.as_u32() as i128),
            _ => J::Null,
        }
    }

    fn bb(&self, b: BasicBlock) -> J {
        J::Int(b.as_u32() as i128)
    }

    fn terminator(&self, t: &mir::Terminator<'tcx>) -> J {
        let span = span_json(self.tcx, t.source_info.span);
        let mut v: Vec<(&'static str, J)> = Vec::new();
        match &t.kind {
            TerminatorKind::Goto { target } => {
                v.push(("k", J::s("goto")));
                v.push(("target", self.bb(*target)));
            }
            TerminatorKind::SwitchInt { discr, targets } => {
                v.push(("k", J::s("switch")));
                v.push(("discr", self.operand(discr)));
                v.push(("ty", J::s(tys(discr.ty(self.body, self.tcx)))));
                v.push((
                    "targets",
                    J::Arr(
                        targets
                            .iter()
                            .map(|(val, bb)| J::Arr(vec![J::Int(val as i128), self.bb(bb)]))
                            .collect(),
                    ),
                ));
                v.push(("otherwise", self.bb(targets.otherwise())));
            }
            TerminatorKind::Return => v.push(("k", J::s("return"))),
            TerminatorKind::Unreachable => v.push(("k", J::s("unreachable"))),
            TerminatorKind::UnwindResume => v.push(("k", J::s("resume"))),
            TerminatorKind::UnwindTerminate(_) => v.push(("k", J::s("terminate"))),
            TerminatorKind::Drop { place, target, unwind, .. } => {
                v.push(("k", J::s("drop")));
                v.push(("p", self.place(place)));
                v.push(("ty", J::s(tys(place.ty(self.body, self.tcx).ty))));
                v.push(("target", self.bb(*target)));
                v.push(("unwind", self.unwind(unwind)));
            }
            TerminatorKind::Call { func, args, destination, target, unwind, fn_span, .. } => {
                v.push(("k", J::s("call")));
                v.push(("func", self.operand(func)));
                v.push(("args", J::Arr(args.iter().map(|a| self.operand(&a.node)).collect())));
                v.push(("dest", self.place(destination)));
                v.push(("target", match target { Some(b) => self.bb(*b), None => J::Null }));
                v.push(("unwind", self.unwind(unwind)));
                v.push(("fn_span", span_json(self.tcx, *fn_span)));
            }
            TerminatorKind::TailCall { func, args, .. } => {
                v.push(("k", J::s("tailcall")));
                v.push(("func", self.operand(func)));
                v.push(("args", J::Arr(args.iter().map(|a| self.operand(&a.node)).collect())));
            }
            TerminatorKind::Assert { cond, expected, msg, target, unwind } => {
                v.push(("k", J::s("assert")));
                v.push(("cond", self.operand(cond)));
                v.push(("expected", J::Bool(*expected)));
                let m = format!("{:?}", msg);
                let kind = m.split(|c| c == '(' || c == ' ' || c == '{').next().unwrap_or("").to_string();
                v.push(("msg", J::s(kind)));
                v.push(("msg_full", J::s(m)));
                v.push(("target", self.bb(*target)));
                v.push(("unwind", self.unwind(unwind)));
            }
            TerminatorKind::FalseEdge { real_target, .. } => {
                v.push(("k", J::s("goto")));
                v.push(("target", self.bb(*real_target)));
            }
            TerminatorKind::FalseUnwind { real_target, .. } => {
                v.push(("k", J::s("goto")));
                v.push(("target", self.bb(*real_target)));
            }
            other => {
                v.push(("k", J::s("other")));
                v.push(("s", J::s(format!("{:?}", other))));
            }
        }
        v.push(("span", span));
        J::Obj(v)
    }

    fn blocks(&self) -> J {
        let mut out = Vec::new();
        for (_, data) in self.body.basic_blocks.iter_enumerated() {
            let mut stmts = Vec::new();
            for st in &data.statements {
                match &st.kind {
                    StatementKind::Assign(b) => {
                        let (p, rv) = &**b;
                        stmts.push(J::Obj(vec![
                            ("k", J::s("assign")),
                            ("p", self.place(p)),
                            ("rv", self.rvalue(rv)),
                            ("span", span_json(self.tcx, st.source_info.span)),
                        ]));
                    }
                    StatementKind::SetDiscriminant { place, variant_index } => {
                        stmts.push(J::Obj(vec![
                            ("k", J::s("setdiscr")),
                            ("p", self.place(place)),
                            ("vi", J::Int(variant_index.as_u32() as i128)),
                            ("span", span_json(self.tcx, st.source_info.span)),
                        ]));
                    }
                    StatementKind::Intrinsic(i) => {
                        stmts.push(J::Obj(vec![
                            ("k", J::s("intrinsic")),
                            ("s", J::s(format!("{:?}", i))),
                            ("span", span_json(self.tcx, st.source_info.span)),
                        ]));
                    }
                    _ => {}
                }
            }
            out.push(J::Obj(vec![
                ("cleanup", J::Bool(data.is_cleanup)),
                ("stmts", J::Arr(stmts)),
                ("term", self.terminator(data.terminator())),
            ]));
        }
        J::Arr(out)
    }
}

fn vis_str(tcx: TyCtxt<'_>, id: LocalDefId) -> String {
    match tcx.def_kind(id) {
        DefKind::Fn | DefKind::AssocFn | DefKind::Struct | DefKind::Enum | DefKind::Union | DefKind::Const { .. } | DefKind::AssocConst { .. } | DefKind::Trait => {
            let v = tcx.visibility(id);
            if v.is_public() {
                "pub".to_string()
            } else {
                format!("{:?}", v)
            }
        }
        _ => "n/a".to_string(),
    }
}

fn fn_json<'tcx>(tcx: TyCtxt<'tcx>, id: LocalDefId) -> Option<J> {
    let kind = tcx.def_kind(id);
    if !matches!(kind, DefKind::Fn | DefKind::AssocFn | DefKind::Closure) {
        return None;
    }
    let def_id = id.to_def_id();
    let body = tcx.optimized_mir(def_id);
    let env = TypingEnv::post_analysis(tcx, def_id);
    let cx = Cx { tcx, body, env };
    let mut v: Vec<(&'static str, J)> = Vec::new();
    v.push(("path", J::s(path_of(tcx, def_id))));
    v.push(("kind", J::s(format!("{:?}", kind))));
    v.push(("span", span_json(tcx, tcx.def_span(def_id))));
    v.push(("vis", J::s(vis_str(tcx, id))));
    let ev = tcx.effective_visibilities(());
    v.push(("eff_pub", J::Bool(ev.is_reachable(id))));
    v.push(("eff_direct", J::Bool(ev.is_directly_public(id))));
    // owner (for closures: the enclosing fn-like item)
    if matches!(kind, DefKind::Closure) {
        let owner = tcx.typeck_root_def_id(def_id);
        v.push(("closure_of", J::s(path_of(tcx, owner))));
    }
    if matches!(kind, DefKind::AssocFn) {
        v.push(("name", J::s(tcx.item_name(def_id).to_string())));
        if let Some(imp) = tcx.impl_of_assoc(def_id) {
            let self_ty = tcx.type_of(imp).instantiate_identity().skip_norm_wip();
            v.push(("self_ty", J::s(tys(self_ty))));
            v.push(("self_tree", ty_tree(tcx, self_ty, 0)));
            if let ty::Adt(def, _) = self_ty.kind() {
                v.push(("self_adt", J::s(path_of(tcx, def.did()))));
            }
            if let Some(tr) = tcx.impl_opt_trait_ref(imp) {
                let tr = tr.instantiate_identity().skip_norm_wip();
                v.push(("trait", J::s(path_of(tcx, tr.def_id))));
                v.push(("trait_full", J::s(with_no_trimmed_paths!(format!("{}", tr)))));
                v.push(("trait_local", J::Bool(tr.def_id.is_local())));
                // associated types of this impl (so that `<Self as Trait>::Item` in the signature can be resolved)
                let mut ats = Vec::new();
                for item in tcx.associated_items(imp).in_definition_order() {
                    if item.is_type() {
                        if let Some(tid) = item.trait_item_def_id() {
                            let t = tcx.type_of(item.def_id).instantiate_identity().skip_norm_wip();
                            ats.push(J::Obj(vec![
                                ("trait_item", J::s(path_of(tcx, tid))),
                                ("tree", ty_tree(tcx, t, 0)),
                                ("s", J::s(tys(t))),
                            ]));
                        }
                    }
                }
                v.push(("assoc_types", J::Arr(ats)));
            }
        } else if let Some(tr) = tcx.trait_of_assoc(def_id) {
            v.push(("trait_decl", J::s(path_of(tcx, tr))));
        }
    } else if matches!(kind, DefKind::Fn) {
        v.push(("name", J::s(tcx.item_name(def_id).to_string())));
    }
    if !matches!(kind, DefKind::Closure) {
        // signature with explicit regions
        let sig = tcx.fn_sig(def_id).instantiate_identity().skip_norm_wip();
        let sig = sig.skip_binder();
        v.push((
            "sig",
            J::Obj(vec![
                ("inputs", J::Arr(sig.inputs().iter().map(|t| ty_tree(tcx, *t, 0)).collect())),
                ("output", ty_tree(tcx, sig.output(), 0)),
                ("s", J::s(with_no_trimmed_paths!(format!("{:?}", sig)))),
            ]),
        ));
        let generics = tcx.generics_of(def_id);
        let mut gs = Vec::new();
        let mut g = Some(generics);
        let mut chain = Vec::new();
        while let Some(gg) = g {
            chain.push(gg);
            g = gg.parent.map(|p| tcx.generics_of(p));
        }
        for gg in chain.iter().rev() {
            for p in &gg.own_params {
                gs.push(J::Obj(vec![
                    ("name", J::s(p.name.to_string())),
                    ("kind", J::s(match p.kind { ty::GenericParamDefKind::Lifetime => "lifetime", ty::GenericParamDefKind::Type { .. } => "type", ty::GenericParamDefKind::Const { .. } => "const" })),
                ]));
            }
        }
        v.push(("generics", J::Arr(gs)));
        v.push(("predicates", predicates_json(tcx, def_id)));
    }
    v.push(("argc", J::Int(body.arg_count as i128)));
    // locals: type + user name (from debug info)
    let mut names: Vec<Option<String>> = vec![None; body.local_decls.len()];
    for vdi in &body.var_debug_info {
        if let mir::VarDebugInfoContents::Place(p) = &vdi.value {
            if p.projection.is_empty() {
                names[p.local.as_usize()] = Some(vdi.name.to_string());
            }
        }
    }
    let mut locals = Vec::new();
    for (l, decl) in body.local_decls.iter_enumerated() {
        locals.push(J::Obj(vec![
            ("ty", J::s(tys(decl.ty))),
            ("name", J::opt_s(names[l.as_usize()].clone())),
        ]));
    }
    v.push(("locals", J::Arr(locals)));
    // upvar debug names for closures: name -> projection path
    let mut upv = Vec::new();
    for vdi in &body.var_debug_info {
        if let mir::VarDebugInfoContents::Place(p) = &vdi.value {
            if !p.projection.is_empty() {
                upv.push(J::Obj(vec![("name", J::s(vdi.name.to_string())), ("p", cx.place(p))]));
            }
        }
    }
    v.push(("debug_places", J::Arr(upv)));
    v.push(("blocks", cx.blocks()));
    // promoted constants that are a unit-like variant of an enum (`&Mode::Create` in `mode == Mode::Create`): index -> (adt, variant index),
    // so that constant specialisation can evaluate a derived `==` against them
    let mut proms = Vec::new();
    for (pi, pbody) in tcx.promoted_mir(def_id).iter_enumerated() {
        for bbd in pbody.basic_blocks.iter() {
            for st in bbd.statements.iter() {
                if let StatementKind::Assign(bx) = &st.kind {
                    if let Rvalue::Aggregate(kind, ops) = &bx.1 {
                        if let AggregateKind::Adt(adt_id, vi, _, _, _) = &**kind {
                            if ops.is_empty() && tcx.adt_def(*adt_id).is_enum() {
                                proms.push(J::Obj(vec![
                                    ("i", J::Int(pi.as_u32() as i128)),
                                    ("adt", J::s(path_of(tcx, *adt_id))),
                                    ("vi", J::Int(vi.as_u32() as i128)),
                                ]));
                            }
                        }
                    }
                }
            }
        }
    }
    v.push(("promoted", J::Arr(proms)));
    Some(J::Obj(v))
}

fn adt_json<'tcx>(tcx: TyCtxt<'tcx>, id: LocalDefId) -> Option<J> {
    let kind = tcx.def_kind(id);
    if !matches!(kind, DefKind::Struct | DefKind::Enum | DefKind::Union) {
        return None;
    }
    let def_id = id.to_def_id();
    let def = tcx.adt_def(def_id);
    let repr = def.repr();
    let mut v: Vec<(&'static str, J)> = Vec::new();
    v.push(("path", J::s(path_of(tcx, def_id))));
    v.push(("name", J::s(tcx.item_name(def_id).to_string())));
    v.push(("kind", J::s(format!("{:?}", kind))));
    v.push(("span", span_json(tcx, tcx.def_span(def_id))));
    v.push(("vis", J::s(vis_str(tcx, id))));
    let ev = tcx.effective_visibilities(());
    v.push(("eff_pub", J::Bool(ev.is_reachable(id))));
    v.push(("repr_c", J::Bool(repr.c())));
    v.push(("repr_packed", J::Bool(repr.packed())));
    v.push(("repr_transparent", J::Bool(repr.transparent())));
    let generics = tcx.generics_of(def_id);
    v.push((
        "generics",
        J::Arr(
            generics
                .own_params
                .iter()
                .map(|p| {
                    J::Obj(vec![
                        ("name", J::s(p.name.to_string())),
                        ("kind", J::s(match p.kind { ty::GenericParamDefKind::Lifetime => "lifetime", ty::GenericParamDefKind::Type { .. } => "type", ty::GenericParamDefKind::Const { .. } => "const" })),
                    ])
                })
                .collect(),
        ),
    ));
    v.push(("predicates", predicates_json(tcx, def_id)));
    let only_lifetimes = generics.own_params.iter().all(|p| matches!(p.kind, ty::GenericParamDefKind::Lifetime));
    // layout (only for types without type parameters)
    let mut layout = None;
    if only_lifetimes {
        let ty = tcx.type_of(def_id).instantiate_identity().skip_norm_wip();
        let ty = tcx.erase_and_anonymize_regions(ty);
        let env = TypingEnv::fully_monomorphized();
        if let Ok(l) = tcx.layout_of(env.as_query_input(ty)) {
            layout = Some(l);
            v.push(("size", J::Int(l.size.bytes() as i128)));
            v.push(("align", J::Int(l.align.abi.bytes() as i128)));
        }
    }
    let mut variants = Vec::new();
    for (vi, variant) in def.variants().iter_enumerated() {
        let mut fields = Vec::new();
        for (fi, f) in variant.fields.iter_enumerated() {
            let fty = tcx.type_of(f.did).instantiate_identity().skip_norm_wip();
            let mut fv = vec![
                ("name", J::s(f.name.to_string())),
                ("ty", J::s(tys(fty))),
                ("tree", ty_tree(tcx, fty, 0)),
                ("vis", J::s(if f.vis.is_public() { "pub".to_string() } else { format!("{:?}", f.vis) })),
            ];
            if let Some(l) = layout {
                if def.is_struct() {
                    let off = l.fields.offset(fi.as_usize());
                    fv.push(("offset", J::Int(off.bytes() as i128)));
                    let fl = tcx.layout_of(TypingEnv::fully_monomorphized().as_query_input(tcx.erase_and_anonymize_regions(fty)));
                    if let Ok(fl) = fl {
                        fv.push(("size", J::Int(fl.size.bytes() as i128)));
                    }
                }
            }
            fields.push(J::Obj(fv));
        }
        variants.push(J::Obj(vec![
            ("name", J::s(variant.name.to_string())),
            ("vi", J::Int(vi.as_u32() as i128)),
            ("fields", J::Arr(fields)),
        ]));
    }
    v.push(("variants", J::Arr(variants)));
    Some(J::Obj(v))
}

fn const_json<'tcx>(tcx: TyCtxt<'tcx>, id: LocalDefId) -> Option<J> {
    let kind = tcx.def_kind(id);
    if !matches!(kind, DefKind::Const { .. } | DefKind::AssocConst { .. }) {
        return None;
    }
    let def_id = id.to_def_id();
    let ty = tcx.type_of(def_id).instantiate_identity().skip_norm_wip();
    let mut v: Vec<(&'static str, J)> = Vec::new();
    v.push(("path", J::s(path_of(tcx, def_id))));
    v.push(("name", J::s(tcx.item_name(def_id).to_string())));
    v.push(("ty", J::s(tys(ty))));
    v.push(("span", span_json(tcx, tcx.def_span(def_id))));
    if let Some(imp) = tcx.impl_of_assoc(def_id) {
        let self_ty = tcx.type_of(imp).instantiate_identity().skip_norm_wip();
        v.push(("self_ty", J::s(tys(self_ty))));
    }
    if ty.is_integral() || ty.is_bool() {
        if tcx.generics_of(def_id).count() == 0 || tcx.generics_of(def_id).own_params.iter().all(|p| matches!(p.kind, ty::GenericParamDefKind::Lifetime)) {
            if let Ok(val) = tcx.const_eval_poly(def_id) {
                if let Some(s) = val.try_to_scalar_int() {
                    let size = s.size();
                    let n: i128 = if ty.is_signed() { s.to_int(size) } else { s.to_uint(size) as i128 };
                    v.push(("val", J::Int(n)));
                }
            }
        }
    }
    Some(J::Obj(v))
}

pub fn export<'tcx>(tcx: TyCtxt<'tcx>, name: &str) -> J {
    let mut fns = Vec::new();
    for id in tcx.hir_body_owners() {
        if let Some(j) = fn_json(tcx, id) {
            fns.push(j);
        }
    }
    let mut adts = Vec::new();
    let mut consts = Vec::new();
    let mut impls = Vec::new();
    for id in tcx.hir_crate_items(()).definitions() {
        if let Some(j) = adt_json(tcx, id) {
            adts.push(j);
        }
        if let Some(j) = const_json(tcx, id) {
            consts.push(j);
        }
        if matches!(tcx.def_kind(id), DefKind::Impl { .. }) {
            let def_id = id.to_def_id();
            let self_ty = tcx.type_of(def_id).instantiate_identity().skip_norm_wip();
            let mut v = vec![
                ("self_ty", J::s(tys(self_ty))),
                ("self_tree", ty_tree(tcx, self_ty, 0)),
                ("span", span_json(tcx, tcx.def_span(def_id))),
                ("predicates", predicates_json(tcx, def_id)),
            ];
            if let Some(tr) = tcx.impl_opt_trait_ref(def_id) {
                let tr = tr.instantiate_identity().skip_norm_wip();
                v.push(("trait", J::s(path_of(tcx, tr.def_id))));
                v.push(("trait_full", J::s(with_no_trimmed_paths!(format!("{}", tr)))));
            }
            impls.push(J::Obj(v));
        }
    }
    J::Obj(vec![
        ("crate", J::s(name)),
        ("rustc", J::s(option_env!("CFG_VERSION").unwrap_or("nightly"))),
        ("fns", J::Arr(fns)),
        ("adts", J::Arr(adts)),
        ("consts", J::Arr(consts)),
        ("impls", J::Arr(impls)),
    ])
}
