// jammlint: rustc_private driver that exports "facts" about the type-checked program
// (MIR control-flow graphs with resolved callees, ADT definitions and layouts, constants,
// function signatures with explicit regions) as one JSON document.  It takes no decision
// itself: all rules live in /verif/rules (Python) and read this document.
//
// Invocation: as RUSTC_WORKSPACE_WRAPPER (argv = [jammlint, rustc, args...]).
//   JAMMLINT_OUT   = path of the facts file (written only for crate JAMMLINT_CRATE, lib target)
//   JAMMLINT_CRATE = crate name to export (default "jammdb")
#![feature(rustc_private)]
#![allow(clippy::all)]

extern crate rustc_abi;
extern crate rustc_driver;
extern crate rustc_hir;
extern crate rustc_interface;
extern crate rustc_middle;
extern crate rustc_session;
extern crate rustc_span;

mod json;
mod export;

use rustc_driver::{Callbacks, Compilation};
use rustc_interface::interface::Compiler;
use rustc_middle::ty::TyCtxt;

struct Cb {
    out: Option<String>,
    krate: String,
}

impl Callbacks for Cb {
    fn after_analysis<'tcx>(&mut self, _c: &Compiler, tcx: TyCtxt<'tcx>) -> Compilation {
        let name = tcx.crate_name(rustc_hir::def_id::LOCAL_CRATE).to_string();
        if name == self.krate {
            if let Some(out) = &self.out {
                let doc = export::export(tcx, &name);
                let mut s = String::new();
                doc.write(&mut s);
                // one write per process (parallel crates must not interleave)
                std::fs::write(out, s).expect("jammlint: cannot write facts");
            }
        }
        Compilation::Continue
    }
}

fn main() {
    let mut args: Vec<String> = std::env::args().collect();
    // wrapper mode: argv[1] is the path of the real rustc
    if args.len() > 1 && (args[1].ends_with("rustc") || args[1].contains("/rustc")) {
        args.remove(1);
    }
    let mut cb = Cb {
        out: std::env::var("JAMMLINT_OUT").ok(),
        krate: std::env::var("JAMMLINT_CRATE").unwrap_or_else(|_| "jammdb".to_string()),
    };
    rustc_driver::run_compiler(&args, &mut cb);
}
