#!/bin/sh
# usage: run.sh <crate-dir> <out-facts.json> [crate-name]
# Runs the driver over the library target of <crate-dir> with a fresh target directory.
set -e
DIR="$1"; OUT="$2"; CRATE="${3:-jammdb}"
HERE="$(cd "$(dirname "$0")" && pwd)"
WORK="$HERE/../.work"; mkdir -p "$WORK"
T="$(mktemp -d "$WORK/tgt.XXXXXX")"
trap 'rm -rf "$T"' EXIT
rm -f "$OUT"
cd "$DIR"
env CARGO_NET_OFFLINE=true LD_LIBRARY_PATH="$(rustc +nightly --print sysroot)/lib" \
    RUSTFLAGS="-Zmir-opt-level=0 -Awarnings" \
    RUSTC_WORKSPACE_WRAPPER="$HERE/target/release/jammlint" \
    JAMMLINT_OUT="$OUT" JAMMLINT_CRATE="$CRATE" CARGO_TARGET_DIR="$T" \
    cargo +nightly check --offline --lib --quiet
test -s "$OUT"
