#!/usr/bin/env python3
"""usage: write_meta.py <info.json> <round> : writes /verif/seeded/<seed>/meta.json for every seed named in info.json from
.work/seed_matrix.json (tools/seed_matrix.py) and the confirm.txt written by tools/confirm_seed.sh"""
import json, os, sys
info = json.load(open(sys.argv[1]))
# seeds that a later fix: commit made harmless (kept as recorded; on the repaired tree they are benign edits and every check must be silent on them)
SUPERSEDED = {
    'C11-r10A': 'confirmed at 759d357 (an fsync inserted between growing and remapping the file: when it fails the file is longer than the map and the next commit, deciding '
                'from the file length, uses pages beyond the map).  Triage showed the unchanged tree has the same defect whenever the remap itself fails (F15, fixed in 65b378f: the '
                'decision now uses the smaller of file length and mapped length); on the repaired tree a failed fsync at that place is repaired by the next commit, the demonstration '
                'passes, and the change is a benign edit',
}
rnd = int(sys.argv[2])
mat = json.load(open('/verif/.work/seed_matrix.json'))
for seed, (summary, needs) in sorted(info.items()):
    d = '/verif/seeded/' + seed
    if not os.path.isdir(d):
        print('missing', seed)
        continue
    prop = seed.split('-')[0]
    conf = open(d + '/confirm.txt').read().strip() if os.path.exists(d + '/confirm.txt') else ''
    m = mat.get(seed, {})
    det = {}
    keys = {}
    for pid, ks in m.get('detected', {}).items():
        det[pid] = sorted({k.split(' | ')[0] for k in ks})
        keys[pid] = ks[:6]
    meta = dict(seed=seed, breaks_property=prop, summary=summary, needs_to_manifest=needs, round=rnd,
                origin='independent sub-agent (round %d) given only the property text, the list of earlier changes to avoid, and a scratch worktree of /repo' % rnd,
                confirmed=dict(result=conf, how='tools/confirm_seed.sh: fresh scratch worktree of /repo HEAD; git apply patch.diff; cargo test --offline (whole suite) must pass; '
                               'demo/run.sh must exit non-zero with the change and zero without it; worktree removed afterwards'),
                detected_by=det, detected_by_own_property=prop in det, violation_keys=keys)
    sup = SUPERSEDED.get(seed)
    if sup:
        meta['superseded'] = sup
    json.dump(meta, open(d + '/meta.json', 'w'), indent=1)
    print(seed, 'own' if prop in det else ('other:' + ','.join(det) if det else 'NOT DETECTED'))

# refresh `detected_by` / `violation_keys` of every other recorded seed from the current matrix (rules evolve; a detection that was an accident of
# shape may disappear, new rules add detections)
for seed in sorted(os.listdir('/verif/seeded')):
    mp = '/verif/seeded/%s/meta.json' % seed
    if seed in info or not os.path.exists(mp) or seed not in mat or mat[seed].get('status') != 'ok':
        continue
    meta = json.load(open(mp))
    det, keys = {}, {}
    for pid, ks in mat[seed].get('detected', {}).items():
        det[pid] = sorted({k.split(' | ')[0] for k in ks})
        keys[pid] = ks[:6]
    if det != meta.get('detected_by'):
        print('refreshed', seed, sorted(set(meta.get('detected_by', {})) ^ set(det)))
    meta['detected_by'] = det
    meta['violation_keys'] = keys
    meta['detected_by_own_property'] = meta['breaks_property'] in det
    json.dump(meta, open(mp, 'w'), indent=1)
