#!/usr/bin/env python3
"""usage: try_benign.py <dir with */_refac/N/patch.diff> : behaviour-preserving patches must be silent for all properties"""
import os, sys, json, importlib
sys.path.insert(0, '/verif/rules'); sys.path.insert(0, '/verif/mutants')
import core, selftest
from facts import build_facts
from concurrent.futures import ProcessPoolExecutor
PIDS = ['C%02d' % i for i in range(1, 17)]
root = sys.argv[1]
F = build_facts()
base = {}
for pid in PIDS:
    mod = importlib.import_module(pid.lower())
    lines, v, k, ev, res = core.run_property(pid, mod, 'quick', facts=F, write=False)
    base[pid] = {r.key for r in res if not r.ok}
tasks = []
for a in sorted(os.listdir(root)):
    rd = os.path.join(root, a, '_refac')
    if not os.path.isdir(rd):
        continue
    for n in sorted(os.listdir(rd)):
        pf = os.path.join(rd, n, 'patch.diff')
        if os.path.exists(pf):
            tasks.append((dict(name='%s-%s' % (a, n), patch=pf, expect={}, desc='', kind='benign'), PIDS))
with ProcessPoolExecutor(max_workers=16) as ex:
    for (name, status, msg, res), (m, want) in zip(ex.map(selftest._worker, tasks), tasks):
        noisy = {}
        for pid in PIDS:
            new = sorted({k for (r, k) in res.get(pid, []) if k not in base[pid]})
            if new:
                noisy[pid] = new
        print(name, status, msg[-300:] if status != 'ok' else '', 'SILENT' if not noisy and status == 'ok' else json.dumps(noisy)[:1500])
