#!/usr/bin/env python3
"""usage: try_seeds.py <dir with Cxx/_seed/<V>/patch.diff> [Cxx ...] : evaluates unconfirmed seed patches against all properties"""
import os, sys, json, importlib
sys.path.insert(0, '/verif/rules'); sys.path.insert(0, '/verif/mutants')
import core, selftest
from facts import build_facts
from concurrent.futures import ProcessPoolExecutor
PIDS = ['C%02d' % i for i in range(1, 17)]
root = sys.argv[1]
only = sys.argv[2:]
F = build_facts()
base = {}
for pid in PIDS:
    mod = importlib.import_module(pid.lower())
    lines, v, k, ev, res = core.run_property(pid, mod, 'quick', facts=F, write=False)
    base[pid] = {r.key for r in res if not r.ok}
tasks = []
for p in sorted(os.listdir(root)):
    sd = os.path.join(root, p, '_seed')
    if not os.path.isdir(sd) or (only and p not in only):
        continue
    for v in sorted(os.listdir(sd)):
        pf = os.path.join(sd, v, 'patch.diff')
        if os.path.exists(pf):
            tasks.append((dict(name='%s-%s' % (p, v), patch=pf, expect={}, desc='', kind='broken'), PIDS))
with ProcessPoolExecutor(max_workers=16) as ex:
    for (name, status, msg, res), (m, want) in zip(ex.map(selftest._worker, tasks), tasks):
        det = {}
        for pid in PIDS:
            new = sorted({k for (r, k) in res.get(pid, []) if k not in base[pid]})
            if new:
                det[pid] = [k.split(' | ')[0] + (' [floor]' if '| floor |' in k else '') for k in new]
        print(name, status, msg[-200:] if status != 'ok' else '', json.dumps(det))
