#!/usr/bin/env python3
"""usage: seed_matrix_some.py <seed,seed,...> : re-evaluates the named seeds against all properties and updates .work/seed_matrix.json (see seed_matrix.py)"""
import os, sys, json, importlib
sys.path.insert(0, '/verif/rules'); sys.path.insert(0, '/verif/mutants')
import core, selftest
from facts import build_facts
from concurrent.futures import ProcessPoolExecutor
PIDS = ['C%02d' % i for i in range(1, 17)]
F = build_facts()
base = {}
for pid in PIDS:
    mod = importlib.import_module(pid.lower())
    lines, v, k, ev, res = core.run_property(pid, mod, 'quick', facts=F, write=False)
    base[pid] = {r.key for r in res if not r.ok}
seeds = sys.argv[1].split(',')
tasks = [(dict(name=d, patch='seeded/%s/patch.diff' % d, expect={}, desc='', kind='broken'), PIDS) for d in seeds]
out = json.load(open('/verif/.work/seed_matrix.json'))
with ProcessPoolExecutor(max_workers=16) as ex:
    for (name, status, msg, res), (m, want) in zip(ex.map(selftest._worker, tasks), tasks):
        det = {}
        for pid in PIDS:
            new = [(r, k) for (r, k) in res.get(pid, []) if k not in base[pid]]
            if new:
                det[pid] = sorted({k for r, k in new})
        out[name] = dict(status=status, msg=msg[-300:], detected=det)
        print(name, status, {p: [k.split(' | ')[0] for k in ks][:3] for p, ks in det.items()})
json.dump(out, open('/verif/.work/seed_matrix.json', 'w'), indent=1)
