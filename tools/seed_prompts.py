#!/usr/bin/env python3
"""usage: seed_prompts.py <round> <root>: writes <root>/<Cxx>.prompt.txt for every property and creates a scratch worktree of /repo HEAD at <root>/<Cxx>.
The prompt carries only the property text and one-line titles of the changes earlier rounds produced (to be avoided); nothing about /verif."""
import json, os, sys, subprocess
rnd, root = sys.argv[1], sys.argv[2]
ORD = {'9': 'ninth', '10': 'tenth', '11': 'eleventh', '12': 'twelfth'}.get(rnd, rnd + 'th')
KINDS = os.environ.get('SEED_KINDS', 'different in kind — e.g. one about ordering / locking / a missing or misplaced step, one about a wrong value / condition / field / boundary, one free choice')
os.makedirs(root, exist_ok=True)
props = [json.loads(l) for l in open('/verif/properties.jsonl')]
titles = {}
for d in sorted(os.listdir('/verif/seeded')):
    mp = '/verif/seeded/%s/meta.json' % d
    if os.path.exists(mp):
        m = json.load(open(mp))
        t = m.get('summary', '').split(' -- ')[0].strip()
        titles.setdefault(m['breaks_property'], []).append(t[:230])
T = open('/verif/tools/seed_prompt.tmpl').read()
for p in props:
    pid = p['id']
    wt = os.path.join(root, pid)
    if not os.path.isdir(wt):
        subprocess.run(['git', '-C', '/repo', 'worktree', 'add', '-q', '--detach', wt, 'HEAD'], check=True)
    avoid = '\n'.join('  - ' + t for t in titles.get(pid, []))
    txt = T.replace('@WT@', wt).replace('@PID@', pid).replace('@TITLE@', p['title']).replace('@STATEMENT@', p['statement']).replace('@QUANT@', p['quantifier']['text']) \
           .replace('@ORD@', ORD).replace('@KINDS@', KINDS).replace('@AVOID@', avoid)
    open(os.path.join(root, pid + '.prompt.txt'), 'w').write(txt)
    print(pid, len(titles.get(pid, [])), 'earlier changes listed')
