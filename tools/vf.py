#!/usr/bin/env python3
"""developer helper: vf.py build <root>   -> facts for every <root>/*/_refac/N/patch.diff cached in /var/tmp/vf/<area>-<N>.json
                     vf.py run <name|all> [Cxx ...] -> new failures relative to the unmodified tree"""
import os, sys, json, importlib, subprocess, shutil
sys.path.insert(0, '/verif/rules'); sys.path.insert(0, '/verif/mutants')
import core, mutate
from facts import build_facts, load_facts
from concurrent.futures import ProcessPoolExecutor
PIDS = ['C%02d' % i for i in range(1, 17) if i != 14]     # C14's witnesses are compiled against a source tree, not against cached facts
VF = '/var/tmp/vf'

def build_one(a):
    name, pf = a
    d = mutate.scratch_copy('/repo')
    try:
        ok, msg = mutate.apply_patch(d, pf)
        if not ok:
            return name, 'stale ' + msg
        out = os.path.join(VF, name + '.json')
        r = subprocess.run(['sh', '/verif/jammlint/run.sh', d, out], capture_output=True, text=True)
        return name, 'ok' if r.returncode == 0 and os.path.exists(out) else 'fail ' + (r.stdout + r.stderr)[-500:]
    finally:
        shutil.rmtree(d, ignore_errors=True)

def run_one(a):
    name, pids, base = a
    F = load_facts(os.path.join(VF, name + '.json'))
    F.src_hash = 'variant:' + name
    out = {}
    import time
    for pid in pids:
        mod = importlib.import_module(pid.lower())
        t0 = time.time()
        try:
            lines, v, k, ev, res = core.run_property(pid, mod, 'quick', facts=F, write=False)
            new = sorted({r.key for r in res if not r.ok} - base[pid])
        except Exception as e:
            import traceback
            new = ['ERROR ' + traceback.format_exc()[-600:]]
        if new:
            out[pid] = new
        if time.time() - t0 > 20:
            print('SLOW', name, pid, round(time.time() - t0), file=sys.stderr)
    return name, out

if sys.argv[1] == 'build':
    root = sys.argv[2]
    tasks = []
    for a in sorted(os.listdir(root)):
        for sub in ('_refac', '_seed'):
          rd = os.path.join(root, a, sub)
          if os.path.isdir(rd):
            for n in sorted(os.listdir(rd)):
                pf = os.path.join(rd, n, 'patch.diff')
                if os.path.exists(pf) and not os.path.exists(os.path.join(VF, '%s-%s.json' % (a, n))):
                    tasks.append(('%s-%s' % (a, n), pf))
    for f in sorted(os.listdir(root)):
        if os.path.exists(os.path.join(root, f, 'patch.diff')) and not os.path.exists(os.path.join(VF, f + '.json')):
            tasks.append((f, os.path.join(root, f, 'patch.diff')))
        if f.endswith('.patch'):
            tasks.append((f[:-6], os.path.join(root, f)))
    with ProcessPoolExecutor(16) as ex:
        for name, st in ex.map(build_one, tasks):
            print(name, st)
else:
    names = sys.argv[2].split(',')
    if names == ['all']:
        names = sorted(f[:-5] for f in os.listdir(VF) if f.endswith('.json'))
    pids = sys.argv[3:] or PIDS
    F = build_facts()
    base = {}
    for pid in pids:
        mod = importlib.import_module(pid.lower())
        lines, v, k, ev, res = core.run_property(pid, mod, 'quick', facts=F, write=False)
        base[pid] = {r.key for r in res if not r.ok}
    with ProcessPoolExecutor(16) as ex:
        for name, out in ex.map(run_one, [(n, pids, base) for n in names]):
            if not out:
                print(name, 'SILENT')
            for pid, ks in out.items():
                for k in ks:
                    print(name, pid, k[:300])
