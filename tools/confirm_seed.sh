#!/bin/bash
# usage: confirm_seed.sh Cxx   -- confirms seeds A, B (and extras) of /tmp/seed/Cxx in a fresh scratch worktree of /repo HEAD
# writes /verif/seeded/<Cxx>-<variant>/{patch.diff,demo/,meta.json,confirm.log}
P=$1
ONLY=$2
SEEDROOT=${SEEDROOT:-/tmp/seed}
TAG=${TAG:-}
SRC=$SEEDROOT/$P/_seed
WT=/tmp/confirm/$P$TAG
mkdir -p /tmp/confirm
git -C /repo worktree remove --force $WT 2>/dev/null
git -C /repo worktree add -q --detach $WT HEAD || exit 2
cp -r $SRC $WT/_seed
cd $WT
for V in $(ls $SRC); do
  [ -f $SRC/$V/patch.diff ] || continue
  OUT=/verif/seeded/$P-$TAG$V
  mkdir -p $OUT
  LOG=$OUT/confirm.log
  : > $LOG
  git checkout -q -- . ; git clean -fdq -e _seed -e target
  applies=no; suite=skipped; demo_with=skipped; demo_without=skipped
  if [ -n "$ONLY" ] && [ "$ONLY" != "$V" ]; then continue; fi
  PATCH=$SRC/$V/patch.diff
  if ! git apply --check $PATCH 2>>$LOG; then
    # the tree moved on since the seed was written (later fix: commits): rebase the patch with fuzz and regenerate it
    if patch -p1 --no-backup-if-mismatch -s -f -i $PATCH >>$LOG 2>&1; then
      git diff > /tmp/confirm/$P-$TAG$V.rebased.diff
      git checkout -q -- .
      PATCH=/tmp/confirm/$P-$TAG$V.rebased.diff
      echo "patch rebased onto $(git -C /repo rev-parse --short HEAD)" >> $LOG
    fi
  fi
  if git apply --check $PATCH 2>>$LOG; then
    applies=yes
    git apply $PATCH
    if cargo test --offline >>$LOG 2>&1; then suite=pass; else suite=FAIL; fi
    if [ -f _seed/$V/demo/run.sh ]; then
      if bash _seed/$V/demo/run.sh >>$LOG 2>&1; then demo_with=pass-UNEXPECTED; else demo_with=fail-as-expected; fi
      git checkout -q -- . ; git clean -fdq -e _seed -e target
      if bash _seed/$V/demo/run.sh >>$LOG 2>&1; then demo_without=pass; else demo_without=FAIL-UNEXPECTED; fi
    fi
  fi
  git checkout -q -- . ; git clean -fdq -e _seed -e target
  cp $PATCH $OUT/patch.diff
  rm -rf $OUT/demo; cp -r $SRC/$V/demo $OUT/demo 2>/dev/null
  cp $SRC/$V/notes.md $OUT/notes.md 2>/dev/null
  echo "$P $TAG$V applies=$applies suite=$suite demo_with_change=$demo_with demo_without_change=$demo_without head=$(git -C /repo rev-parse --short HEAD)" | tee $OUT/confirm.txt
done
cd /
git -C /repo worktree remove --force $WT
