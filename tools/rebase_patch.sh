#!/bin/bash
# usage: rebase_patch.sh <patch file> : re-makes the patch against /repo HEAD when it no longer applies (whitespace-insensitive, fuzz 3); rewrites it in place
P=$(readlink -f $1)
D=$(mktemp -d /var/tmp/rb.XXXX)
cp -r /repo/src /repo/Cargo.toml $D/ 2>/dev/null
[ -d /repo/tests ] && cp -r /repo/tests $D/
cd $D && git init -q . && git add -A && git -c user.email=a@b -c user.name=x commit -qm base
if git apply --check $P 2>/dev/null; then echo "applies cleanly: $1"; cd /; rm -rf $D; exit 0; fi
if patch -p1 -l -F3 --no-backup-if-mismatch -s -f -i $P; then
  git diff > $P; echo "rebased: $1"; cd /; rm -rf $D; exit 0
fi
echo "FAILED: $1"; cd /; rm -rf $D; exit 1
