#!/usr/bin/env python3
"""prints the DESIGN.md §10.4 table from seeded/*/meta.json; with --write replaces the table in DESIGN.md"""
import json, os, sys, re
rows = []
tot = det = own = 0
for d in sorted(os.listdir('/verif/seeded')):
    p = '/verif/seeded/%s/meta.json' % d
    if not os.path.exists(p):
        continue
    m = json.load(open(p))
    tot += 1
    db = m.get('detected_by', {})
    if db:
        det += 1
        own += 1 if m['breaks_property'] in db else 0
        cell = '; '.join('%s: %s' % (pid, ', '.join(r)) for pid, r in sorted(db.items()))
    elif m.get('superseded'):
        cell = 'harmless on the repaired tree (superseded by a later fix: commit); every check is silent, as it must be'
    else:
        cell = '**not detected**'
    rows.append('| %s | %s | %s | %s |' % (d, m['summary'].replace('|', '\\|'), m['needs_to_manifest'].replace('|', '\\|'), cell.replace('|', '\\|')))
table = '| seed | change | needs | detected by |\n|---|---|---|---|\n' + '\n'.join(rows) + '\n'
print('seeds', tot, 'detected', det, 'by own property', own, file=sys.stderr)
if '--write' in sys.argv:
    s = open('/verif/DESIGN.md').read()
    i = s.index('| seed | change | needs | detected by |')
    j = i
    lines = s[i:].split('\n')
    n = 0
    for ln in lines:
        if ln.startswith('|'):
            n += len(ln) + 1
        else:
            break
    s = s[:i] + table + s[i + n:]
    open('/verif/DESIGN.md', 'w').write(s)
else:
    print(table)
