#!/bin/bash
# usage: confirm_clean.sh Cxx : for the round-8 seeds of /tmp/seed8/Cxx, checks the clean twin (the same refactoring without the slip):
# applies clean.diff in a fresh scratch worktree, the whole suite must pass and the seed's demo must PASS. Copies it to /verif/seeded/<id>/clean.diff
P=$1
SEEDROOT=${SEEDROOT:-/tmp/seed8}
TAG=${TAG:-r8}
SRC=$SEEDROOT/$P/_seed
WT=/tmp/confirm/$P${TAG}c
mkdir -p /tmp/confirm
git -C /repo worktree remove --force $WT 2>/dev/null
git -C /repo worktree add -q --detach $WT HEAD || exit 2
cp -r $SRC $WT/_seed
cd $WT
for V in $(ls $SRC); do
  [ -f $SRC/$V/clean.diff ] || continue
  OUT=/verif/seeded/$P-$TAG$V
  mkdir -p $OUT
  LOG=$OUT/confirm_clean.log
  : > $LOG
  git checkout -q -- . ; git clean -fdq -e _seed -e target
  applies=no; suite=skipped; demo=skipped
  if git apply --check $SRC/$V/clean.diff 2>>$LOG; then
    applies=yes
    git apply $SRC/$V/clean.diff
    if cargo test --offline >>$LOG 2>&1; then suite=pass; else suite=FAIL; fi
    if [ -f _seed/$V/demo/run.sh ]; then
      if timeout 1200 bash _seed/$V/demo/run.sh >>$LOG 2>&1; then demo=pass; else demo=FAIL-UNEXPECTED; fi
    fi
  fi
  git checkout -q -- . ; git clean -fdq -e _seed -e target
  cp $SRC/$V/clean.diff $OUT/clean.diff
  echo "$P $TAG$V clean twin: applies=$applies suite=$suite demo_with_clean=$demo head=$(git -C /repo rev-parse --short HEAD)" | tee $OUT/confirm_clean.txt
done
cd /
git -C /repo worktree remove --force $WT
