//@ kind: pass
//@ what: the crate's error type is Send + Sync + 'static: a worker thread that owns a cloned handle may return Result<_, Error>, and the error converts into Box<dyn Error + Send + Sync>
#![allow(unused, dead_code)]
use jammdb::{Bucket, BucketName, Cursor, Data, Error, KVPair, OpenOptions, Tx, DB};
fn sink<T>(_t: &T) {}

fn assert_send_sync<T: Send + Sync + 'static>() {}
fn worker(db: DB) -> Result<u64, Error> {
    let tx = db.tx(true)?;
    let b = tx.get_or_create_bucket("b")?;
    let n = b.next_int();
    tx.commit()?;
    Ok(n)
}
fn boxed(db: &DB) -> Result<(), Box<dyn std::error::Error + Send + Sync>> {
    let tx = db.tx(false)?;
    tx.get_bucket("b")?;
    Ok(())
}
fn main() -> Result<(), Error> {
    assert_send_sync::<Error>();
    let db = DB::open("never-run.db")?;
    let h = { let db = db.clone(); std::thread::spawn(move || worker(db)) };
    let r: Result<u64, Error> = h.join().unwrap();
    sink(&r.is_ok());
    let _ = boxed(&db);
    Ok(())
}
